/-
  XotModel.Model.FcloneSpec — what C12 says a clone should be (specification, not a mirror of
  the Rust): the source subtree in which every run of adjacent text nodes has been merged into
  one (`mergeAdjacentText`), and a structural copy with fresh handles (`copyInto` / `copyKids`),
  the function the edge replay of `clone_node` is proved equal to.
-/
import XotModel.Model.Forest

namespace XotModel

/-- Add `t` at the end of an already merged child list: a text node arriving after a text node is
    absorbed by it (its content is appended; the first node stays). -/
def snocMerge (A : List Tree) (t : Tree) : List Tree :=
  match t, A.getLast? with
  | .node (.text s) _, some (.node (.text ps) pk) => A.dropLast ++ [.node (.text (ps ++ s)) pk]
  | _, _ => A ++ [t]

mutual
  /-- Merge every run of adjacent text children into its first node, at every level. -/
  def mergeAdjacentText : Tree → Tree
    | .node v ks => .node v (mergeInto [] ks)
  /-- Scan the children left to right, `A` = what has been produced so far. -/
  def mergeInto (A : List Tree) : List Tree → List Tree
    | [] => A
    | k :: ks => mergeInto (snocMerge A (mergeAdjacentText k)) ks
end

/-- What `clone_node` is expected to produce from a source subtree, handles forgotten. -/
def expectedClone (consolidation : Bool) (t : Tree) : Tree :=
  if consolidation then mergeAdjacentText t else t

/-! ### Structural copy with fresh handles -/

/-- Add a copied leaf / element `new` at the end of the child list `K`; with consolidation a text
    node arriving after a text node is absorbed by it. -/
def snocClone (cons : Bool) (K : List HTree) (new : HTree) : List HTree :=
  match cons, new.value, K.getLast? with
  | true, .text s, some (.node m (.text ps) mk) => K.dropLast ++ [.node m (.text (ps ++ s)) mk]
  | _, _, _ => K ++ [new]

mutual
  /-- Copy the source subtree after the children `K` already copied, numbering the new nodes
      from `n`; returns the new child list and the next free handle. One handle is used per
      source node (also for a text node that is then absorbed); document values are skipped. -/
  def copyInto (cons : Bool) (K : List HTree) (n : Nat) : HTree → List HTree × Nat
    | .node _ v ks =>
      match v with
      | .document => copyKids cons K n ks
      | .element _ =>
        let r := copyKids cons [] (n + 1) ks
        (K ++ [.node n v r.1], r.2)
      | _ => (snocClone cons K (.node n v []), n + 1)
  def copyKids (cons : Bool) (K : List HTree) (n : Nat) : List HTree → List HTree × Nat
    | [] => (K, n)
    | k :: ks =>
      let r := copyInto cons K n k
      copyKids cons r.1 r.2 ks
end

/-- The whole clone of a source subtree in a store whose next free handle is `n`, and the next
    free handle afterwards: a document gets handle `n`; an element `n + 1` (`n` is the temporary
    top element of `clone_node`, removed at the end); any other node is copied alone. -/
def copyRoot (cons : Bool) (n : Nat) : HTree → HTree × Nat
  | .node _ v ks =>
    match v with
    | .document =>
      let r := copyKids cons [] (n + 1) ks
      (.node n .document r.1, r.2)
    | .element _ =>
      let r := copyKids cons [] (n + 2) ks
      (.node (n + 1) v r.1, r.2)
    | _ => (.node n v [], n + 1)

end XotModel
