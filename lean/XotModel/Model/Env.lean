/-
  XotModel.Model.Env — the interning tables as seen by the static layers: three lists indexed by
  id (`IdMap.by_id`).  Built-in ids are at the positions `Xot::new` gives them.
-/
import XotModel.Model.Basic

namespace XotModel

structure Env where
  namespaces : List Str := []
  prefixes : List Str := []
  /-- (local name, namespace id) -/
  names : List (Str × Nat) := []
  deriving Repr, Inhabited

namespace Env

/-- Built-in ids of `Xot::new` (checked against the source by `Generated.builtinRegistrations`). -/
def noNamespace : Nat := 0
def xmlNamespace : Nat := 1
def emptyPrefix : Nat := 0
def xmlPrefix : Nat := 1
def xmlSpaceName : Nat := 0
def xmlIdName : Nat := 1

def namespaceStr (e : Env) (ns : Nat) : Str := e.namespaces.getD ns []
def prefixStr (e : Env) (p : Nat) : Str := e.prefixes.getD p []
def localName (e : Env) (n : Nat) : Str := (e.names.getD n ([], 0)).1
/-- `namespace_for_name`. -/
def nsOfName (e : Env) (n : Nat) : Nat := (e.names.getD n ([], 0)).2

end Env
end XotModel
