/-
  XotModel.Model.TokenShape — the token-shape contract under which the parser theorems are
  stated (DESIGN.md section 6, xmlparser contract (ii)).  Nothing here is about xot: it says what
  a token list coming out of a tokenizer looks like.

  * `Token.Inside len`  : every span the token carries ends inside a source of `len` bytes
  * `Token.Abuts`       : a prefix is absent (empty, offset 0) or ends one byte (the colon) before
                          its local name
  * `TagsOk`            : attributes occur only between an element start and its end token, and
                          `>` / `/>` end tokens occur only there
  * `NoStrayClose`      : no end tag at depth 0 (guaranteed by the tokenizer in document mode,
                          NOT in fragment mode)
-/
import XotModel.Model.ParseTypes

namespace XotModel

def StrSpan.Inside (len : Nat) (s : StrSpan) : Prop := s.stop ≤ len

/-- An absent prefix (xmlparser's `"".into()`: empty, offset 0), or a prefix - empty for the
    spelling `:local`, which xot refuses since /repo a5fafb0 - that ends one byte (the colon)
    before its local name. -/
def Abut (p l : StrSpan) : Prop := (p.text = [] ∧ p.start = 0) ∨ p.stop + 1 = l.start

def Token.Inside (len : Nat) : Token → Prop
  | .declaration v e _ sp => v.Inside len ∧ (∀ x, e = some x → x.Inside len) ∧ sp.Inside len
  | .pi t c sp => t.Inside len ∧ (∀ x, c = some x → x.Inside len) ∧ sp.Inside len
  | .comment t sp => t.Inside len ∧ sp.Inside len
  | .dtdStart sp => sp.Inside len
  | .emptyDtd sp => sp.Inside len
  | .entityDecl sp => sp.Inside len
  | .dtdEnd sp => sp.Inside len
  | .elementStart p l sp => p.Inside len ∧ l.Inside len ∧ sp.Inside len
  | .attribute p l v sp => p.Inside len ∧ l.Inside len ∧ v.Inside len ∧ sp.Inside len
  | .elementEnd (.close p l) sp => p.Inside len ∧ l.Inside len ∧ sp.Inside len
  | .elementEnd _ sp => sp.Inside len
  | .text t => t.Inside len
  | .cdata t sp => t.Inside len ∧ sp.Inside len

def Token.Abuts : Token → Prop
  | .elementStart p l _ => Abut p l
  | .attribute p l _ _ => Abut p l
  | .elementEnd (.close p l) _ => Abut p l
  | _ => True

/-- `inTag` = an element start has been seen and its `>` / `/>` not yet. -/
def TagsOk : Bool → List Token → Prop
  | _, [] => True
  | false, .elementStart _ _ _ :: rest => TagsOk true rest
  | false, .attribute _ _ _ _ :: _ => False
  | false, .elementEnd .open _ :: _ => False
  | false, .elementEnd .empty _ :: _ => False
  | false, _ :: rest => TagsOk false rest
  | true, .attribute _ _ _ _ :: rest => TagsOk true rest
  | true, .elementEnd .open _ :: rest => TagsOk false rest
  | true, .elementEnd .empty _ :: rest => TagsOk false rest
  | true, _ :: _ => False

/-- No end tag when `depth` elements are open. -/
def NoStrayClose : Nat → List Token → Prop
  | _, [] => True
  | d, .elementEnd .open _ :: rest => NoStrayClose (d + 1) rest
  | 0, .elementEnd (.close _ _) _ :: _ => False
  | d + 1, .elementEnd (.close _ _) _ :: rest => NoStrayClose d rest
  | d, _ :: rest => NoStrayClose d rest

/-- The token-shape contract for a source of `len` bytes. -/
structure TokenShape (len : Nat) (ts : List Token) (lexErr : Option Nat) : Prop where
  inside : ∀ t ∈ ts, t.Inside len
  abuts : ∀ t ∈ ts, t.Abuts
  tags : TagsOk false ts
  lexPos : ∀ p, lexErr = some p → p ≤ len

end XotModel
