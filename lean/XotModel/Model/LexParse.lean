/-
  XotModel.Model.LexParse — `xmlparser-0.13.6/src/lib.rs`: the token parsers
  (`Tokenizer::parse_*`) and one call of `parse_next_impl`, as total functions over
  `Lex.Stream` (Model/LexStream.lean).

  A parser returns `none` for `Err(_)` (the error value is never looked at by xot) and
  `some (token, stream after it)` otherwise.  DTD tokens carry only their span in
  `XotModel.Token`; the DTD grammar itself (doctype, external id, entity declarations,
  `<!ELEMENT`/`<!ATTLIST`/`<!NOTATION` skipping) is modelled in full, because it decides where
  the next token starts and whether the tokenizer fails.
-/
import XotModel.Model.LexStream

namespace XotModel.Lex

open XotModel.Lex.Stream

/-! ### Literals (`b"..."`) -/

def litXmlDecl : Str := ['<', '?', 'x', 'm', 'l', ' ']
def litDoctype : Str := ['<', '!', 'D', 'O', 'C', 'T', 'Y', 'P', 'E']
def litCommentOpen : Str := ['<', '!', '-', '-']
def litCommentClose : Str := ['-', '-', '>']
def litPiOpen : Str := ['<', '?']
def litPiClose : Str := ['?', '>']
def litCdataOpen : Str := ['<', '!', '[', 'C', 'D', 'A', 'T', 'A', '[']
def litCdataClose : Str := [']', ']', '>']
def litEntity : Str := ['<', '!', 'E', 'N', 'T', 'I', 'T', 'Y']
def litElement : Str := ['<', '!', 'E', 'L', 'E', 'M', 'E', 'N', 'T']
def litAttlist : Str := ['<', '!', 'A', 'T', 'T', 'L', 'I', 'S', 'T']
def litNotation : Str := ['<', '!', 'N', 'O', 'T', 'A', 'T', 'I', 'O', 'N']
def litVersion : Str := ['v', 'e', 'r', 's', 'i', 'o', 'n']
def litOneDot : Str := ['1', '.']
def litEncoding : Str := ['e', 'n', 'c', 'o', 'd', 'i', 'n', 'g']
def litStandalone : Str := ['s', 't', 'a', 'n', 'd', 'a', 'l', 'o', 'n', 'e']
def litYes : Str := ['y', 'e', 's']
def litNo : Str := ['n', 'o']
def litSystem : Str := ['S', 'Y', 'S', 'T', 'E', 'M']
def litPublic : Str := ['P', 'U', 'B', 'L', 'I', 'C']
def litNdata : Str := ['N', 'D', 'A', 'T', 'A']
def litBang : Str := ['<', '!']
def litLt : Str := ['<']
def litRBracket : Str := [']']
def litDashDash : Str := ['-', '-']

/-! ### XML declaration -/

/-- The local `consume_spaces` of `parse_declaration_impl`. -/
def declSpaces (s : Stream) : Option Stream :=
  if s.startsWithSpace then some s.skipSpaces
  else if !s.startsWith litPiClose && !s.atEnd then none
  else some s

/-- `parse_version_info`. -/
def parseVersionInfo (s : Stream) : Option (StrSpan × Stream) := do
  let s1 ← s.skipSpaces.skipString litVersion
  let s2 ← s1.consumeEq
  let (quote, s3) ← s2.consumeQuote
  let s4 ← s3.skipString litOneDot
  let s5 := s4.skipBytes isXmlDigit
  let s6 ← s5.consumeByte quote
  some (sliceBack s3 s5, s6)

/-- `parse_encoding_decl`. -/
def parseEncodingDecl (s : Stream) : Option (Option StrSpan × Stream) :=
  if !s.startsWith litEncoding then some (none, s) else do
    let s1 := s.adv 8
    let s2 ← s1.consumeEq
    let (quote, s3) ← s2.consumeQuote
    let s4 := s3.skipBytes (fun c => isXmlLetter c || isXmlDigit c || c == '.' || c == '-' || c == '_')
    let s5 ← s4.consumeByte quote
    some (some (sliceBack s3 s4), s5)

/-- `parse_standalone`. -/
def parseStandalone (s : Stream) : Option (Option Bool × Stream) :=
  if !s.startsWith litStandalone then some (none, s) else do
    let s1 := s.adv 10
    let s2 ← s1.consumeEq
    let (quote, s3) ← s2.consumeQuote
    let (value, s4) ← s3.consumeName
    let flag ← (if value.text == litYes then some true
                else if value.text == litNo then some false else none)
    let s5 ← s4.consumeByte quote
    some (some flag, s5)

/-- `parse_declaration` (`parse_declaration_impl`). -/
def parseDeclaration (s : Stream) : Option (Token × Stream) := do
  let s1 := s.adv 6
  let (version, s2) ← parseVersionInfo s1
  let s3 ← declSpaces s2
  let (encoding, s4) ← parseEncodingDecl s3
  let s5 ← (if encoding.isSome then declSpaces s4 else some s4)
  let (standalone, s6) ← parseStandalone s5
  let s7 ← s6.skipSpaces.skipString litPiClose
  some (.declaration version encoding standalone (sliceBack s s7), s7)

/-! ### Comments, PIs, CDATA, text -/

/-- `parse_comment` (`parse_comment_impl`). -/
def parseComment (s : Stream) : Option (Token × Stream) := do
  let s1 := s.adv 4
  let s2 ← s1.skipChars (fun r c => !(c == '-' && litCommentClose.isPrefixOf r))
  let text := sliceBack s1 s2
  let s3 ← s2.skipString litCommentClose
  if hasInfix litDashDash text.text then none
  else if text.text.getLast? == some '-' then none
  else some (.comment text (sliceBack s s3), s3)

/-- `parse_pi` (`parse_pi_impl`). -/
def parsePI (s : Stream) : Option (Token × Stream) := do
  let s1 := s.adv 2
  let (target, s2) ← s1.consumeName
  let s3 := s2.skipSpaces
  let s4 ← s3.skipChars (fun r c => !(c == '?' && litPiClose.isPrefixOf r))
  let content := sliceBack s3 s4
  let s5 ← s4.skipString litPiClose
  some (.pi target (if content.text.isEmpty then none else some content) (sliceBack s s5), s5)

/-- `parse_cdata` (`parse_cdata_impl`). -/
def parseCdata (s : Stream) : Option (Token × Stream) := do
  let s1 := s.adv 9
  let s2 ← s1.skipChars (fun r c => !(c == ']' && litCdataClose.isPrefixOf r))
  let s3 ← s2.skipString litCdataClose
  some (.cdata (sliceBack s1 s2) (sliceBack s s3), s3)

/-- `parse_text` (`parse_text_impl`). -/
def parseText (s : Stream) : Option (Token × Stream) := do
  let s1 ← s.skipChars (fun _ c => c != '<')
  let text := sliceBack s s1
  if text.text.contains '>' && hasInfix litCdataClose text.text then none
  else some (.text text, s1)

/-! ### DTD -/

/-- `parse_external_id`: `some (true, _)` = `Some(id)`, `some (false, _)` = `None`. -/
def parseExternalId (s : Stream) : Option (Bool × Stream) :=
  if s.startsWith litSystem || s.startsWith litPublic then do
    let s1 := s.adv 6
    let s2 ← s1.consumeSpaces
    let (quote, s3) ← s2.consumeQuote
    let s4 := s3.skipBytes (fun c => c != quote)
    let s5 ← s4.consumeByte quote
    if s.startsWith litSystem then some (true, s5) else do
      let s6 ← s5.consumeSpaces
      let (quote2, s7) ← s6.consumeQuote
      let s8 := s7.skipBytes (fun c => c != quote2)
      let s9 ← s8.consumeByte quote2
      some (true, s9)
  else some (false, s)

/-- `parse_doctype` (`parse_doctype_impl`). -/
def parseDoctype (s : Stream) : Option (Token × Stream) := do
  let s1 := s.adv 9
  let s2 ← s1.consumeSpaces
  let (_, s3) ← s2.consumeName
  let (_, s4) ← parseExternalId s3.skipSpaces
  let s5 := s4.skipSpaces
  let c ← s5.curr?
  if c != '[' && c != '>' then none
  else
    let s6 := s5.adv 1
    if c == '[' then some (.dtdStart (sliceBack s s6), s6)
    else some (.emptyDtd (sliceBack s s6), s6)

/-- `parse_entity_def`. -/
def parseEntityDef (s : Stream) (isGe : Bool) : Option Stream := do
  let c ← s.curr?
  if c == '"' || c == '\'' then do
    let (quote, s1) ← s.consumeQuote
    let s2 := s1.skipBytes (fun c => c != quote)
    s2.consumeByte quote
  else if c == 'S' || c == 'P' then do
    let (isSome, s1) ← parseExternalId s
    if !isSome then none
    else if isGe then
      let s2 := s1.skipSpaces
      if s2.startsWith litNdata then do
        let s3 ← (s2.adv 5).consumeSpaces
        s3.skipName
      else some s2
    else some s1
  else none

/-- `parse_entity_decl` (`parse_entity_decl_impl`). -/
def parseEntityDecl (s : Stream) : Option (Token × Stream) := do
  let s1 := s.adv 8
  let s2 ← s1.consumeSpaces
  let (pct, s3) := s2.tryConsumeByte '%'
  let s4 ← (if pct then s3.consumeSpaces else some s3)
  let (_, s5) ← s4.consumeName
  let s6 ← s5.consumeSpaces
  let s7 ← parseEntityDef s6 (!pct)
  let s8 ← s7.skipSpaces.consumeByte '>'
  some (.entityDecl (sliceBack s s8), s8)

/-- `consume_decl`. -/
def consumeDecl (s : Stream) : Option Stream :=
  (s.skipBytes (fun c => c != '>')).consumeByte '>'

/-! ### Elements -/

/-- `parse_element_start` (`parse_element_start_impl`). -/
def parseElementStart (s : Stream) : Option (Token × Stream) := do
  let (pfx, loc, s1) ← (s.adv 1).consumeQName
  some (.elementStart pfx loc (sliceBack s s1), s1)

/-- `parse_close_element` (`parse_close_element_impl`). -/
def parseCloseElement (s : Stream) : Option (Token × Stream) := do
  let (pfx, loc, s1) ← (s.adv 2).consumeQName
  let s2 ← s1.skipSpaces.consumeByte '>'
  some (.elementEnd (.close pfx loc) (sliceBack s s2), s2)

/-- `parse_attribute`: an attribute or the `>` / `/>` that ends the start tag. -/
def parseAttribute (s : Stream) : Option (Token × Stream) :=
  let hasSpace := s.startsWithSpace
  let s1 := s.skipSpaces
  if s1.curr? == some '/' then do
    let s2 ← (s1.adv 1).consumeByte '>'
    some (.elementEnd .empty (sliceBack s1 s2), s2)
  else if s1.curr? == some '>' then
    let s2 := s1.adv 1
    some (.elementEnd .open (sliceBack s1 s2), s2)
  else if !hasSpace then none
  else do
    let (pfx, loc, s2) ← s1.consumeQName
    let s3 ← s2.consumeEq
    let (quote, s4) ← s3.consumeQuote
    let s5 ← s4.skipChars (fun _ c => c != quote && c != '<')
    let s6 ← s5.consumeByte quote
    some (.attribute pfx loc (sliceBack s4 s5) (sliceBack s1 s6), s6)

/-! ### The state machine -/

/-- `enum State`. -/
inductive State where
  | declaration | afterDeclaration | dtd | afterDtd | elements | attributes | afterElements | finished
  deriving Repr, DecidableEq, Inhabited

/-- `struct Tokenizer`. -/
structure Tokenizer where
  stream : Stream
  state : State
  depth : Nat
  fragment : Bool
  deriving Repr, DecidableEq, Inhabited

/-- `Tokenizer::from(text)`: skips a UTF-8 BOM (U+FEFF = EF BB BF). -/
def Tokenizer.ofStr (text : Str) : Tokenizer :=
  let stream := Stream.ofStr text
  let stream := if stream.curr? == some '\uFEFF' then stream.adv 1 else stream
  ⟨stream, .declaration, 0, false⟩

/-- `Tokenizer::from_fragment(text, 0..text.len())`. -/
def Tokenizer.ofFragment (text : Str) : Tokenizer := ⟨Stream.ofStr text, .elements, 0, true⟩

/-- What one call of `parse_next_impl` returns, with the tokenizer after it:
    `skip` = `None`, `token` = `Some(Ok(_))`, `error` = `Some(Err(_))`. -/
inductive Step where
  | skip (tk : Tokenizer)
  | token (t : Token) (tk : Tokenizer)
  | error
  deriving Repr, Inhabited

/-- `Some(Self::parse_x(s))` with the tokenizer fields as they stand. -/
def Step.ofParse (tk : Tokenizer) : Option (Token × Stream) → Step
  | none => .error
  | some (t, s) => .token t { tk with stream := s }

/-- The `<!--` / `<?` / space / other alternatives shared by the states outside the root
    element; `other` is the last `else` branch. -/
def miscStep (tk : Tokenizer) (other : Step) : Step :=
  let s := tk.stream
  if s.startsWith litCommentOpen then Step.ofParse tk (parseComment s)
  else if s.startsWith litPiOpen then
    (if s.startsWith litXmlDecl then .error else Step.ofParse tk (parsePI s))
  else other

/-- The state after a token that leaves `depth` elements open. -/
def stateAfterTag (depth : Nat) (fragment : Bool) : State :=
  if depth == 0 && !fragment then .afterElements else .elements

/-- `Tokenizer::parse_next_impl`. -/
def parseNextImpl (tk : Tokenizer) : Step :=
  let s := tk.stream
  if s.atEnd then .skip tk else
  match tk.state with
  | .declaration =>
    let tk1 := { tk with state := .afterDeclaration }
    if s.startsWith litXmlDecl then Step.ofParse tk1 (parseDeclaration s) else .skip tk1
  | .afterDeclaration =>
    if s.startsWith litDoctype then
      match parseDoctype s with
      | none => .error
      | some (t, s1) =>
        .token t { tk with stream := s1, state := match t with
          | .dtdStart _ => .dtd
          | .emptyDtd _ => .afterDtd
          | _ => tk.state }
    else miscStep tk
      (if s.startsWithSpace then .skip { tk with stream := s.skipSpaces }
       else .skip { tk with state := .afterDtd })
  | .dtd =>
    if s.startsWith litEntity then Step.ofParse tk (parseEntityDecl s)
    else miscStep tk
      (if s.startsWith litRBracket then
        let s1 := (s.adv 1).skipSpaces
        if s1.curr? == some '>' then
          let s2 := s1.adv 1
          .token (.dtdEnd (sliceBack s s2)) { tk with stream := s2, state := .afterDtd }
        else .error
       else if s.startsWithSpace then .skip { tk with stream := s.skipSpaces }
       else if s.startsWith litElement || s.startsWith litAttlist || s.startsWith litNotation then
        match consumeDecl s with
        | none => .error
        | some s1 => .skip { tk with stream := s1 }
       else .error)
  | .afterDtd =>
    miscStep tk
      (if s.startsWith litBang then .error
       else if s.startsWith litLt then
        Step.ofParse { tk with state := .attributes } (parseElementStart s)
       else if s.startsWithSpace then .skip { tk with stream := s.skipSpaces }
       else .error)
  | .elements =>
    if s.curr? == some '<' then
      match s.next? with
      | none => .error
      | some c =>
        if c == '!' then
          if s.startsWith litCommentOpen then Step.ofParse tk (parseComment s)
          else if s.startsWith litCdataOpen then Step.ofParse tk (parseCdata s)
          else .error
        else if c == '?' then
          if !s.startsWith litXmlDecl then Step.ofParse tk (parsePI s) else .error
        else if c == '/' then
          let depth := if tk.depth > 0 then tk.depth - 1 else tk.depth
          Step.ofParse { tk with depth := depth, state := stateAfterTag depth tk.fragment }
            (parseCloseElement s)
        else Step.ofParse { tk with state := .attributes } (parseElementStart s)
    else Step.ofParse tk (parseText s)
  | .attributes =>
    match parseAttribute s with
    | none => .error
    | some (t, s1) =>
      match t with
      | .elementEnd e _ =>
        let depth := if e == .open then tk.depth + 1 else tk.depth
        .token t { tk with stream := s1, depth := depth, state := stateAfterTag depth tk.fragment }
      | _ => .token t { tk with stream := s1 }
  | .afterElements =>
    miscStep tk
      (if s.startsWithSpace then .skip { tk with stream := s.skipSpaces } else .error)
  | .finished => .skip tk

end XotModel.Lex
