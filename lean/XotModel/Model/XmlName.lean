/-
  XotModel.Model.XmlName — the name types of xmlname/*.rs: `OwnedName` (owned.rs), `RefName`
  (reference.rs), `CreateName` (create.rs), over the interning tables as the static layers see them
  (`Env`: three lists indexed by id; `xot.prefix(s)` / `namespace(s)` / `name_ns(l, ns)` = the index of
  the value, `add_*` = that index or a push).

  A `RefName` is `(name_id, prefix_id)` (what `name_ref` / `node_name_ref` of Model/Scope.lean hand
  out); an `OwnedName` three strings.  Functions that take `&mut Xot` return the new tables.
-/
import XotModel.Model.Scope
import XotModel.Model.Repair

namespace XotModel

/-! ### The interning API used by the name types (nameaccess.rs, on `Env`) -/

namespace Env

/-- `xot.prefix(s)`. -/
def prefixId? (e : Env) (s : Str) : Option Nat := e.prefixes.findIdx? (· == s)
/-- `xot.namespace(s)`. -/
def namespaceId? (e : Env) (s : Str) : Option Nat := e.namespaces.findIdx? (· == s)
/-- `xot.name_ns(local, namespace_id)`. -/
def nameId? (e : Env) (l : Str) (ns : Nat) : Option Nat := e.names.findIdx? (· == (l, ns))

-- `xot.add_prefix(s)` is `Env.addPrefix` of Model/Repair.lean (the same lookup-or-push).

/-- `xot.add_namespace(s)`. -/
def addNamespace (e : Env) (s : Str) : Env × Nat :=
  match e.namespaceId? s with
  | some i => (e, i)
  | none => ({ e with namespaces := e.namespaces ++ [s] }, e.namespaces.length)

/-- `xot.add_name_ns(local, namespace_id)`. -/
def addNameNs (e : Env) (l : Str) (ns : Nat) : Env × Nat :=
  match e.nameId? l ns with
  | some i => (e, i)
  | none => ({ e with names := e.names ++ [(l, ns)] }, e.names.length)

end Env

/-! ### `OwnedName` -/

/-- `struct OwnedName { local_name_str, namespace_str, prefix_str }`. -/
structure OwnedName where
  localName : Str
  namespaceStr : Str
  prefixStr : Str
  deriving Repr, DecidableEq, Inhabited

/-- `struct RefName { xot, name_id, prefix_id }`. -/
structure RefName where
  nameId : Nat
  prefixId : Nat
  deriving Repr, DecidableEq, Inhabited

/-- owned.rs `parse_full_name(full_name) -> (prefix, local_name)`: split at the FIRST `:`
    (`full_name.find(':')`, `split_at(pos)`, `&local_name[1..]`); no colon: `("", full_name)`. -/
def splitFullName (s : Str) : Str × Str :=
  match s.dropWhile (· != ':') with
  | [] => ([], s)
  | _ :: rest => (s.takeWhile (· != ':'), rest)

namespace OwnedName

/-- `NameStrInfo::full_name`: `prefix:local`, or `local` for the empty prefix. -/
def fullName (o : OwnedName) : Str :=
  if !o.prefixStr.isEmpty then o.prefixStr ++ [':'] ++ o.localName else o.localName

/-- `OwnedName::prefixed(prefix, local_name, lookup_namespace)`: the error is
    `Error::UnknownPrefix(prefix.to_string())`, carried as the prefix string. -/
def prefixed (pfx localName : Str) (lookup : Str → Option Str) : Except Str OwnedName :=
  match lookup pfx with
  | none => .error pfx
  | some ns => .ok ⟨localName, ns, pfx⟩

/-- `OwnedName::parse_full_name(full_name, lookup_namespace)`. -/
def parseFullName (s : Str) (lookup : Str → Option Str) : Except Str OwnedName :=
  prefixed (splitFullName s).1 (splitFullName s).2 lookup

/-- `with_suffix`: `local_name.push('*')`. -/
def withSuffix (o : OwnedName) : OwnedName := { o with localName := o.localName ++ ['*'] }

/-- `with_default_namespace(namespace)`: `if !prefix.is_empty() || !namespace.is_empty() { return self }`. -/
def withDefaultNamespace (o : OwnedName) (ns : Str) : OwnedName :=
  if !o.prefixStr.isEmpty || !o.namespaceStr.isEmpty then o else { o with namespaceStr := ns }

/-- `in_default_namespace`: `!namespace.is_empty() && prefix.is_empty()`. -/
def inDefaultNamespace (o : OwnedName) : Bool := !o.namespaceStr.isEmpty && o.prefixStr.isEmpty

/-- `to_ref(&mut xot)`: `add_prefix`, `add_namespace`, `add_name_ns`, in this order. -/
def toRef (env : Env) (o : OwnedName) : Env × RefName :=
  let r1 := env.addPrefix o.prefixStr
  let r2 := r1.1.addNamespace o.namespaceStr
  let r3 := r2.1.addNameNs o.localName r2.2
  (r3.1, ⟨r3.2, r1.2⟩)

/-- `maybe_to_ref(&xot)`: `xot.prefix(..).unwrap_or(empty_prefix)`, `xot.namespace(..)?`, `xot.name_ns(..)?`. -/
def maybeToRef (env : Env) (o : OwnedName) : Option RefName :=
  let p := (env.prefixId? o.prefixStr).getD Env.emptyPrefix
  match env.namespaceId? o.namespaceStr with
  | none => none
  | some ns =>
    match env.nameId? o.localName ns with
    | none => none
    | some n => some ⟨n, p⟩

/-- `to_create(&mut xot)`: `add_namespace`, `add_name_ns`; the prefix is disregarded. -/
def toCreate (env : Env) (o : OwnedName) : Env × Nat :=
  let r2 := env.addNamespace o.namespaceStr
  r2.1.addNameNs o.localName r2.2

end OwnedName

namespace RefName

/-- `RefName::to_owned`: the three strings of the ids. -/
def toOwned (env : Env) (r : RefName) : OwnedName :=
  ⟨env.localName r.nameId, env.namespaceStr (env.nsOfName r.nameId), env.prefixStr r.prefixId⟩

/-- `has_unprefixed_namespace`: `namespace_id() != no_namespace() && empty_prefix() == prefix_id()`. -/
def hasUnprefixedNamespace (env : Env) (r : RefName) : Bool :=
  env.nsOfName r.nameId != Env.noNamespace && Env.emptyPrefix == r.prefixId

end RefName

/-! ### `CreateName` -/

/-- `CreateName::prefixed(xot, prefix, local_name, lookup_namespace)`: the name id created. -/
def createPrefixed (env : Env) (pfx localName : Str) (lookup : Str → Option Nat) : Except Str (Env × Nat) :=
  match lookup pfx with
  | none => .error pfx
  | some ns => .ok (env.addNameNs localName ns)

/-- `CreateName::parse_full_name(xot, full_name, lookup_namespace)`. -/
def createParseFullName (env : Env) (s : Str) (lookup : Str → Option Nat) : Except Str (Env × Nat) :=
  createPrefixed env (splitFullName s).1 (splitFullName s).2 lookup

/-! ### The lookup the `scope` suite passes to `parse_full_name` -/

/-- harness `lookup_id` (scope_names.rs): the XML-Namespaces rule for an ELEMENT name in the scope of
    the node whose ancestor-or-self chain is given — `xot.prefix(s)?`, then
    `namespace_for_prefix(node, prefix)`; the empty prefix without a default namespace is no namespace. -/
def elementLookup (env : Env) (chain : List Tree) (s : Str) : Option Nat :=
  match env.prefixId? s with
  | none => none
  | some p =>
    match namespaceForPrefixChain chain p with
    | some ns => some ns
    | none => if s.isEmpty then some Env.noNamespace else none

/-- harness `lookup_str`: the same, as namespace string. -/
def elementLookupStr (env : Env) (chain : List Tree) (s : Str) : Option Str :=
  (elementLookup env chain s).map env.namespaceStr

end XotModel
