/-
  XotModel.Model.FframeSpec2 — the general frame for more constructors (branch wt-framerest).

  `XCall.writtenParents` (Model/FframeSpec.lean) is NOT enough for two of the constructors it was left unproved for:

    * `append_attribute_node` / `append_namespace_node` / `any_append` of an entry node whose KEY IS PRESENT in the
      target element: the existing entry node of the target takes the value (`A::update`), the given node stays where
      it is.  That entry node is a child of the target `p`, not `p` itself and not a text child: it is not in
      `writtenParents`.  `extraWritten` adds the entry nodes of that kind of the target.
    * `remove_insignificant_whitespace(n)` when `n` ITSELF is a whitespace text node the rule selects: `n` is removed,
      the child list of its parent changes, and the parent is not in the subtree of `n`.  `extraWritten` adds the
      parent of `n`.

  `writtenParents2 = writtenParents ++ extraWritten`; `framed2`: the domain of `C05_frame_general2` (Props/C05.lean).
  (Specification only.  No existing definition is changed.)
-/
import XotModel.Model.FframeSpec

namespace XotModel
namespace Forest

/-- The view an entry value belongs to. -/
def entryKindOf : Value → Option MapKind
  | .namespace _ _ => some .namespaces
  | .attribute _ _ => some .attributes
  | _ => none

/-- What `writtenParents` misses. -/
def XCall.extraWritten (f : Forest) : XCall → List Nat
  | .call (.appendEntryNode k p _) => f.entryHandles k p
  | .call (.anyAppend p c) =>
    match (f.value? c).bind entryKindOf with
    | some k => f.entryHandles k p
    | none => []
  | .removeInsignificantWhitespace n => (f.parent? n).toList
  | _ => []

/-- **The handles whose child list or own value the call may change** (corrected). -/
def XCall.writtenParents2 (f : Forest) (c : XCall) : List Nat := c.writtenParents f ++ c.extraWritten f

/-- The domain of `C05_frame_general2`: `framed`, and map clear, append of an entry node, any_append,
    remove_insignificant_whitespace. -/
def XCall.framed2 : XCall → Bool
  | .call (.mapClear _ _) | .call (.appendEntryNode _ _ _) | .call (.anyAppend _ _) => true
  | .removeInsignificantWhitespace _ => true
  | c => c.framed

end Forest
end XotModel
