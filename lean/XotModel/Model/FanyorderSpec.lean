/-
  XotModel.Model.FanyorderSpec — construction PROGRAMS for C20 ("every stepwise construction order
  that ends in the same abstract document gives the same result").

  A program is a list of steps over the public creation / manipulation API.  A step names a node
  by the INDEX OF THE `create` STEP THAT MADE IT (0 = the first `create` of the program), so that
  one program text is meaningful for the implementation model and for the specification alike.

  Two interpreters:

  * `runImpl` runs the steps with the forest model's functions (`Forest.newNode`, `Forest.append`,
    `Forest.prepend`, `Forest.insertAfter`, `Forest.insertBefore`, `Forest.anyAppend`,
    `Forest.mapInsert`): xot's statement order, early exits, refusals and panics.  It stops at
    the first step that is not `ok`.
  * `runSpec` runs them on the plain ordered-tree SPECIFICATION of `Model/FspecSpec.lean`: a forest
    of ordered trees whose nodes carry a name (`SpecForest`; the name of a created node is the
    next unused number), `specMove` = "cut the subtree, graft it at the destination, merge every
    maximal run of adjacent text nodes in the two touched child lists", and for attribute and
    namespace entries "same key: the value is replaced in place; new key: a new node at the end
    of the namespace block / the attribute block".  A step the ordered-tree reading cannot make
    sense of (`moveOk`: the receiving node is not an element or document, the moved node is a
    document / attribute / namespace node or contains the destination, the reference node is
    not a normal node or is the moved node itself, a name that was never created) makes the
    whole program ill-formed: `none`.

  Names and merges.  When two text nodes merge, one of the two names disappears.  Which one is
  part of the meaning of a PROGRAM (a later step may use the name), so the specification fixes
  it as xot does (`Keep.resident n`: the node being moved never survives; recorded finding
  `C05:text-placed-before-text-keeps-later-node`).  It does not influence the CONTENT
  (`Forest.content`: names forgotten) of any state.

  `Constructs` / `ConstructsClean`: what it means for a program to be a construction of an
  abstract document `d` (`FDocument`, Model/Fixed.lean) — said with `runSpec` only.
-/
import XotModel.Model.FspecSpec
import XotModel.Model.Fixed

namespace XotModel
namespace Prog
open Spec

/-- One step of a construction program.  All `Nat` node arguments are indices of `create` steps. -/
inductive Step where
  /-- `new_document` / `new_element` / `new_text` / `new_comment` / `new_processing_instruction` /
      `new_attribute_node` / `new_namespace_node`, by the value of the node -/
  | create (v : Value)
  | append (p c : Nat)
  | prepend (p c : Nat)
  | insertAfter (r n : Nat)
  | insertBefore (r n : Nat)
  /-- `any_append`: `append` for a normal node, `append_attribute_node` / `append_namespace_node`
      for an attribute / namespace node -/
  | anyAppend (p c : Nat)
  /-- `attributes_mut(e).insert(name, v)` (`set_attribute`) -/
  | setAttribute (e name : Nat) (v : Str)
  /-- `namespaces_mut(e).insert(pfx, ns)` (`set_namespace`) -/
  | setNamespace (e pfx ns : Nat)
  deriving Repr, DecidableEq, Inhabited

abbrev Program := List Step

/-- A step whose node indices have been resolved to node names (handles). -/
inductive Call where
  | create (v : Value)
  /-- `append` / `prepend` / `insert_after` / `insert_before` by destination -/
  | move (dest : Dest) (n : Nat)
  | anyAppend (p c : Nat)
  | setAttribute (e name : Nat) (v : Str)
  | setNamespace (e pfx ns : Nat)
  deriving Repr, DecidableEq, Inhabited

/-- Look the indices up in the list of nodes created so far; `none`: never created. -/
def Step.resolve (env : List Nat) : Step → Option Call
  | .create v => some (.create v)
  | .append p c =>
    match env[p]?, env[c]? with
    | some p', some c' => some (.move (.lastChildOf p') c')
    | _, _ => none
  | .prepend p c =>
    match env[p]?, env[c]? with
    | some p', some c' => some (.move (.firstNormalChildOf p') c')
    | _, _ => none
  | .insertAfter r n =>
    match env[r]?, env[n]? with
    | some r', some n' => some (.move (.after r') n')
    | _, _ => none
  | .insertBefore r n =>
    match env[r]?, env[n]? with
    | some r', some n' => some (.move (.before r') n')
    | _, _ => none
  | .anyAppend p c =>
    match env[p]?, env[c]? with
    | some p', some c' => some (.anyAppend p' c')
    | _, _ => none
  | .setAttribute e name v =>
    match env[e]? with
    | some e' => some (.setAttribute e' name v)
    | none => none
  | .setNamespace e pfx ns =>
    match env[e]? with
    | some e' => some (.setNamespace e' pfx ns)
    | none => none

/-- Interpreter state: the store and the nodes created by the program so far, in creation order. -/
structure State where
  forest : Forest
  env : List Nat := []
  deriving DecidableEq, Inhabited

/-- The nodes created so far, after a call that returned the new node `o`. -/
def extend (env : List Nat) : Option Nat → List Nat
  | some h => env ++ [h]
  | none => env

/-! ### The implementation side -/

/-- The four moves of manipulation.rs. -/
def moveImpl (f : Forest) : Dest → Nat → Forest × Res
  | .lastChildOf p, c => f.append p c
  | .firstNormalChildOf p, c => f.prepend p c
  | .after r, n => f.insertAfter r n
  | .before r, n => f.insertBefore r n

/-- One call on the forest model: state reached, outcome, node created (if any). -/
def Call.impl (f : Forest) : Call → Forest × Res × Option Nat
  | .create v => let (f', h) := f.newNode v; (f', .ok, some h)
  | .move d n => let (f', r) := moveImpl f d n; (f', r, none)
  | .anyAppend p c => let (f', r, _) := f.anyAppend p c; (f', r, none)
  | .setAttribute e name v => let (f', r) := f.mapInsert .attributes e (.attribute name v); (f', r, none)
  | .setNamespace e pfx ns => let (f', r) := f.mapInsert .namespaces e (.namespace pfx ns); (f', r, none)

/-- One step.  A node index that was never created cannot be executed at all (indexing the
    vector of created nodes): reported as `panic`. -/
def stepImpl (s : State) (st : Step) : State × Res :=
  match st.resolve s.env with
  | none => (s, .panic)
  | some c =>
    match c.impl s.forest with
    | (f', r, o) => ({ forest := f', env := extend s.env o }, r)

/-- Run a program; stops after the first step whose outcome is not `ok`. -/
def runImpl (s : State) : Program → State × Res
  | [] => (s, .ok)
  | st :: rest =>
    match stepImpl s st with
    | (s', .ok) => runImpl s' rest
    | (s', r) => (s', r)

/-! ### The specification side: ordered trees with named nodes -/

/-- The specification's state space: an ordered forest whose nodes carry names, the next unused
    name, and the consolidation setting.  (The same data type as the model's store; everything
    below uses it only through `FspecSpec.lean`'s notions: lookup, child lists, `editAt`.) -/
abbrev SpecForest := Forest

def holdsChildren : Value → Bool
  | .element _ | .document => true
  | _ => false

/-- Nodes that may become a child through a move: element, text, comment, PI. -/
def movable : Value → Bool
  | .element _ | .text _ | .comment _ | .pi _ _ => true
  | _ => false

/-- Does the ordered-tree reading of "move `n` to `dest`" make sense?  The receiving node exists
    and is an element or document; `n` exists, is an element / text / comment / PI, and is
    neither the receiving node nor one of its ancestors; for `after r` / `before r` moreover `r` is a
    normal node other than `n`. -/
def moveOk (dest : Dest) (n : Nat) (f : SpecForest) : Bool :=
  match dest.site f with
  | none => false
  | some q =>
    ((f.value? q).map holdsChildren == some true) &&
    !(f.ancestors q).contains n &&
    ((f.value? n).map movable == some true) &&
    (match dest with
     | .after r | .before r => r != n && ((f.value? r).map Value.isNormal == some true)
     | _ => true)

/-- Same kind of entry (attribute / namespace declaration) and same key (name / prefix). -/
def sameKey : Value → Value → Bool
  | .attribute a _, .attribute b _ => a == b
  | .namespace a _, .namespace b _ => a == b
  | _, _ => false

/-- The child list holds an entry with the key of `entry`. -/
def hasKey (entry : Value) (ks : List HTree) : Bool := ks.any (fun k => sameKey k.value entry)

/-- Existing key: the value is replaced in place (node and position kept). -/
def updEntry (entry : Value) : List HTree → List HTree
  | [] => []
  | k :: ks => if sameKey k.value entry then k.setValue entry :: ks else k :: updEntry entry ks

/-- New key: the entry node goes to the end of its block — namespace nodes come first, then
    attribute nodes, then the content. -/
def insEntry (t : HTree) (ks : List HTree) : List HTree :=
  ks.takeWhile (fun k => k.value.category.rank ≤ t.value.category.rank) ++
    t :: ks.dropWhile (fun k => k.value.category.rank ≤ t.value.category.rank)

/-- `set_attribute` / `set_namespace` on the element `e`: update in place, or one new node (named
    `f.next`) at the end of its block. -/
def specSetEntry (e : Nat) (entry : Value) (f : SpecForest) : SpecForest :=
  if hasKey entry (f.kidsOf e) then f.editAt (some e) (updEntry entry)
  else { f.editAt (some e) (insEntry (.node f.next entry [])) with next := f.next + 1 }

/-- Attach the parentless entry node `c` (subtree `t`) to the element `e`: if the key is already
    there its value is replaced and `c` stays where it is; otherwise `c` leaves the parentless
    trees and becomes the last entry of its block. -/
def specAttachEntry (e c : Nat) (t : HTree) (f : SpecForest) : SpecForest :=
  if hasKey t.value (f.kidsOf e) then f.editAt (some e) (updEntry t.value)
  else (f.editAt none (dropTop c)).editAt (some e) (insEntry t)

def isElementAt (f : SpecForest) (e : Nat) : Bool := (f.value? e).map Value.isElement == some true

/-- One call on the specification: `none` = ill-formed. -/
def Call.spec (f : SpecForest) : Call → Option (SpecForest × Option Nat)
  | .create v => some ({ f with roots := f.roots ++ [.node f.next v []], next := f.next + 1 }, some f.next)
  | .move d n => if moveOk d n f then some (specMove (Keep.resident n) d n f, none) else none
  | .anyAppend p c =>
    match f.get? c with
    | none => none
    | some t =>
      if t.value.isNormal then
        (if moveOk (.lastChildOf p) c f then some (specMove (Keep.resident c) (.lastChildOf p) c f, none) else none)
      else if isElementAt f p && f.isRoot c then some (specAttachEntry p c t f, none)
      else none
  | .setAttribute e name v =>
    if isElementAt f e then some (specSetEntry e (.attribute name v) f, none) else none
  | .setNamespace e pfx ns =>
    if isElementAt f e then some (specSetEntry e (.namespace pfx ns) f, none) else none

def stepSpec (s : State) (st : Step) : Option State :=
  match st.resolve s.env with
  | none => none
  | some c =>
    match c.spec s.forest with
    | none => none
    | some (f', o) => some { forest := f', env := extend s.env o }

/-- Run a program on the specification; `none`: some step is ill-formed. -/
def runSpec (s : State) : Program → Option State
  | [] => some s
  | st :: rest =>
    match stepSpec s st with
    | none => none
    | some s' => runSpec s' rest

/-- The index of the first step the specification rejects (`none`: the program is well-formed). -/
def firstIllFormed (s : State) : Program → Option Nat
  | [] => none
  | st :: rest =>
    match stepSpec s st with
    | none => some 0
    | some s' => (firstIllFormed s' rest).map (· + 1)

/-- The index of the first step the implementation does not answer `ok`. -/
def firstRefused (s : State) : Program → Option Nat
  | [] => none
  | st :: rest =>
    match stepImpl s st with
    | (s', .ok) => (firstRefused s' rest).map (· + 1)
    | _ => some 0

/-! ### Forest-level entry points (programs start with no node created) -/

def runImplF (f : Forest) (P : Program) : Forest × Res :=
  ((runImpl { forest := f } P).1.forest, (runImpl { forest := f } P).2)

def runSpecF (f : SpecForest) (P : Program) : Option SpecForest :=
  (runSpec { forest := f } P).map (·.forest)

/-- Calls the refinement theorem does not cover in the direction implementation ⇒ specification:
    `any_append` of an attribute / namespace node that is still attached to an element (xot then
    moves the node between the two maps; the specification only attaches parentless entry nodes). -/
def Call.inScope (f : Forest) : Call → Bool
  | .anyAppend _ c =>
    match f.value? c with
    | some v => v.isNormal || f.isRoot c
    | none => true
  | _ => true

def inScope (s : State) : Program → Bool
  | [] => true
  | st :: rest =>
    (match st.resolve s.env with
     | none => true
     | some c => c.inScope s.forest) &&
    (match stepImpl s st with
     | (s', .ok) => inScope s' rest
     | _ => true)

/-! ### Constructions of an abstract document -/

/-- `P`, run in the store `f`, is a construction of `d` whose document node is the node created by
    the `root`-th `create` step: the specification accepts every step and in its final state that
    node's subtree is `treeOf d`.  Other nodes the program created and did not use, and text pieces
    that were merged away, are of no concern. -/
def Constructs (f : SpecForest) (P : Program) (root : Nat) (d : FDocument) : Prop :=
  ∃ s', runSpec { forest := f } P = some s' ∧
    ∃ h, s'.env[root]? = some h ∧ s'.forest.treeAt h = some (treeOf d)

/-- … and nothing is left over: the final state is the store before plus exactly one new tree. -/
def ConstructsClean (f : SpecForest) (P : Program) (d : FDocument) : Prop :=
  ∃ s', runSpec { forest := f } P = some s' ∧ s'.forest.content = f.content ++ [treeOf d]

end Prog
end XotModel
