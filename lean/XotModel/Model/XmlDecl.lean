/-
  XotModel.Model.XmlDecl — output/xml.rs (`Parameters`, `Declaration::serialize`,
  `DocType::serialize`) and serialize.rs `serialize_xml_write_with_normalizer` /
  `serialize_xml_string` / `write` / `to_string`.
-/
import XotModel.Model.Pretty

namespace XotModel
open Gen

/-- `output::xml::Declaration`. -/
structure Declaration where
  encoding : Option Str := none
  standalone : Option Bool := none
  deriving Repr, DecidableEq, Inhabited

/-- `output::xml::DocType`. -/
inductive DocType where
  | pub (pubId sysId : Str)
  | sys (sysId : Str)
  deriving Repr, DecidableEq, Inhabited

/-- `output::xml::Parameters`; `indentation = some suppress`. -/
structure XmlParams where
  indentation : Option (List Nat) := none
  cdataSectionElements : List Nat := []
  declaration : Option Declaration := none
  doctype : Option DocType := none
  unescapedGt : Bool := false
  deriving Repr, DecidableEq, Inhabited

def XmlParams.tokenParams (p : XmlParams) : TokenParams := ⟨p.cdataSectionElements, p.unescapedGt⟩

/-- `Declaration::serialize`. -/
def Declaration.bytes (d : Declaration) : Str :=
  declOpen
    ++ (match d.encoding with
        | some e => declEncodingOpen ++ e ++ declEncodingClose
        | none => [])
    ++ (match d.standalone with
        | some b => declStandaloneOpen ++ (if b then declYes else declNo) ++ declStandaloneClose
        | none => [])
    ++ declClose

/-- `DocType::serialize(name, w)`. -/
def DocType.bytes (d : DocType) (name : Str) : Str :=
  doctypeOpen ++ name
    ++ (match d with
        | .pub p s => doctypePublicOpen ++ p ++ doctypePublicSep ++ s ++ doctypePublicClose
        | .sys s => doctypeSystemOpen ++ s ++ doctypeSystemClose)
    ++ doctypeClose

/-- `document_element(node)` on a document node: raw index of the first element among the
    normal children. -/
def firstElementIdx (t : Tree) : Option Nat :=
  let skipped := t.kids.length - t.normalKids.length
  (t.normalKids.findIdx? (fun k => k.value.isElement)).map (skipped + ·)

/-- The stack the doctype writer builds for the element at `path`:
    `FullnameSerializer::new(namespaces_in_scope(node))` then `push(namespace_declarations(node))`. -/
def doctypeStack (t : Tree) (path : Path) (el : Tree) : FStack :=
  (FStack.new ((namespacesInScope t path).getD [])).push el.nsDecls

/-- The `if let Some(doctype)` block: the element whose name is written (document element of a
    document, the node itself if it is an element, else `NotElement`), then its full name spelled
    as the serialiser will spell it (`element_fullname`, which may fail with `MissingPrefix`). -/
def doctypeName (env : Env) (t : Tree) (start : Path) : Outcome XotError Str :=
  match t.at? start with
  | none => .panic
  | some n =>
    let target : Outcome XotError Path :=
      match n.value with
      | .document =>
        (match firstElementIdx n with
         | some i => .ok (start ++ [i])
         | none => .err .noElementAtTopLevel)
      | .element _ => .ok start
      | _ => .err .notElement
    match target with
    | .err e => .err e
    | .panic => .panic
    | .ok path =>
      match t.at? path with
      | some el =>
        (match el.value with
         | .element name =>
           (match (doctypeStack t path el).elementFullname env name with
            | .ok full => .ok full
            | .error e => .err e)
         | _ => .panic)   -- `get_element_name`: "Node is not an element"
      | none => .panic

/-- `serialize_xml_write_with_normalizer`: bytes written and how the call ended. -/
def serializeXmlWriteWith (esc : Escapers) (env : Env) (p : XmlParams) (t : Tree) (start : Path) :
    Str × Outcome XotError Unit :=
  let w1 := match p.declaration with
    | some d => d.bytes
    | none => []
  let dt : Str × Outcome XotError Unit := match p.doctype with
    | some d =>
      (match doctypeName env t start with
       | .ok name => (d.bytes name, .ok ())
       | .err e => ([], .err e)
       | .panic => ([], .panic))
    | none => ([], .ok ())
  match dt.2 with
  | .err e => (w1 ++ dt.1, .err e)
  | .panic => (w1 ++ dt.1, .panic)
  | .ok () =>
    let body := match p.indentation with
      | some suppress => serializePrettyWriteWith esc env p.tokenParams suppress t start
      | none => serializeWriteWith esc env p.tokenParams t start
    (w1 ++ dt.1 ++ body.1, body.2)

/-- `serialize_xml_string`. -/
def serializeXmlStringWith (esc : Escapers) (env : Env) (p : XmlParams) (t : Tree) (start : Path) :
    Outcome XotError Str :=
  bufferToString (serializeXmlWriteWith esc env p t start)

/-! ### The same in front of a writer that can fail -/

/-- `Declaration::serialize`: one `w.write_all(..)?` per piece, in this order. -/
def Declaration.calls (d : Declaration) : List Str :=
  [declOpen]
    ++ (match d.encoding with
        | some e => [declEncodingOpen, e, declEncodingClose]
        | none => [])
    ++ (match d.standalone with
        | some b => [declStandaloneOpen, (if b then declYes else declNo), declStandaloneClose]
        | none => [])
    ++ [declClose]

/-- `DocType::serialize(name, w)`: one `w.write_all(..)?` per piece. -/
def DocType.calls (d : DocType) (name : Str) : List Str :=
  [doctypeOpen, name]
    ++ (match d with
        | .pub p s => [doctypePublicOpen, p, doctypePublicSep, s, doctypePublicClose]
        | .sys s => [doctypeSystemOpen, s, doctypeSystemClose])
    ++ [doctypeClose]

/-- The `if let Some(declaration) = parameters.declaration { declaration.serialize(w)?; }` calls. -/
def XmlParams.declCalls (p : XmlParams) : List Str :=
  match p.declaration with
  | some d => d.calls
  | none => []

/-- The `if let Some(doctype) = parameters.doctype { … }` block in front of a writer that accepts
    everything: the element name is computed first (`NotElement`, `NoElementAtTopLevel`,
    `MissingPrefix` are returned before the doctype writer is called), then `doctype.serialize(name, w)?`. -/
def doctypeBlockCalls (env : Env) (p : XmlParams) (t : Tree) (start : Path) :
    List Str × Outcome XotError Unit :=
  match p.doctype with
  | some d =>
    (match doctypeName env t start with
     | .ok name => (d.calls name, .ok ())
     | .err e => ([], .err e)
     | .panic => ([], .panic))
  | none => ([], .ok ())

/-- `serialize_xml_write_with_normalizer(parameters, node, w, normalizer)` for any writer: the bytes
    the writer holds when the call returns, and how it returns.  Statement order of serialize.rs:
    declaration (`?`), doctype block (its own errors first, then its writes, `?`), then
    `serializer.serialize_pretty(w, ..)?` / `serializer.serialize(w, ..)?`. -/
def serializeXmlWriteW (P : WriterPolicy) (esc : Escapers) (env : Env) (p : XmlParams) (t : Tree)
    (start : Path) : Str × Outcome XotError Unit :=
  match writeCalls P [] p.declCalls with
  | .error b => (b, .err .io)
  | .ok h1 =>
    match (doctypeBlockCalls env p t start).2 with
    | .err e => (h1.flatten, .err e)
    | .panic => (h1.flatten, .panic)
    | .ok () =>
      match writeCalls P h1 (doctypeBlockCalls env p t start).1 with
      | .error b => (b, .err .io)
      | .ok h2 =>
        match p.indentation with
        | some suppress =>
          writePrettyGoW P esc env p.tokenParams suppress t h2 ([], initStack t start) (genOutputs t start)
        | none => writeGoW P esc env p.tokenParams t h2 (initStack t start) (genOutputs t start)

/-- The `write_all` calls `serialize_xml_write_with_normalizer` makes when none is refused, in order,
    and how the call ends. -/
def serializeXmlCalls (esc : Escapers) (env : Env) (p : XmlParams) (t : Tree) (start : Path) :
    List Str × Outcome XotError Unit :=
  match (doctypeBlockCalls env p t start).2 with
  | .err e => (p.declCalls, .err e)
  | .panic => (p.declCalls, .panic)
  | .ok () =>
    let body := match p.indentation with
      | some suppress =>
        writePrettyGoCalls esc env p.tokenParams suppress t ([], initStack t start) (genOutputs t start)
      | none => writeGoCalls esc env p.tokenParams t (initStack t start) (genOutputs t start)
    (p.declCalls ++ (doctypeBlockCalls env p t start).1 ++ body.1, body.2)

abbrev serializeXmlWrite := serializeXmlWriteWith xmlEscapers
abbrev serializeXmlString := serializeXmlStringWith xmlEscapers

end XotModel
