/-
  XotModel.Model.FparseHist — ONE history type for "parse a text, edit the tree through the API"
  (C01, C04, C06).

  The two history types that existed before this file:

    * `Forest.XCall` on a `Store` (Model/FhistSpec.lean): the whole mutating API on nodes, node
      creation, `set_text_consolidation`, `remove_insignificant_whitespace`, `create_missing_prefixes`,
      `deduplicate_namespaces`, `clone_with_prefixes`; state = forest + interning tables;
    * `IdOp` on an `IdStore` (Model/FidIndex.lean): the 33 calls of `Op` and `parse` of a text GIVEN BY
      THE TREE the builder would return (`IdStore.parseInto`); state = forest + xml:id index; the text
      itself, the tokenizer, the builder and the interning tables do not occur.

  `PCall` has both: every `Forest.XCall` (constructor `api`), and `parse mode text` — the text goes
  through `parseString` (Model/ParseString.lean: reference tokenizer + builder, exactly as `Xot::_parse`
  wires them) ON THE TABLES OF THE STORE; an accepted text's tree is installed with `IdStore.parseInto`
  (a new parentless tree with fresh handles in creation order, the builder's id table becomes the index
  of the new document node) and the tables become the ones the builder left.  The state `PStore` is
  forest + interning tables + xml:id index; `PStore.store` / `PStore.idStore` are the two older states.

  A REJECTED text (parse.rs: every `?` / `return Err(..)` of `_parse` and of the two epilogues):
    * no node of the half-built tree is reachable from any handle the caller has (the nodes stay in the
      arena, invisible: the convention of `IdStore.parse`), so the forest is returned as it was,
    * `id_nodes_map.insert` is not reached, so the index is as it was,
    * but the names, prefixes and namespaces interned before the error STAY in the tables
      (`DocumentBuilder` interns into `self` as it goes; `BuildResult.err e env'` carries them):
      the tables of the store become `env'`.  (Model mirrors code: a rejected parse is atomic on
      forest and index, not on the interning tables.  Ids already handed out keep their meaning:
      interning only appends.)

  `Xot::xml_id_node` is a read (`PStore.xmlIdNode`); it changes nothing, so it is not a step.

  (Specification only: nothing here is executed by the driver.  No existing definition is changed.)
-/
import XotModel.Model.FhistSpec
import XotModel.Model.FidIndex
import XotModel.Model.ParseString
import XotModel.Model.SerTokens

namespace XotModel

/-- The store of "parse, then edit": the forest, the interning tables, the xml:id index. -/
structure PStore where
  forest : Forest := {}
  env : Env := {}
  index : List ((Nat × Str) × Nat) := []
  deriving Inhabited

namespace PStore

/-- `Xot::new()` with the interning tables `env` (the built-in registrations; the theorems hold for
    any tables). -/
def init (env : Env) : PStore := { forest := Forest.init, env := env, index := [] }

/-- The state of the extended API histories (Model/FhistSpec.lean). -/
def store (s : PStore) : Store := ⟨s.forest, s.env⟩

/-- The state of the parser histories (Model/FidIndex.lean). -/
def idStore (s : PStore) : IdStore := ⟨s.forest, s.index⟩

/-- `Xot::xml_id_node(document, value)` (access.rs): the index entry, unless the node was removed. -/
def xmlIdNode (s : PStore) (doc : Nat) (v : Str) : Option Nat := s.idStore.xmlIdNode doc v

end PStore

/-- One step of a history that parses and edits. -/
inductive PCall where
  /-- an extended API call (`Forest.XCall`: every mutating call on nodes, node creation, the
      composites) -/
  | api (c : Forest.XCall)
  /-- `Xot::parse(text)` (`Mode.document`) / `Xot::parse_fragment(text)` (`Mode.fragment`) -/
  | parse (m : Mode) (text : Str)

/-- What a step answers. -/
inductive PRes where
  /-- the outcome of an API call -/
  | api (r : Res)
  /-- `Ok(document_node)` of a parse -/
  | parsed (doc : Nat)
  /-- `Err(ParseError)` of a parse -/
  | rejected (e : ParseErr)
  /-- a panic inside the parser (`C03_string_nopanic`: does not happen) -/
  | parsePanic
  deriving Repr, DecidableEq, Inhabited

namespace PCall

/-- An extended API call as a step. -/
def ofX (c : Forest.XCall) : PCall := .api c

/-- The calls of the parser histories `IdOp` that are API calls, as steps (a `parse` of `IdOp` names
    a TREE; the step here names the TEXT: `PStore.idStore_parse_step`, Lemmas/FparseHistStep.lean, is the
    correspondence). -/
def ofOp (o : Op) : PCall := .api (.ofOp o)

/-- State reached and answer. -/
def run (s : PStore) : PCall → PStore × PRes
  | .api c => (⟨(c.run s.store).1.forest, (c.run s.store).1.env, s.index⟩, .api (c.run s.store).2)
  | .parse m text =>
    match parseString m s.env text with
    | .ok p =>
      (⟨(s.idStore.parseInto p.tree).1.forest, p.env, (s.idStore.parseInto p.tree).1.index⟩,
       .parsed (s.idStore.parseInto p.tree).2)
    | .err e env' => ({ s with env := env' }, .rejected e)
    | .panic => (s, .parsePanic)

/-- The one side condition of C04 on calls as data (`Forest.XCall.wellKinded`); a parse has none. -/
def wellKinded : PCall → Prop
  | .api c => c.wellKinded
  | .parse _ _ => True

instance decWellKinded (c : PCall) : Decidable c.wellKinded := by
  unfold wellKinded; split <;> infer_instance

/-- The node arguments (a parse has none). -/
def args : PCall → List Nat
  | .api c => c.args
  | .parse _ _ => []

/-- All node arguments are live. -/
def liveArgs (f : Forest) (c : PCall) : Prop := ∀ x ∈ c.args, f.isLive x = true

/-- The step was refused: an API call answered an error, or the text was rejected. -/
def refused : PRes → Prop
  | .api (.err _) => True
  | .rejected _ => True
  | _ => False

instance decRefused (r : PRes) : Decidable (refused r) := by
  unfold refused; split <;> infer_instance

end PCall

/-- **"The values handed to the API are in the XML domain"** (`valueOK`, Model/SerTokens.lean: names are
    NCNames, text / comment / PI / attribute values are XML characters without the forbidden sequences,
    text is not empty, an `xml:id` value is normalised, a declaration is one the parser would accept),
    for the interning tables `env` — the tables AT THE TIME OF THE CALL (`Store.argValuesOKAlong`): the
    condition on the ARGUMENTS of an extended call under which an edited tree keeps `valueOK` at every
    node (`C01_edited_values`, Props/C01.lean).  The calls not listed create no value: they move, copy or
    remove nodes, or concatenate text nodes.  `set_data(d)` keeps the target, so its condition is relative
    to the PI's own value (`Some("")` is stored as `None`); `create_missing_prefixes` generates its
    declarations itself (NCNames `n0`, `n1`, …, bound to namespaces of registered names). -/
def Forest.XCall.argValuesOK (env : Env) : Forest.XCall → Prop
  | .newNode v => valueOK env v = true
  | .call (.mapInsert _ _ e) => valueOK env e = true
  | .call (.setText _ s) => valueOK env (.text s) = true
  | .call (.setComment _ s) => valueOK env (.comment s) = true
  | .call (.setPiData _ d) =>
    ∀ t d0, valueOK env (.pi t d0) = true → valueOK env (.pi t (match d with | some [] => none | x => x)) = true
  | .call (.textContentSet _ s) => valueOK env (.text s) = true
  | .call (.elementWrap _ name) => valueOK env (.element name) = true
  | .call (.setElementName _ name) => valueOK env (.element name) = true
  | .cloneWithPrefixes _ order => ∀ b ∈ order, valueOK env (.namespace b.1 b.2) = true
  | _ => True

/-- … for every call of an extended history, each in the tables the store has when it is made. -/
def Store.argValuesOKAlong (s : Store) : List Forest.XCall → Prop
  | [] => True
  | c :: cs => c.argValuesOK s.env ∧ argValuesOKAlong (s.xstep c) cs

namespace PStore

/-- The state after a step, whatever it answered. -/
def step (s : PStore) (c : PCall) : PStore := (c.run s).1

/-- A history. -/
def run (s : PStore) (cs : List PCall) : PStore := cs.foldl step s

/-- The answers along a history, one per step. -/
def outs : PStore → List PCall → List PRes
  | _, [] => []
  | s, c :: cs => (c.run s).2 :: outs (s.step c) cs

/-- Every parse of the history runs on well-formed interning tables (`envOK`, Model/SerTokens.lean: the
    built-in values of `Xot::new` at their ids, no value twice).  True of `Xot::new()` and kept by
    every accepted parse (`C03_accepted_tables`); the only other steps that write the tables are
    rejected parses and `create_missing_prefixes` (`add_prefix`).  Needed only for the uniqueness of
    the KEYS of the xml:id index (`DuplicateId` is proved for `envOK` tables). -/
def parsesOnOKTables (s : PStore) : List PCall → Prop
  | [] => True
  | .parse m text :: cs => envOK s.env = true ∧ parsesOnOKTables (s.step (.parse m text)) cs
  | c :: cs => parsesOnOKTables (s.step c) cs

/-- No parse of the history is rejected (a condition on the texts, given the tables they meet). -/
def noRejected (s : PStore) : List PCall → Prop
  | [] => True
  | .parse m text :: cs =>
    (∃ p, parseString m s.env text = .ok p) ∧ noRejected (s.step (.parse m text)) cs
  | c :: cs => noRejected (s.step c) cs

end PStore
end XotModel
