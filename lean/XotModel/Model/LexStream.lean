/-
  XotModel.Model.LexStream — `xmlparser-0.13.6/src/stream.rs`: the `Stream` primitives the
  tokenizer is written with, as total functions.

  A `Stream` is the byte offset `pos` reached so far and the characters `rest` still ahead
  (`end` is always the end of the text: xot calls `Tokenizer::from(xml)` and
  `Tokenizer::from_fragment(xml, 0..xml.len())`).  Every primitive moves the stream forward over
  a whole number of characters: the result is `s.adv k` for some `k` (`Stream.adv`), which is
  what the progress and slice lemmas rest on.  Errors are `none`: the `StreamError` value is
  never looked at by xot (only the position of the tokenizer before the failing `next()`).

  Byte-level functions of stream.rs (`curr_byte`, `next_byte`, `skip_bytes`, `starts_with`,
  `consume_byte`) are used by the tokenizer with ASCII arguments only — an ASCII byte never
  occurs inside the UTF-8 encoding of another character — so they are modelled on characters:
  * `curr_byte() == b` (ASCII `b`)  ⇔  the next character is `b`;
  * `next_byte()` is only called when the current byte is `<`, so it is the first byte of the
    following character;
  * `skip_bytes(f)`: every `f` passed is either `c != quote` (true on every byte of a non-ASCII
    character) or an ASCII class (false on them): the same as skipping characters by `f`.
  `try_consume_reference` / `consume_reference` are not called by the tokenizer and are not
  modelled.
-/
import XotModel.Model.LexOK

namespace XotModel.Lex

/-- `xmlparser::Stream` (`span` = the whole text, `end` = its length). -/
structure Stream where
  pos : Nat
  rest : Str
  deriving Repr, DecidableEq, Inhabited

namespace Stream

/-- `Stream::from(text)`. -/
def ofStr (s : Str) : Stream := ⟨0, s⟩

/-- `at_end`. -/
def atEnd (s : Stream) : Bool := s.rest.isEmpty

/-- Move over the next `k` characters (`advance(n)` with `n` = their UTF-8 length). -/
def adv (k : Nat) (s : Stream) : Stream := ⟨s.pos + strLen (s.rest.take k), s.rest.drop k⟩

/-- `starts_with(lit)` for an ASCII literal. -/
def startsWith (s : Stream) (lit : Str) : Bool := lit.isPrefixOf s.rest

/-- `curr_byte()` (`none` = `UnexpectedEndOfStream`). -/
def curr? (s : Stream) : Option Char := s.rest.head?

/-- `next_byte()` when the current character is ASCII. -/
def next? (s : Stream) : Option Char := s.rest.tail.head?

/-- `consume_byte(c)`. -/
def consumeByte (c : Char) (s : Stream) : Option Stream :=
  if s.curr? == some c then some (s.adv 1) else none

/-- `try_consume_byte(c)`. -/
def tryConsumeByte (c : Char) (s : Stream) : Bool × Stream :=
  if s.curr? == some c then (true, s.adv 1) else (false, s)

/-- `skip_string(lit)`. -/
def skipString (lit : Str) (s : Stream) : Option Stream :=
  if s.startsWith lit then some (s.adv lit.length) else none

/-- `skip_bytes(f)`. -/
def skipBytes (f : Char → Bool) (s : Stream) : Stream := s.adv (s.rest.takeWhile f).length

/-- The loop of `skip_chars(f)`: the number of characters skipped; `none` = `NonXmlChar`.
    `f` gets the text still ahead (for `s.starts_with(..)`) and the character. The
    `is_xml_char` test comes first, also for the character at which `f` would stop. -/
def scanChars (f : Str → Char → Bool) : Str → Option Nat
  | [] => some 0
  | c :: cs =>
    if !isXmlChar c then none
    else if f (c :: cs) c then (scanChars f cs).map (· + 1)
    else some 0

/-- `skip_chars(f)`. -/
def skipChars (f : Str → Char → Bool) (s : Stream) : Option Stream :=
  (scanChars f s.rest).map (fun k => s.adv k)

/-- `cur.slice_back(start.pos())`: the text between two stream states. -/
def sliceBack (start cur : Stream) : StrSpan :=
  ⟨start.rest.take (start.rest.length - cur.rest.length), start.pos⟩

/-- `skip_spaces`. -/
def skipSpaces (s : Stream) : Stream := s.skipBytes isXmlSpace

/-- `starts_with_space`. -/
def startsWithSpace (s : Stream) : Bool :=
  match s.rest with
  | [] => false
  | c :: _ => isXmlSpace c

/-- `consume_spaces`: at least one space. -/
def consumeSpaces (s : Stream) : Option Stream :=
  if s.startsWithSpace then some s.skipSpaces else none

/-- `skip_name`. At the end of the text it succeeds without consuming anything. -/
def skipName (s : Stream) : Option Stream :=
  match s.rest with
  | [] => some s
  | c :: cs => if isNameStart c then some (s.adv (1 + (cs.takeWhile isNameChar).length)) else none

/-- `consume_name`. -/
def consumeName (s : Stream) : Option (StrSpan × Stream) :=
  match s.skipName with
  | none => none
  | some s' =>
    let name := sliceBack s s'
    if name.text.isEmpty then none else some (name, s')

/-- The `while` loop of `consume_qname` on the text ahead: `k` characters consumed so far,
    `splitter` = index of the first colon. Result: the number of characters consumed and the
    splitter; `none` = a second colon. -/
def qnameLoop : Str → Nat → Option Nat → Option (Nat × Option Nat)
  | [], k, sp => some (k, sp)
  | c :: cs, k, sp =>
    if c == ':' then
      (match sp with
       | none => qnameLoop cs (k + 1) (some k)
       | some _ => none)
    else if isNameChar c then qnameLoop cs (k + 1) sp
    else some (k, sp)

/-- `"".into()`: the empty prefix has offset 0. -/
def emptySpan : StrSpan := ⟨[], 0⟩

/-- The first character of a span is a name-start character (vacuous for the empty span). -/
def startsName (sp : StrSpan) : Bool :=
  match sp.text with
  | [] => true
  | c :: _ => isNameStart c

/-- `consume_qname`: `(prefix, local)`. -/
def consumeQName (s : Stream) : Option (StrSpan × StrSpan × Stream) :=
  match qnameLoop s.rest 0 none with
  | none => none
  | some (k, sp) =>
    let s' := s.adv k
    let (pfx, loc) := match sp with
      | some i => (sliceBack s (s.adv i), sliceBack (s.adv (i + 1)) s')
      | none => (emptySpan, sliceBack s s')
    if !startsName pfx then none
    else if loc.text.isEmpty || !startsName loc then none
    else some (pfx, loc, s')

/-- `consume_eq`. -/
def consumeEq (s : Stream) : Option Stream :=
  match s.skipSpaces.consumeByte '=' with
  | none => none
  | some s' => some s'.skipSpaces

/-- `consume_quote`. -/
def consumeQuote (s : Stream) : Option (Char × Stream) :=
  match s.curr? with
  | none => none
  | some c => if c == '\'' || c == '"' then some (c, s.adv 1) else none

end Stream

/-- `XmlByteExt::is_xml_digit`. -/
def isXmlDigit (c : Char) : Bool := 48 ≤ c.toNat && c.toNat ≤ 57

/-- `XmlByteExt::is_xml_letter`. -/
def isXmlLetter (c : Char) : Bool :=
  (65 ≤ c.toNat && c.toNat ≤ 90) || (97 ≤ c.toNat && c.toNat ≤ 122)

end XotModel.Lex
