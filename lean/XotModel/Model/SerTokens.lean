/-
  XotModel.Model.SerTokens — specification side of the serialiser half of the tree-level round
  trip (C01): NOT a model of Rust code.

  * `serTokens` : the parser-token list (`Model/ParseTypes.Token`, positions all 0) a tree
    stands for when written the way `XmlSerializer` writes it — by structural recursion on the
    tree, threading the `FullnameSerializer` stack (`push` at the start tag, the same stack for
    the whole content).  `Lemmas/SerTokens*.lean` prove that `to_string` IS `renderTokens` of it.
  * `Representable` : the decidable domain of C01 — what XML 1.0 + Namespaces can express and
    the serialiser writes without loss.
  The character classes are the ones of `Model/LexOK.lean` (xmlparser's `xmlchar.rs`).
-/
import XotModel.Model.Output
import XotModel.Model.Valid
import XotModel.Model.LexOK

namespace XotModel

/-! ### The token list of a tree -/

/-- A span at position 0. -/
def sp0 (s : Str) : StrSpan := ⟨s, 0⟩

/-- The whole-token span (never read by xot). -/
def noSpan : StrSpan := ⟨[], 0⟩

def xmlnsName : Str := ['x', 'm', 'l', 'n', 's']

/-- The prefix text of a tag / attribute token: empty for an unprefixed name. -/
def prefixText (env : Env) : Option Nat → Str
  | none => []
  | some p => env.prefixStr p

/-- The token of one `Output::Prefix` event: nothing for a binding of the XML namespace
    (never written), `xmlns="…"` for the empty prefix, `xmlns:p="…"` otherwise. -/
def declTokens (env : Env) (d : Nat × Nat) : List Token :=
  if d.2 == Env.xmlNamespace then []
  else if d.1 == Env.emptyPrefix then
    [.attribute (sp0 []) (sp0 xmlnsName) (sp0 (serializeAttribute (env.namespaceStr d.2))) noSpan]
  else
    [.attribute (sp0 xmlnsName) (sp0 (env.prefixStr d.1))
      (sp0 (serializeAttribute (env.namespaceStr d.2))) noSpan]

/-- The tokens of the `Output::Attribute` events of one element; fails at the first attribute
    whose namespace has no usable prefix in scope. -/
def attrTokens (env : Env) (s : FStack) : List (Nat × Str) → Except XotError (List Token)
  | [] => .ok []
  | (name, v) :: rest =>
    match s.attributePrefix env name with
    | .error e => .error e
    | .ok p =>
      match attrTokens env s rest with
      | .error e => .error e
      | .ok ts =>
        .ok (.attribute (sp0 (prefixText env p)) (sp0 (env.localName name)) (sp0 (serializeAttribute v))
          noSpan :: ts)

/-- `a ++ b` of two results, the first failure wins. -/
def appendOk (a b : Except XotError (List Token)) : Except XotError (List Token) :=
  match a with
  | .error e => .error e
  | .ok x =>
    match b with
    | .error e => .error e
    | .ok y => .ok (x ++ y)

/-- Start tag, declarations, attributes, `>` or `/>`, content, end tag of one element whose
    prefix has been chosen. `empty` = the element has no normal child. -/
def elementTokens (pfx loc : Str) (decls attrs : List Token) (empty : Bool) (content : List Token) :
    List Token :=
  [Token.elementStart (sp0 pfx) (sp0 loc) noSpan] ++ decls ++ attrs ++
    (if empty then Token.elementEnd .empty noSpan :: content
     else Token.elementEnd .open noSpan :: (content ++ [Token.elementEnd (.close (sp0 pfx) (sp0 loc)) noSpan]))

/-- The tokens of the subtree `n`, in the order `gen_outputs` visits it (every raw child; an
    attribute / namespace node contributes only what lies below it: nothing in a sound tree).
    `inScope`, `isTop` as in `genNode`: the start node, if an element, also writes the in-scope
    declarations it does not declare itself; `ugt` = `unescaped_gt`.
    Fails where `render_output` fails: `MissingPrefix`, `NamespaceInProcessingInstruction`. -/
def serNode (env : Env) (ugt : Bool) (inScope : List (Nat × Nat)) (isTop : Bool) (s : FStack) :
    Tree → Except XotError (List Token)
  | .node v ks =>
    match v with
    | .element name =>
      let n := Tree.node (.element name) ks
      let s' := s.push n.nsDecls
      if env.nsOfName name == Env.noNamespace && s'.hasDefaultNamespace then
        .error (.missingPrefix Env.noNamespace)
      else match s'.elementPrefix env name with
        | .error e => .error e
        | .ok p =>
          match attrTokens env s' n.attrs with
          | .error e => .error e
          | .ok ats =>
            match serKids env ugt inScope s' ks with
            | .error e => .error e
            | .ok content =>
              .ok (elementTokens (prefixText env p) (env.localName name)
                (((if isTop then inScope.filter (fun d => !n.declaresPrefix d.1) else []) ++ n.nsDecls).flatMap
                  (declTokens env))
                ats n.firstChild?.isNone content)
    | .text str => appendOk (.ok [.text (sp0 (serializeText ugt str))]) (serKids env ugt inScope s ks)
    | .comment str => appendOk (.ok [.comment (sp0 str) noSpan]) (serKids env ugt inScope s ks)
    | .pi target data =>
      if !(env.namespaceStr (env.nsOfName target)).isEmpty then .error .namespaceInProcessingInstruction
      else appendOk (.ok [.pi (sp0 (env.localName target)) (data.map sp0) noSpan])
        (serKids env ugt inScope s ks)
    | _ => serKids env ugt inScope s ks
where
  serKids (env : Env) (ugt : Bool) (inScope : List (Nat × Nat)) (s : FStack) :
      List Tree → Except XotError (List Token)
    | [] => .ok []
    | k :: ks => appendOk (serNode env ugt inScope false s k) (serKids env ugt inScope s ks)

/-- The tokens of the node at `start` in `t` (`XmlSerializer::new` starts the stack with
    `namespaces_in_scope(start)`). -/
def serTokensAt (env : Env) (ugt : Bool) (t : Tree) (start : Path) : Except XotError (List Token) :=
  match t.at? start, namespacesInScope t start with
  | some n, some inScope => serNode env ugt inScope true (FStack.new inScope) n
  | _, _ => .ok []

/-- The tokens of a whole tree under the default parameters (`Xot::to_string(root)`). -/
def serTokensTop (env : Env) (t : Tree) : Except XotError (List Token) := serTokensAt env false t []

/-! ### The round-trip domain -/

/-- Is the name id the attribute name `xml:id` (by expanded name)? -/
def isXmlIdName (env : Env) (name : Nat) : Bool :=
  env.nsOfName name == Env.xmlNamespace && env.localName name == ['i', 'd']

/-- A non-empty NCName as `consume_qname` reads it. -/
def ncNameNE (s : Str) : Bool := ncNameOK s && !s.isEmpty

/-- The interning tables hold the built-in values of `Xot::new` at their ids and no value twice. -/
def envOK (env : Env) : Bool :=
  env.namespaceStr Env.noNamespace == [] && env.namespaceStr Env.xmlNamespace == xmlNamespaceUri &&
  env.prefixStr Env.emptyPrefix == [] && env.prefixStr Env.xmlPrefix == ['x', 'm', 'l'] &&
  env.names.getD Env.xmlIdName ([], 0) == (['i', 'd'], Env.xmlNamespace) &&
  decide env.namespaces.Nodup && decide env.prefixes.Nodup && decide env.names.Nodup

/-- What a node's own value must satisfy. -/
def valueOK (env : Env) : Value → Bool
  | .document => true
  | .element name => ncNameNE (env.localName name)
  | .text s => !s.isEmpty && s.all isXmlChar
  -- a raw CR in a comment / PI is written as it is and read back as LF (line-end normalisation)
  | .comment s => s.all isXmlChar && !hasInfix ['-', '-'] s && s.getLast? != some '-' && !s.contains '\r'
  | .pi target data =>
    env.nsOfName target == Env.noNamespace && ncNameNE (env.localName target) &&
    (env.localName target).map asciiLowerChar != ['x', 'm', 'l'] &&
    (match data with
     | none => true
     | some d => !d.isEmpty && !(d.head?.any isXmlSpace) && d.all isXmlChar && !hasInfix ['?', '>'] d &&
        !d.contains '\r')
  | .attribute name v =>
    ncNameNE (env.localName name) && v.all isXmlChar &&
    !(env.nsOfName name == Env.noNamespace && env.localName name == xmlnsName) &&
    -- the parser ID-normalises the value of `xml:id`
    (!isXmlIdName env name || normalizeXmlId v == v)
  | .namespace p ns =>
    -- the reserved `xml` binding is never written: it cannot be a node; `xmlns:p=""` is not XML 1.0;
    -- nothing can be bound to the xmlns namespace name (all rejected by the parser)
    p != Env.xmlPrefix && ns != Env.xmlNamespace && env.namespaceStr ns != xmlnsNamespaceUri &&
    (p == Env.emptyPrefix ||
      (ncNameNE (env.prefixStr p) && env.prefixStr p != xmlnsName && ns != Env.noNamespace)) &&
    (ns == Env.noNamespace || !(env.namespaceStr ns).isEmpty) && (env.namespaceStr ns).all isXmlChar

instance (ks : List Tree) : Decidable (OrderedKids ks) := by unfold OrderedKids; infer_instance
instance (ks : List Tree) : Decidable (UniqueKids ks) := by unfold UniqueKids; infer_instance
instance (v : Value) (ks : List Tree) : Decidable (KindsOk v ks) := by unfold KindsOk; infer_instance

/-- What a node must satisfy: the structural invariants of `Model/Valid.lean`, no two adjacent
    text children, and `valueOK`. -/
def nodeOK (env : Env) (v : Value) (ks : List Tree) : Bool :=
  decide (OrderedKids ks) && decide (KindsOk v ks) && decide (UniqueKids ks) && noAdjText ks &&
  valueOK env v

/-- `p value children` at every node. -/
def Tree.allNodes (p : Value → List Tree → Bool) : Tree → Bool
  | .node v ks => p v ks && allList p ks
where
  allList (p : Value → List Tree → Bool) : List Tree → Bool
    | [] => true
    | k :: ks => Tree.allNodes p k && allList p ks

/-- The values of the `xml:id` attributes, in document order (the parser rejects a repeated one). -/
def xmlIdValues (env : Env) : Tree → List Str
  | .node v ks =>
    (match v with
     | .attribute name val => if isXmlIdName env name then [val] else []
     | _ => []) ++ idsList env ks
where
  idsList (env : Env) : List Tree → List Str
    | [] => []
    | k :: ks => xmlIdValues env k ++ idsList env ks

/-- Document mode: exactly one element and no text among the top-level nodes. -/
def singleRoot (t : Tree) : Bool :=
  (t.kids.filter (fun k => k.value.isElement)).length == 1 && t.kids.all (fun k => !k.value.isText)

/-- The C01 domain for `parse_fragment`: a document node over any well-formed content. -/
def RepresentableFragment (env : Env) (t : Tree) : Bool :=
  envOK env && t.value.isDocument && t.allNodes (nodeOK env) && decide (xmlIdValues env t).Nodup

/-- The C01 domain for `parse`: moreover exactly one top-level element and no top-level text. -/
def Representable (env : Env) (t : Tree) : Bool := RepresentableFragment env t && singleRoot t

end XotModel
