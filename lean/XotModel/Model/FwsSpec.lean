/-
  XotModel.Model.FwsSpec — SPECIFICATION of C18 (whitespace stripping) on static trees.

  Nothing here mirrors /repo/src/unpretty.rs: this file says what the property demands.
  `specStrip` deletes exactly the text nodes that
    (a) consist only of XML whitespace (space, tab, CR, LF),
    (b) have no sibling text node with other content,
    (c) are not within the scope of xml:space="preserve": the innermost xml:space attribute
        on an ancestor element decides (name id 0 = xml:space).
  `Occurs f t anc` names a position in a forest: the subtree `t` with its chain of proper
  ancestors (`anc`, nearest first); `pruneText S` deletes the text nodes whose handle is in `S`
  (the shape of every intermediate state of the collect-then-remove loop).
-/
import XotModel.Model.ForestInv

namespace XotModel
namespace Fws

/-- XML whitespace (https://www.w3.org/TR/xml/#NT-S). -/
def wsChars : List Char := [' ', '\t', '\r', '\n']

/-- (a): only XML whitespace. -/
def allWs (s : Str) : Bool := s.all (fun c => wsChars.contains c)

/-- The keyword of `xml:space` that switches stripping off. -/
def preserve : Str := ['p','r','e','s','e','r','v','e']

/-- A text node consisting only of XML whitespace. -/
def isWsOnlyText (t : HTree) : Bool :=
  match t.value with
  | .text s => allWs s
  | _ => false

/-- A text node with other content. -/
def isOtherText (t : HTree) : Bool :=
  match t.value with
  | .text s => !allWs s
  | _ => false

/-- The value of the `xml:space` attribute (name id 0) of a node, if it carries one. -/
def spaceAttr (t : HTree) : Option Str :=
  t.kids.findSome? fun k =>
    match k.value with
    | .attribute n v => if n == 0 then some v else none
    | _ => none

/-- Scope inside `t`, given the scope outside: `t`'s own `xml:space` decides if present. -/
def scope (outer : Bool) (t : HTree) : Bool :=
  match spaceAttr t with
  | some v => v == preserve
  | none => outer

/-- Scope established by a chain of ancestors (nearest first): the innermost attribute decides. -/
def chainScope : List HTree → Bool
  | [] => false
  | a :: rest => scope (chainScope rest) a

/-- The rule of the property for one child, given (c) `inPreserve` and (b) `otherSibling`. -/
def deletable (inPreserve otherSibling : Bool) (k : HTree) : Bool :=
  isWsOnlyText k && !otherSibling && !inPreserve

mutual
  /-- Strip below a node; `outer` is the scope the node sits in. The node itself stays. -/
  def specStrip (outer : Bool) : HTree → HTree
    | .node h v ks =>
      .node h v (specStripKids (scope outer (.node h v ks)) (ks.any isOtherText) ks)
  def specStripKids (p sig : Bool) : List HTree → List HTree
    | [] => []
    | k :: ks =>
      if deletable p sig k then specStripKids p sig ks
      else specStrip p k :: specStripKids p sig ks
end

mutual
  /-- Handles the specification deletes strictly below a node, in document order. -/
  def specRemoved (outer : Bool) : HTree → List Nat
    | .node h v ks => specRemovedKids (scope outer (.node h v ks)) (ks.any isOtherText) ks
  def specRemovedKids (p sig : Bool) : List HTree → List Nat
    | [] => []
    | k :: ks =>
      (if deletable p sig k then [k.handle] else specRemoved p k) ++ specRemovedKids p sig ks
end

/-- Does the start node have a sibling text node with other content? (`anc` = its ancestors) -/
def otherSibling : List HTree → Bool
  | [] => false
  | p :: _ => p.kids.any isOtherText

/-- Is the start node itself deleted? -/
def topDeleted (anc : List HTree) (t : HTree) : Bool :=
  deletable (chainScope anc) (otherSibling anc) t

/-- What the call must leave of the subtree `t` (`none`: the start node itself is deleted). -/
def specTop (anc : List HTree) (t : HTree) : Option HTree :=
  if topDeleted anc t then none else some (specStrip (chainScope anc) t)

/-- The handles the call must delete. -/
def specTopRemoved (anc : List HTree) (t : HTree) : List Nat :=
  if topDeleted anc t then [t.handle] else specRemoved (chainScope anc) t

/-- Position in a forest: `t` is a root (`anc = []`) or a child of `anc.head`, and so on up. -/
inductive Occurs (f : Forest) : HTree → List HTree → Prop where
  | root {r : HTree} : r ∈ f.roots → Occurs f r []
  | kid {p k : HTree} {anc : List HTree} : Occurs f p anc → k ∈ p.kids → Occurs f k (p :: anc)

mutual
  /-- Delete the text nodes whose handle satisfies `S` (with whatever hangs below them). -/
  def pruneText (S : Nat → Bool) : HTree → HTree
    | .node h v ks => .node h v (pruneTextKids S ks)
  def pruneTextKids (S : Nat → Bool) : List HTree → List HTree
    | [] => []
    | k :: ks =>
      if k.value.isText && S k.handle then pruneTextKids S ks
      else pruneText S k :: pruneTextKids S ks
end

/-- The forest with the text nodes in `S` deleted; nothing else changes. -/
def pruned (f : Forest) (S : Nat → Bool) : Forest := { f with roots := pruneTextKids S f.roots }

/-! ### closed examples used by `Props/C18` -/

/-- `<a xml:space="default">·<b xml:space="preserve">·</b>x<c>·<d/>\n</c></a>` (· = space). -/
def exampleForest : Forest :=
  { roots := [.node 0 (.element 2) [
      .node 1 (.attribute 0 ['d','e','f','a','u','l','t']) [],
      .node 2 (.text [' ']) [],
      .node 3 (.element 3) [.node 4 (.attribute 0 ['p','r','e','s','e','r','v','e']) [], .node 5 (.text [' ']) []],
      .node 6 (.text ['x']) [],
      .node 7 (.element 4) [.node 8 (.text [' ']) [], .node 9 (.element 5) [], .node 10 (.text ['\n']) []]]],
    next := 11 }

/-- Three adjacent whitespace-only text nodes (built while consolidation was off, consolidation
    on again): the case repaired by /repo 1e1d5fd (the neighbours of the middle node used to be merged). -/
def adjacentWitness : Forest :=
  { roots := [.node 0 (.element 2) [.node 1 (.text [' ']) [], .node 2 (.text ['\n']) [], .node 3 (.text ['\t']) []]],
    next := 4, everOff := true }

end Fws
end XotModel
