/-
  XotModel.Model.Valid — structural validity of a value tree (the invariants `access.rs` /
  `nodemap/` rely on), stated on `Tree`:

  * `OrderedKids`   : namespace nodes, then attribute nodes, then normal nodes
  * `KindsOk`       : text / comment / PI / attribute / namespace nodes are leaves; attribute and
                      namespace nodes occur only under elements; a document node is never a child
  * `UniqueKids`    : attribute names and declared prefixes are unique per element
  * `StructValid t` : the root is a document node and every node satisfies the three above
  * `NoAdjacentText`: no two neighbouring text nodes anywhere
-/
import XotModel.Model.Tree

namespace XotModel

/-- 0 = namespace node, 1 = attribute node, 2 = normal node. -/
def Value.phase : Value → Nat
  | .namespace _ _ => 0
  | .attribute _ _ => 1
  | _ => 2

/-- Values whose node never has children. -/
def Value.isLeafKind : Value → Bool
  | .document => false
  | .element _ => false
  | _ => true

def OrderedKids (ks : List Tree) : Prop := ks.Pairwise (fun a b => a.value.phase ≤ b.value.phase)

def noAdjText : List Tree → Bool
  | a :: b :: rest => !(a.value.isText && b.value.isText) && noAdjText (b :: rest)
  | _ => true

def attrNames (ks : List Tree) : List Nat :=
  ks.filterMap fun k => match k.value with
    | .attribute n _ => some n
    | _ => none

def nsPrefixes (ks : List Tree) : List Nat :=
  ks.filterMap fun k => match k.value with
    | .namespace p _ => some p
    | _ => none

def KindsOk (v : Value) (ks : List Tree) : Prop :=
  (v.isLeafKind = true → ks = []) ∧
  (v.isElement = false → ∀ k ∈ ks, k.value.isNormal = true) ∧
  (∀ k ∈ ks, k.value.isDocument = false)

def UniqueKids (ks : List Tree) : Prop := (attrNames ks).Nodup ∧ (nsPrefixes ks).Nodup

/-- `p value children` holds at every node of the tree. -/
def Tree.Forall (p : Value → List Tree → Prop) : Tree → Prop
  | .node v ks => p v ks ∧ forallList ks
where
  forallList : List Tree → Prop
    | [] => True
    | k :: ks => Tree.Forall p k ∧ forallList ks

theorem Tree.forallList_iff (p : Value → List Tree → Prop) (ks : List Tree) :
    Tree.Forall.forallList p ks ↔ ∀ k ∈ ks, k.Forall p := by
  induction ks with
  | nil => simp [Tree.Forall.forallList]
  | cons k ks ih => simp [Tree.Forall.forallList, ih]

theorem Tree.forall_node (p : Value → List Tree → Prop) (v : Value) (ks : List Tree) :
    (Tree.node v ks).Forall p ↔ p v ks ∧ ∀ k ∈ ks, k.Forall p := by
  rw [Tree.Forall, Tree.forallList_iff]

def StructValid (t : Tree) : Prop :=
  t.value.isDocument = true ∧
  t.Forall (fun _ ks => OrderedKids ks) ∧ t.Forall KindsOk ∧ t.Forall (fun _ ks => UniqueKids ks)

def NoAdjacentText (t : Tree) : Prop := t.Forall (fun _ ks => noAdjText ks = true)

end XotModel
