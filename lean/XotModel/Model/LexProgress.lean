/-
  XotModel.Model.LexProgress — every stream primitive and every token parser moves the stream
  FORWARD over whole characters (`Reach s s'`: `s' = s.adv k`), and a parser that returns a
  token has consumed at least one character.  This is what makes the tokenizer loop
  (Model/Lex.lean) terminate, hence the file sits next to the model; the slice theorem
  (Lemmas/LexSlice*.lean) reuses `Reach`.
-/
import XotModel.Model.LexParse

namespace XotModel.Lex

open XotModel.Lex.Stream

theorem strLen_app (a b : Str) : strLen (a ++ b) = strLen a + strLen b := by
  induction a with
  | nil => simp [strLen]
  | cons c cs ih => simp [strLen, ih]; omega

namespace Stream

@[simp] theorem adv_zero (s : Stream) : s.adv 0 = s := by
  cases s; simp [adv, strLen]

theorem adv_adv (s : Stream) (i j : Nat) : (s.adv i).adv j = s.adv (i + j) := by
  cases s with
  | mk pos rest =>
    simp only [adv, List.take_add, strLen_app, List.drop_drop, Stream.mk.injEq, and_true]
    omega

@[simp] theorem adv_rest (s : Stream) (k : Nat) : (s.adv k).rest = s.rest.drop k := rfl

theorem adv_len (s : Stream) (k : Nat) : (s.adv k).rest.length = s.rest.length - k := by
  simp [adv]

/-- `s'` lies `k` characters further along the same text. -/
def Reach (s s' : Stream) : Prop := ∃ k, s' = s.adv k

theorem Reach.refl (s : Stream) : Reach s s := ⟨0, by simp⟩

theorem Reach.adv (s : Stream) (k : Nat) : Reach s (s.adv k) := ⟨k, rfl⟩

theorem Reach.trans {a b c : Stream} (h1 : Reach a b) (h2 : Reach b c) : Reach a c := by
  obtain ⟨i, rfl⟩ := h1
  obtain ⟨j, rfl⟩ := h2
  exact ⟨i + j, adv_adv a i j⟩

theorem Reach.len_le {a b : Stream} (h : Reach a b) : b.rest.length ≤ a.rest.length := by
  obtain ⟨k, rfl⟩ := h
  simp

/-- Moving over `n > 0` characters of a non-empty stream, then anywhere further, shortens it. -/
theorem Reach.len_lt {a b : Stream} {n : Nat} (h : Reach (a.adv n) b) (hn : 0 < n)
    (ha : a.atEnd = false) : b.rest.length < a.rest.length := by
  have h1 := h.len_le
  rw [adv_len] at h1
  have : a.rest.length ≠ 0 := by
    cases a with
    | mk p r => cases r <;> simp_all [atEnd]
  omega

/-! ### Primitives -/

theorem consumeByte_eq {c : Char} {s s' : Stream} (h : s.consumeByte c = some s') : s' = s.adv 1 := by
  unfold consumeByte at h
  split at h <;> simp_all

theorem consumeByte_reach {c : Char} {s s' : Stream} (h : s.consumeByte c = some s') : Reach s s' :=
  ⟨1, consumeByte_eq h⟩

theorem tryConsumeByte_reach (c : Char) (s : Stream) : Reach s (s.tryConsumeByte c).2 := by
  unfold tryConsumeByte
  split
  · exact Reach.adv s 1
  · exact Reach.refl s

theorem skipString_eq {lit : Str} {s s' : Stream} (h : s.skipString lit = some s') :
    s' = s.adv lit.length := by
  unfold skipString at h
  split at h <;> simp_all

theorem skipString_reach {lit : Str} {s s' : Stream} (h : s.skipString lit = some s') : Reach s s' :=
  ⟨_, skipString_eq h⟩

theorem skipBytes_reach (f : Char → Bool) (s : Stream) : Reach s (s.skipBytes f) := ⟨_, rfl⟩

theorem skipSpaces_reach (s : Stream) : Reach s s.skipSpaces := ⟨_, rfl⟩

theorem skipChars_reach {f : Str → Char → Bool} {s s' : Stream} (h : s.skipChars f = some s') :
    Reach s s' := by
  unfold skipChars at h
  cases hk : scanChars f s.rest with
  | none => simp [hk] at h
  | some k => simp [hk] at h; exact ⟨k, h.symm⟩

theorem consumeSpaces_reach {s s' : Stream} (h : s.consumeSpaces = some s') : Reach s s' := by
  unfold consumeSpaces at h
  split at h
  · simp at h; subst h; exact skipSpaces_reach s
  · simp at h

theorem skipName_reach {s s' : Stream} (h : s.skipName = some s') : Reach s s' := by
  unfold skipName at h
  split at h
  · simp at h; subst h; exact Reach.refl s
  · split at h
    · simp at h; subst h; exact Reach.adv s _
    · simp at h

theorem consumeName_reach {s s' : Stream} {n : StrSpan} (h : s.consumeName = some (n, s')) :
    Reach s s' := by
  unfold consumeName at h
  split at h
  · simp at h
  · next s1 h1 =>
    dsimp only at h
    split at h
    · simp at h
    · simp at h; obtain ⟨_, rfl⟩ := h; exact skipName_reach h1

theorem consumeQName_eq {s s' : Stream} {p l : StrSpan} (h : s.consumeQName = some (p, l, s')) :
    ∃ k sp, qnameLoop s.rest 0 none = some (k, sp) ∧ s' = s.adv k := by
  unfold consumeQName at h
  split at h
  · simp at h
  · next k sp hk =>
    refine ⟨k, sp, hk, ?_⟩
    cases sp <;> simp at h <;> simp_all

theorem consumeQName_reach {s s' : Stream} {p l : StrSpan} (h : s.consumeQName = some (p, l, s')) :
    Reach s s' := by
  obtain ⟨k, _, _, rfl⟩ := consumeQName_eq h
  exact Reach.adv s k

theorem consumeEq_reach {s s' : Stream} (h : s.consumeEq = some s') : Reach s s' := by
  unfold consumeEq at h
  split at h
  · simp at h
  · next s1 h1 =>
    simp at h; subst h
    exact ((skipSpaces_reach s).trans (consumeByte_reach h1)).trans (skipSpaces_reach s1)

theorem consumeQuote_eq {s s' : Stream} {q : Char} (h : s.consumeQuote = some (q, s')) :
    s' = s.adv 1 := by
  unfold consumeQuote at h
  split at h
  · simp at h
  · split at h <;> simp at h
    exact h.2.symm

theorem consumeQuote_reach {s s' : Stream} {q : Char} (h : s.consumeQuote = some (q, s')) :
    Reach s s' := ⟨1, consumeQuote_eq h⟩

end Stream

open XotModel.Lex.Stream

/-! ### Token parsers: the stream after the token is reachable from the stream after the
    fixed opening (`<!--`, `<?`, …) -/

theorem declSpaces_reach {s s' : Stream} (h : declSpaces s = some s') : Reach s s' := by
  unfold declSpaces at h
  split at h
  · simp at h; subst h; exact skipSpaces_reach s
  · split at h <;> simp at h
    subst h; exact Reach.refl s

theorem parseVersionInfo_reach {s s' : Stream} {v : StrSpan}
    (h : parseVersionInfo s = some (v, s')) : Reach s s' := by
  simp only [parseVersionInfo, Option.bind_eq_bind, Option.bind_eq_some_iff, Option.some.injEq,
    Prod.mk.injEq] at h
  obtain ⟨s1, h1, s2, h2, ⟨q, s3⟩, h3, s4, h4, s6, h6, -, rfl⟩ := h
  exact (((((skipSpaces_reach s).trans (skipString_reach h1)).trans (consumeEq_reach h2)).trans
    (consumeQuote_reach h3)).trans (skipString_reach h4)).trans
    ((skipBytes_reach _ _).trans (consumeByte_reach h6))

theorem parseEncodingDecl_reach {s s' : Stream} {e : Option StrSpan}
    (h : parseEncodingDecl s = some (e, s')) : Reach s s' := by
  unfold parseEncodingDecl at h
  split at h
  · simp at h; obtain ⟨_, rfl⟩ := h; exact Reach.refl s
  · simp only [Option.bind_eq_bind, Option.bind_eq_some_iff, Option.some.injEq,
      Prod.mk.injEq] at h
    obtain ⟨s2, h2, ⟨q, s3⟩, h3, s5, h5, -, rfl⟩ := h
    exact (((Reach.adv s 8).trans (consumeEq_reach h2)).trans (consumeQuote_reach h3)).trans
      ((skipBytes_reach _ _).trans (consumeByte_reach h5))

theorem parseStandalone_reach {s s' : Stream} {e : Option Bool}
    (h : parseStandalone s = some (e, s')) : Reach s s' := by
  unfold parseStandalone at h
  split at h
  · simp at h; obtain ⟨_, rfl⟩ := h; exact Reach.refl s
  · simp only [Option.bind_eq_bind, Option.bind_eq_some_iff, Option.some.injEq,
      Prod.mk.injEq] at h
    obtain ⟨s2, h2, ⟨q, s3⟩, h3, ⟨v, s4⟩, h4, fl, -, s5, h5, -, rfl⟩ := h
    exact ((((Reach.adv s 10).trans (consumeEq_reach h2)).trans (consumeQuote_reach h3)).trans
      (consumeName_reach h4)).trans (consumeByte_reach h5)

theorem parseDeclaration_reach {s s' : Stream} {t : Token}
    (h : parseDeclaration s = some (t, s')) : Reach (s.adv 6) s' := by
  simp only [parseDeclaration, Option.bind_eq_bind, Option.bind_eq_some_iff, Option.some.injEq,
    Prod.mk.injEq] at h
  obtain ⟨⟨v, s2⟩, h2, s3, h3, ⟨e, s4⟩, h4, s5, h5, ⟨sa, s6⟩, h6, s7, h7, -, rfl⟩ := h
  have h5' : Reach s4 s5 := by
    dsimp only at h5
    split at h5
    · exact declSpaces_reach h5
    · simp at h5; subst h5; exact Reach.refl _
  exact ((((parseVersionInfo_reach h2).trans (declSpaces_reach h3)).trans
    (parseEncodingDecl_reach h4)).trans h5').trans ((parseStandalone_reach h6).trans
    ((skipSpaces_reach _).trans (skipString_reach h7)))

theorem parseComment_reach {s s' : Stream} {t : Token}
    (h : parseComment s = some (t, s')) : Reach (s.adv 4) s' := by
  simp only [parseComment, Option.bind_eq_bind, Option.bind_eq_some_iff] at h
  obtain ⟨s2, h2, s3, h3, h⟩ := h
  split at h
  · simp at h
  · split at h
    · simp at h
    · simp at h; obtain ⟨_, rfl⟩ := h
      exact (skipChars_reach h2).trans (skipString_reach h3)

theorem parsePI_reach {s s' : Stream} {t : Token}
    (h : parsePI s = some (t, s')) : Reach (s.adv 2) s' := by
  simp only [parsePI, Option.bind_eq_bind, Option.bind_eq_some_iff, Option.some.injEq,
    Prod.mk.injEq] at h
  obtain ⟨⟨tg, s2⟩, h2, s4, h4, s5, h5, -, rfl⟩ := h
  exact (((consumeName_reach h2).trans (skipSpaces_reach _)).trans (skipChars_reach h4)).trans
    (skipString_reach h5)

theorem parseCdata_reach {s s' : Stream} {t : Token}
    (h : parseCdata s = some (t, s')) : Reach (s.adv 9) s' := by
  simp only [parseCdata, Option.bind_eq_bind, Option.bind_eq_some_iff, Option.some.injEq,
    Prod.mk.injEq] at h
  obtain ⟨s2, h2, s3, h3, -, rfl⟩ := h
  exact (skipChars_reach h2).trans (skipString_reach h3)

theorem parseText_reach {s s' : Stream} {t : Token}
    (h : parseText s = some (t, s')) : Reach s s' := by
  simp only [parseText, Option.bind_eq_bind, Option.bind_eq_some_iff] at h
  obtain ⟨s1, h1, h⟩ := h
  split at h
  · simp at h
  · simp at h; obtain ⟨_, rfl⟩ := h; exact skipChars_reach h1

theorem parseExternalId_reach {s s' : Stream} {b : Bool}
    (h : parseExternalId s = some (b, s')) : Reach s s' := by
  unfold parseExternalId at h
  split at h
  · simp only [Option.bind_eq_bind, Option.bind_eq_some_iff] at h
    obtain ⟨s2, h2, ⟨q, s3⟩, h3, s5, h5, h⟩ := h
    have r5 : Reach s s5 :=
      (((Reach.adv s 6).trans (consumeSpaces_reach h2)).trans (consumeQuote_reach h3)).trans
        ((skipBytes_reach _ _).trans (consumeByte_reach h5))
    split at h
    · simp at h; obtain ⟨_, rfl⟩ := h; exact r5
    · simp only [Option.bind_eq_some_iff, Option.some.injEq,
        Prod.mk.injEq] at h
      obtain ⟨s6, h6, ⟨q2, s7⟩, h7, s9, h9, -, rfl⟩ := h
      exact ((r5.trans (consumeSpaces_reach h6)).trans (consumeQuote_reach h7)).trans
        ((skipBytes_reach _ _).trans (consumeByte_reach h9))
  · simp at h; obtain ⟨_, rfl⟩ := h; exact Reach.refl s

theorem parseDoctype_reach {s s' : Stream} {t : Token}
    (h : parseDoctype s = some (t, s')) : Reach (s.adv 9) s' := by
  simp only [parseDoctype, Option.bind_eq_bind, Option.bind_eq_some_iff] at h
  obtain ⟨s2, h2, ⟨n, s3⟩, h3, ⟨b, s4⟩, h4, c, -, h⟩ := h
  have r : Reach (s.adv 9) (s4.skipSpaces.adv 1) :=
    (((consumeSpaces_reach h2).trans (consumeName_reach h3)).trans
      ((skipSpaces_reach _).trans (parseExternalId_reach h4))).trans
      ((skipSpaces_reach _).trans (Reach.adv _ 1))
  split at h
  · simp at h
  · split at h <;> (simp at h; obtain ⟨_, rfl⟩ := h; exact r)

theorem parseEntityDef_reach {s s' : Stream} {g : Bool}
    (h : parseEntityDef s g = some s') : Reach s s' := by
  simp only [parseEntityDef, Option.bind_eq_bind, Option.bind_eq_some_iff] at h
  obtain ⟨c, -, h⟩ := h
  split at h
  · simp only [Option.bind_eq_some_iff] at h
    obtain ⟨⟨q, s1⟩, h1, h⟩ := h
    exact (consumeQuote_reach h1).trans ((skipBytes_reach _ _).trans (consumeByte_reach h))
  · split at h
    · simp only [Option.bind_eq_some_iff] at h
      obtain ⟨⟨b, s1⟩, h1, h⟩ := h
      have r1 := parseExternalId_reach h1
      split at h
      · simp at h
      · split at h
        · dsimp only at h
          split at h
          · simp only [Option.bind_eq_some_iff] at h
            obtain ⟨s3, h3, h⟩ := h
            exact (r1.trans (skipSpaces_reach _)).trans
              (((Reach.adv _ 5).trans (consumeSpaces_reach h3)).trans (skipName_reach h))
          · simp at h; subst h; exact r1.trans (skipSpaces_reach _)
        · simp at h; subst h; exact r1
    · simp at h

theorem parseEntityDecl_reach {s s' : Stream} {t : Token}
    (h : parseEntityDecl s = some (t, s')) : Reach (s.adv 8) s' := by
  simp only [parseEntityDecl, Option.bind_eq_bind, Option.bind_eq_some_iff, Option.some.injEq,
    Prod.mk.injEq] at h
  obtain ⟨s2, h2, s4, h4, ⟨n, s5⟩, h5, s6, h6, s7, h7, s8, h8, -, rfl⟩ := h
  have r4 : Reach s2 s4 := by
    split at h4
    · exact (tryConsumeByte_reach '%' s2).trans (consumeSpaces_reach h4)
    · simp at h4; rw [← h4]; exact tryConsumeByte_reach '%' s2
  exact ((((consumeSpaces_reach h2).trans r4).trans (consumeName_reach h5)).trans
    (consumeSpaces_reach h6)).trans ((parseEntityDef_reach h7).trans
    ((skipSpaces_reach _).trans (consumeByte_reach h8)))

theorem consumeDecl_reach {s s' : Stream} (h : consumeDecl s = some s') : Reach s s' :=
  (skipBytes_reach _ s).trans (consumeByte_reach h)

theorem parseElementStart_reach {s s' : Stream} {t : Token}
    (h : parseElementStart s = some (t, s')) : Reach (s.adv 1) s' := by
  simp only [parseElementStart, Option.bind_eq_bind, Option.bind_eq_some_iff, Option.some.injEq,
    Prod.mk.injEq] at h
  obtain ⟨⟨p, l, s1⟩, h1, -, rfl⟩ := h
  exact consumeQName_reach h1

theorem parseCloseElement_reach {s s' : Stream} {t : Token}
    (h : parseCloseElement s = some (t, s')) : Reach (s.adv 2) s' := by
  simp only [parseCloseElement, Option.bind_eq_bind, Option.bind_eq_some_iff, Option.some.injEq,
    Prod.mk.injEq] at h
  obtain ⟨⟨p, l, s1⟩, h1, s2, h2, -, rfl⟩ := h
  exact (consumeQName_reach h1).trans ((skipSpaces_reach _).trans (consumeByte_reach h2))

/-! ### One call of `parse_next_impl` -/

/-- `s'` lies at least one character further along than `s`. -/
def Adv1 (s s' : Stream) : Prop := ∃ n, 0 < n ∧ Reach (s.adv n) s'

theorem Adv1.reach {s s' : Stream} (h : Adv1 s s') : Reach s s' := by
  obtain ⟨n, _, h⟩ := h
  exact (Reach.adv s n).trans h

theorem Adv1.len_lt {s s' : Stream} (h : Adv1 s s') (hs : s.atEnd = false) :
    s'.rest.length < s.rest.length := by
  obtain ⟨n, hn, h⟩ := h
  exact h.len_lt hn hs

theorem Adv1.trans_reach {a b c : Stream} (h1 : Adv1 a b) (h2 : Reach b c) : Adv1 a c := by
  obtain ⟨n, hn, h⟩ := h1
  exact ⟨n, hn, h.trans h2⟩

theorem Adv1.of_reach {a b c : Stream} (h1 : Reach a b) (h2 : Adv1 b c) : Adv1 a c := by
  obtain ⟨k, rfl⟩ := h1
  obtain ⟨n, hn, j, rfl⟩ := h2
  exact ⟨k + n, by omega, j, by simp [adv_adv]⟩

theorem Adv1.one (s : Stream) : Adv1 s (s.adv 1) := ⟨1, by omega, Reach.refl _⟩

theorem skipSpaces_adv1 {s : Stream} (h : s.startsWithSpace = true) : Adv1 s s.skipSpaces := by
  cases s with
  | mk p r =>
    cases r with
    | nil => simp [startsWithSpace] at h
    | cons c cs =>
      simp only [startsWithSpace] at h
      refine ⟨1, by omega, (cs.takeWhile isXmlSpace).length, ?_⟩
      simp only [skipSpaces, skipBytes, List.takeWhile_cons, h, if_true, List.length_cons, adv_adv]
      congr 1; omega

theorem scanChars_pos {f : Str → Char → Bool} {c : Char} {cs : Str} {k : Nat}
    (h : scanChars f (c :: cs) = some k) (hf : f (c :: cs) c = true) : 0 < k := by
  simp only [scanChars] at h
  split at h
  · simp at h
  · simp only [Option.map_eq_some_iff] at h
    obtain ⟨j, _, rfl⟩ := h
    omega

theorem parseText_adv1 {s s' : Stream} {t : Token} (h : parseText s = some (t, s'))
    (hc : (s.curr? == some '<') = false) (he : s.atEnd = false) : Adv1 s s' := by
  simp only [parseText, Option.bind_eq_bind, Option.bind_eq_some_iff] at h
  obtain ⟨s1, h1, h⟩ := h
  have e : s' = s1 := by
    split at h
    · simp at h
    · simp at h; exact h.2.symm
  subst e
  cases s with
  | mk p r =>
    cases r with
    | nil => simp [atEnd] at he
    | cons c cs =>
      simp only [skipChars, Option.map_eq_some_iff] at h1
      obtain ⟨k, hk, rfl⟩ := h1
      have hf : (fun (_ : Str) (c : Char) => c != '<') (c :: cs) c = true := by
        simp only [curr?, List.head?_cons] at hc
        simpa using hc
      have := scanChars_pos hk hf
      exact ⟨k, this, Reach.refl _⟩

theorem parseAttribute_adv1 {s s' : Stream} {t : Token} (h : parseAttribute s = some (t, s')) :
    Adv1 s s' := by
  unfold parseAttribute at h
  dsimp only at h
  split at h
  · simp only [Option.bind_eq_bind, Option.bind_eq_some_iff, Option.some.injEq,
      Prod.mk.injEq] at h
    obtain ⟨s2, h2, -, rfl⟩ := h
    exact Adv1.of_reach (skipSpaces_reach s) ((Adv1.one _).trans_reach (consumeByte_reach h2))
  · split at h
    · simp at h; obtain ⟨_, rfl⟩ := h
      exact Adv1.of_reach (skipSpaces_reach s) (Adv1.one _)
    · split at h
      · simp at h
      · next hsp =>
        simp only [Option.bind_eq_bind, Option.bind_eq_some_iff, Option.some.injEq,
          Prod.mk.injEq] at h
        obtain ⟨⟨p, l, s2⟩, h2, s3, h3, ⟨q, s4⟩, h4, s5, h5, s6, h6, -, rfl⟩ := h
        have hsp' : s.startsWithSpace = true := by simpa using hsp
        exact (skipSpaces_adv1 hsp').trans_reach
          ((((consumeQName_reach h2).trans (consumeEq_reach h3)).trans
            (consumeQuote_reach h4)).trans ((skipChars_reach h5).trans (consumeByte_reach h6)))

theorem Step.ofParse_token {tk tk' : Tokenizer} {r : Option (Token × Stream)} {t : Token}
    (h : Step.ofParse tk r = .token t tk') : ∃ s', r = some (t, s') ∧ tk' = { tk with stream := s' } := by
  cases r with
  | none => simp [Step.ofParse] at h
  | some p =>
    obtain ⟨t0, s0⟩ := p
    simp only [Step.ofParse, Step.token.injEq] at h
    exact ⟨s0, by rw [h.1], h.2.symm⟩

theorem Step.ofParse_skip {tk tk' : Tokenizer} {r : Option (Token × Stream)} :
    Step.ofParse tk r ≠ .skip tk' := by
  cases r with
  | none => simp [Step.ofParse]
  | some p => simp [Step.ofParse]

/-- `State::Declaration` and `State::AfterDeclaration` can be left without consuming input. -/
def State.rank : State → Nat
  | .declaration => 2
  | .afterDeclaration => 1
  | _ => 0

/-- The quantity that decreases with every call of `parse_next_impl` on a stream not at its end. -/
def Tokenizer.measure (tk : Tokenizer) : Nat := 3 * tk.stream.rest.length + tk.state.rank

theorem miscStep_token {tk tk' : Tokenizer} {other : Step} {t : Token}
    (h : miscStep tk other = .token t tk') :
    Adv1 tk.stream tk'.stream ∨ other = .token t tk' := by
  unfold miscStep at h
  dsimp only at h
  split at h
  · obtain ⟨s', hr, rfl⟩ := Step.ofParse_token h
    exact .inl ⟨4, by omega, parseComment_reach hr⟩
  · split at h
    · split at h
      · simp at h
      · obtain ⟨s', hr, rfl⟩ := Step.ofParse_token h
        exact .inl ⟨2, by omega, parsePI_reach hr⟩
    · exact .inr h

theorem miscStep_skip {tk tk' : Tokenizer} {other : Step}
    (h : miscStep tk other = .skip tk') : other = .skip tk' := by
  unfold miscStep at h
  dsimp only at h
  split at h
  · exact absurd h Step.ofParse_skip
  · split at h
    · split at h
      · simp at h
      · exact absurd h Step.ofParse_skip
    · exact h

end XotModel.Lex
