/-
  XotModel.Model.OutputTypes — `output/serializer.rs` event and token types (shared by the
  Output, Pretty and Html5 layers).
-/
import XotModel.Model.Tree

namespace XotModel

/-- `output::Output` — one serialisation event; `Element` payloads are just the name id. -/
inductive Output where
  | startTagOpen (name : Nat)
  | startTagClose
  | endTag (name : Nat)
  | pfx (pfx : Nat) (ns : Nat)
  | attribute (name : Nat) (value : Str)
  | text (s : Str)
  | comment (s : Str)
  | pi (target : Nat) (data : Option Str)
  deriving Repr, DecidableEq, Inhabited

/-- `output::OutputToken`. -/
structure OutputToken where
  space : Bool
  text : Str
  deriving Repr, DecidableEq, Inhabited

/-- `output::PrettyOutputToken`. -/
structure PrettyOutputToken where
  indentation : Nat
  space : Bool
  text : Str
  newline : Bool
  deriving Repr, DecidableEq, Inhabited

/-- The crate's `Error` variants that the modelled layers can return. -/
inductive XotError where
  | notDocument | invalidOperation | invalidComment | invalidTarget | notElement | nodeError
  | missingPrefix (ns : Nat) | processingInstructionGtInHtml | namespaceInProcessingInstruction
  | unknownPrefix | illegalAtTopLevel | textAtTopLevel | noElementAtTopLevel
  | multipleElementsAtTopLevel | io
  deriving Repr, DecidableEq, Inhabited

end XotModel
