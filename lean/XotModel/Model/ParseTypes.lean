/-
  XotModel.Model.ParseTypes — the vocabulary of the parser model (parse.rs, error.rs):
  `StrSpan` / `Token` mirror `xmlparser::StrSpan` / `xmlparser::Token` as far as xot looks at
  them, `Span`, `ParseErr` = `error.rs ParseError`, `SpanKey` = `SpanInfoKey`, and the
  interning step `IdMap::get_id_mut` on the three tables of `Env`.

  The tokenizer itself (xmlparser 0.13.6) is NOT modelled: `build` consumes the token list the
  real tokenizer produced.  All positions are BYTE offsets into the source text.
-/
import XotModel.Model.Tree
import XotModel.Model.Env
import XotModel.Model.Entity

namespace XotModel

/-- `xmlparser::StrSpan`: a slice of the source and the byte offset where it starts. -/
structure StrSpan where
  text : Str
  start : Nat
  deriving Repr, DecidableEq, Inhabited

/-- `StrSpan::end` = `start + text.len()`. -/
def StrSpan.stop (s : StrSpan) : Nat := s.start + strLen s.text

/-- `parse.rs Span` (end not inclusive). -/
structure Span where
  start : Nat
  stop : Nat
  deriving Repr, DecidableEq, Inhabited

/-- `impl From<StrSpan> for Span`. -/
def StrSpan.span (s : StrSpan) : Span := ⟨s.start, s.stop⟩

/-- `Span::from_prefix_name`. -/
def Span.fromPrefixName (p n : StrSpan) : Span :=
  if p.text.isEmpty then ⟨n.start, n.stop⟩ else ⟨p.start, n.stop⟩

/-- `xmlparser::ElementEnd`. -/
inductive ElementEnd where
  | open
  | close (pfx : StrSpan) (loc : StrSpan)
  | empty
  deriving Repr, DecidableEq, Inhabited

/-- `xmlparser::Token` (DTD payloads other than the span are never looked at by xot). -/
inductive Token where
  | declaration (version : StrSpan) (encoding : Option StrSpan) (standalone : Option Bool)
      (span : StrSpan)
  | pi (target : StrSpan) (content : Option StrSpan) (span : StrSpan)
  | comment (text : StrSpan) (span : StrSpan)
  | dtdStart (span : StrSpan)
  | emptyDtd (span : StrSpan)
  | entityDecl (span : StrSpan)
  | dtdEnd (span : StrSpan)
  | elementStart (pfx : StrSpan) (loc : StrSpan) (span : StrSpan)
  | attribute (pfx : StrSpan) (loc : StrSpan) (value : StrSpan) (span : StrSpan)
  | elementEnd (e : ElementEnd) (span : StrSpan)
  | text (text : StrSpan)
  | cdata (text : StrSpan) (span : StrSpan)
  deriving Repr, DecidableEq, Inhabited

/-- `error.rs ParseError` (without the deprecated `UnsupportedNotStandalone`, which is never
    constructed). `xmlParser` carries only the position; the tokenizer's own error value is
    external. -/
inductive ParseErr where
  | unclosedTag (sp : Span)
  | invalidCloseTag (pfx : Str) (name : Str) (sp : Span)
  | unclosedEntity (entity : Str) (pos : Nat)
  | invalidEntity (entity : Str) (sp : Span)
  | unknownPrefix (pfx : Str) (sp : Span)
  | duplicateAttribute (name : Str) (sp : Span)
  | unsupportedVersion (version : Str) (sp : Span)
  | dtdUnsupported (sp : Span)
  | noElementAtTopLevel (pos : Nat)
  | multipleElementsAtTopLevel (sp : Span)
  | textAtTopLevel (sp : Span)
  | duplicateId (value : Str) (sp : Span)
  | invalidNamespaceDeclaration (name : Str) (sp : Span)
  | invalidTarget (target : Str) (sp : Span)
  | xmlParser (pos : Nat)
  deriving Repr, DecidableEq, Inhabited

/-- `ParseError::span`. -/
def ParseErr.span : ParseErr → Span
  | .unclosedTag sp => sp
  | .invalidCloseTag _ _ sp => sp
  | .unclosedEntity _ pos => ⟨pos, pos⟩
  | .invalidEntity _ sp => sp
  | .unknownPrefix _ sp => sp
  | .duplicateAttribute _ sp => sp
  | .unsupportedVersion _ sp => sp
  | .dtdUnsupported sp => sp
  | .noElementAtTopLevel pos => ⟨pos, pos⟩
  | .multipleElementsAtTopLevel sp => sp
  | .textAtTopLevel sp => sp
  | .duplicateId _ sp => sp
  | .invalidNamespaceDeclaration _ sp => sp
  | .invalidTarget _ sp => sp
  | .xmlParser pos => ⟨pos, pos⟩

/-- `From<ContentErr>`: the two errors of `parse_content` as `ParseError`s. -/
def ParseErr.ofContent : ContentErr → ParseErr
  | .unclosed e pos => .unclosedEntity e pos
  | .invalid e a b => .invalidEntity e ⟨a, b⟩

/-- `SpanInfoKey` without its node: the node is a path from the document node; attribute keys
    carry the element's path and the attribute's name id. -/
inductive SpanKind where
  | elementStart
  | elementEnd
  | text
  | comment
  | piTarget
  | piContent
  | attributeName (name : Nat)
  | attributeValue (name : Nat)
  deriving Repr, DecidableEq, Inhabited

structure SpanKey where
  path : Path
  kind : SpanKind
  deriving Repr, DecidableEq, Inhabited

/-- `SpanInfo.map`: a finite map as an association list with unique keys. -/
abbrev SpanMap := List (SpanKey × Span)

/-- `HashMap::get`. -/
def SpanMap.get (m : SpanMap) (k : SpanKey) : Option Span := m.lookup k

/-- `SpanInfo::add` = `HashMap::insert` (overwrites). -/
def SpanMap.add (m : SpanMap) (k : SpanKey) (s : Span) : SpanMap :=
  (k, s) :: m.filter (fun e => e.1 != k)

/-- `SpanInfo::extend_text_span`. -/
def SpanMap.extendText (m : SpanMap) (node : Path) (s : Span) : SpanMap :=
  match m.get ⟨node, .text⟩ with
  | some existing => m.add ⟨node, .text⟩ ⟨existing.start, s.stop⟩
  | none => m.add ⟨node, .text⟩ s

/-- `SpanInfo::add_attribute_spans`. -/
def SpanMap.addAttributeSpans (m : SpanMap) (node : Path) : List (Nat × Span × Span) → SpanMap
  | [] => m
  | (name, nameSpan, valueSpan) :: rest =>
    SpanMap.addAttributeSpans
      ((m.add ⟨node, .attributeName name⟩ nameSpan).add ⟨node, .attributeValue name⟩ valueSpan)
      node rest

/-! ### Interning (`IdMap::get_id_mut`)

The id of a value is the index of its first occurrence in `by_id`; an unknown value is pushed.
(The `as u16` truncation of `to_id` is not modelled here: the tables stay far below 2^16.) -/

/-- `get_id_mut` on a `by_id` list: the table afterwards and the id. `List.idxOf` returns the
    length of the list for a value that does not occur, which is exactly the id it then gets. -/
def internIn {α : Type} [BEq α] (l : List α) (v : α) : List α × Nat :=
  (if l.contains v then l else l ++ [v], l.idxOf v)

namespace Env

def internPrefix (e : Env) (p : Str) : Env × Nat :=
  let r := internIn e.prefixes p
  ({ e with prefixes := r.1 }, r.2)

def internNamespace (e : Env) (ns : Str) : Env × Nat :=
  let r := internIn e.namespaces ns
  ({ e with namespaces := r.1 }, r.2)

def internName (e : Env) (loc : Str) (ns : Nat) : Env × Nat :=
  let r := internIn e.names (loc, ns)
  ({ e with names := r.1 }, r.2)

end Env

/-! ### Reserved names (`parse.rs`: `const XML_NAMESPACE`, `const XMLNS_NAMESPACE`, the target `xml`) -/

/-- `http://www.w3.org/XML/1998/namespace` -/
def xmlNamespaceUri : Str :=
  ['h', 't', 't', 'p', ':', '/', '/', 'w', 'w', 'w', '.', 'w', '3', '.', 'o', 'r', 'g', '/', 'X', 'M', 'L', '/',
   '1', '9', '9', '8', '/', 'n', 'a', 'm', 'e', 's', 'p', 'a', 'c', 'e']

/-- `http://www.w3.org/2000/xmlns/` -/
def xmlnsNamespaceUri : Str :=
  ['h', 't', 't', 'p', ':', '/', '/', 'w', 'w', 'w', '.', 'w', '3', '.', 'o', 'r', 'g', '/', '2', '0', '0', '0', '/',
   'x', 'm', 'l', 'n', 's', '/']

/-- `u8::to_ascii_lowercase` on a `char` (only `A`–`Z` change). -/
def asciiLowerChar (c : Char) : Char := if 65 ≤ c.toNat && c.toNat ≤ 90 then Char.ofNat (c.toNat + 32) else c

/-- `target.eq_ignore_ascii_case("xml")`: the reserved PI target in any letter case. -/
def isReservedPiTarget (target : Str) : Bool := target.map asciiLowerChar == ['x', 'm', 'l']

/-- Document (`parse`, `parse_with_span_info`) or fragment (`parse_fragment…`). -/
inductive Mode where
  | document
  | fragment
  deriving Repr, DecidableEq, Inhabited

/-! ### `check_qname` (/repo a5fafb0), the test -/

/-- The test of `check_qname` (/repo a5fafb0): `prefix.is_empty() && prefix.start() != 0`.
    xmlparser reports an ABSENT prefix as `"".into()` (a `StrSpan` with start 0 that is not a
    slice of the source) and a colon with nothing in front of it (`<:a/>`) as an empty SLICE of the
    source, which cannot start at 0 (a name never stands at the very start of the text). -/
def StrSpan.bareColon (pfx : StrSpan) : Bool := pfx.text.isEmpty && pfx.start != 0

/-- No name of the token is written with a colon and nothing in front of it (`check_qname` lets
    the token pass). -/
def Token.prefixOk : Token → Bool
  | .attribute pfx _ _ _ => !pfx.bareColon
  | .elementStart pfx _ _ => !pfx.bareColon
  | .elementEnd (.close pfx _) _ => !pfx.bareColon
  | _ => true

def tokensPrefixOk (ts : List Token) : Bool := ts.all Token.prefixOk

end XotModel
