/-
  XotModel.Model.FmapNodes — the reference of C11 with the NODES that carry the entries.

  An attribute / namespace view is an insertion-ordered map whose entries are carried by nodes
  (`get_node`, `nodes()`, the node `append_*_node` returns).  `NFam` is the reference's
  bookkeeping of that: for every element and view the (key, node) list, in order.  It follows the
  reference maps (`knFollow`): a key keeps the node that carried it, a key that disappears takes
  its entry away, a key that is new comes last and is carried by the node the update GIVES — the
  parentless node passed in, the entry node of another element that moves, or the node made on
  the spot, whose handle is the reference's fresh-handle counter (`fresh`, advanced by the number
  of nodes the call makes, `MapCall.creates`).

  `RefState` = ordered maps + carrier nodes + counter is a reference that runs on its own
  (`refRun`): from the reference state of the start forest it yields what every call of a
  history returns, nodes included, and the reference state of the final forest
  (`C11_histories_reference`).
-/
import XotModel.Model.FmapRet

namespace XotModel
namespace Fmap
open Forest (MapKind entryKey mapChildren MapEntry)

/-- For every node and view: the (key, node handle) pairs, in order. -/
abbrev NFam := Nat → MapKind → List (Nat × Nat)

/-- The node family read off a forest. -/
def nfamOf (f : Forest) : NFam := fun e k => absKN k f e

/-- The (key, node) list after an update, given the key list of the reference map afterwards:
    every key keeps its node; a key that was not there is carried by `given`. -/
def knFollow (old : List (Nat × Nat)) (keys' : List Nat) (given : Nat) : List (Nat × Nat) :=
  keys'.map fun key => (key, (old.lookup key).getD given)

/-- The node that carries a key the update adds to a view: the parentless node passed in, the
    entry node of the other element (which moves), else the node made on the spot. -/
def MapOp2.given (NF : NFam) (fresh : Nat) : MapOp2 → Nat
  | .appendDetachedNode _ _ nd _ | .anyAppend _ (.detached nd _) => nd
  | .appendAttachedNode k _ e2 key | .anyAppend _ (.entry k e2 key) =>
    ((NF e2 k).lookup key).getD fresh
  | _ => fresh

def MapCall.given (NF : NFam) (fresh : Nat) : MapCall → Nat
  | .base op => op.given NF fresh
  | _ => fresh

/-- The reference step on the node family: it follows the key lists of the reference family `F'`
    after the call. -/
def MapCall.specN (F' : Fam) (NF : NFam) (fresh : Nat) (c : MapCall) : NFam :=
  fun x k => knFollow (NF x k) (omKeys (F' x k)) (c.given NF fresh)

/-- The node view the reference derives from its own node family. -/
def viewOf (NF : NFam) (fresh : Nat) : NodeView := ⟨fun e k key => (NF e k).lookup key, fresh⟩

/-! ### The reference on its own: ordered maps, carrier nodes, fresh-handle counter -/

/-- How many nodes the update makes, by the reference's account: one for a map-style insertion
    of a key the reference map lacks, one for every `new_*_node`. -/
def MapOp2.creates (F : Fam) : MapOp2 → Nat
  | .insert k e v | .entryInsert k e v | .entryOrInsert k e v | .vacantInsert k e v
  | .entryAndModifyOrInsert k e v _ => if omContainsKey (F e k) (entryKey v) then 0 else 1
  | .entryOrDefault e name | .setAttribute e name _ =>
    if omContainsKey (F e .attributes) name then 0 else 1
  | .setNamespace e pfx _ => if omContainsKey (F e .namespaces) pfx then 0 else 1
  | .appendNewNode _ _ _ | .anyAppend _ (.new _) => 1
  | _ => 0

def MapCall.creates (F : Fam) : MapCall → Nat
  | .base op => op.creates F
  | .entryOrInsertWith k e key _ => if omContainsKey (F e k) key then 0 else 1
  | _ => 0

/-- The reference state: the ordered maps, the nodes that carry their entries, the handle the
    next node creation hands out. -/
structure RefState where
  fam : Fam
  nodes : NFam
  fresh : Nat

/-- The reference state read off a forest. -/
def refOf (f : Forest) : RefState := ⟨famOf f, nfamOf f, f.next⟩

/-- What the reference returns for a call. -/
def MapCall.refRet (R : RefState) (c : MapCall) : Ret := c.specRet R.fam (viewOf R.nodes R.fresh)

/-- The reference state after a call. -/
def MapCall.refStep (R : RefState) (c : MapCall) : RefState :=
  ⟨c.spec R.fam, c.specN (c.spec R.fam) R.nodes R.fresh, R.fresh + c.creates R.fam⟩

/-- A history run on the reference alone: the returned values and the final reference state. -/
def refRun : RefState → List MapCall → List Ret × RefState
  | R, [] => ([], R)
  | R, c :: cs =>
    let r := refRun (c.refStep R) cs
    (c.refRet R :: r.1, r.2)

end Fmap
end XotModel
