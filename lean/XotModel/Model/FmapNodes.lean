/-
  XotModel.Model.FmapNodes — the reference of C11 with the NODES that carry the entries.

  An attribute / namespace view is an insertion-ordered map whose entries are carried by nodes
  (`get_node`, `nodes()`, the node `append_*_node` returns).  `NFam` is the reference's
  bookkeeping of that: for every element and view the (key, node) list, in order.  It follows the
  reference maps (`knFollow`): a key keeps the node that carried it, a key that disappears takes
  its entry away, a key that is new comes last and is carried by the node the update GIVES — the
  parentless node passed in, the entry node of another element that moves, or the node made on
  the spot (`fresh`: the handle `new_attribute_node` / `new_namespace_node` / the node creation
  inside `insert` hands out; handles are opaque, so the reference is told it).

  With it the reference returns nodes on its own (`viewOf`): `C11_histories_nodes`.
-/
import XotModel.Model.FmapRet

namespace XotModel
namespace Fmap
open Forest (MapKind entryKey mapChildren MapEntry)

/-- For every node and view: the (key, node handle) pairs, in order. -/
abbrev NFam := Nat → MapKind → List (Nat × Nat)

/-- The node family read off a forest. -/
def nfamOf (f : Forest) : NFam := fun e k => absKN k f e

/-- The (key, node) list after an update, given the key list of the reference map afterwards:
    every key keeps its node; a key that was not there is carried by `given`. -/
def knFollow (old : List (Nat × Nat)) (keys' : List Nat) (given : Nat) : List (Nat × Nat) :=
  keys'.map fun key => (key, (old.lookup key).getD given)

/-- The node that carries a key the update adds to a view: the parentless node passed in, the
    entry node of the other element (which moves), else the node made on the spot. -/
def MapOp2.given (NF : NFam) (fresh : Nat) : MapOp2 → Nat
  | .appendDetachedNode _ _ nd _ | .anyAppend _ (.detached nd _) => nd
  | .appendAttachedNode k _ e2 key | .anyAppend _ (.entry k e2 key) =>
    ((NF e2 k).lookup key).getD fresh
  | _ => fresh

def MapCall.given (NF : NFam) (fresh : Nat) : MapCall → Nat
  | .base op => op.given NF fresh
  | _ => fresh

/-- The reference step on the node family: it follows the key lists of the reference family `F'`
    after the call. -/
def MapCall.specN (F' : Fam) (NF : NFam) (fresh : Nat) (c : MapCall) : NFam :=
  fun x k => knFollow (NF x k) (omKeys (F' x k)) (c.given NF fresh)

/-- The node view the reference derives from its own node family. -/
def viewOf (NF : NFam) (fresh : Nat) : NodeView := ⟨fun e k key => (NF e k).lookup key, fresh⟩

/-- What the reference returns along a history, from the reference family and node family of the
    start state alone; of the states gone through only `next` is consulted (the handle a node
    creation hands out). -/
def specRetsN : Forest → Fam → NFam → List MapCall → List Ret
  | _, _, _, [] => []
  | f, F, NF, c :: cs =>
    c.specRet F (viewOf NF f.next) ::
      specRetsN (c.run f).1 (c.spec F) (c.specN (c.spec F) NF f.next) cs

/-- The reference node family after a history. -/
def specCallsN : Forest → Fam → NFam → List MapCall → NFam
  | _, _, NF, [] => NF
  | f, F, NF, c :: cs =>
    specCallsN (c.run f).1 (c.spec F) (c.specN (c.spec F) NF f.next) cs

end Fmap
end XotModel
