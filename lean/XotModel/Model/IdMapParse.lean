/-
  XotModel.Model.IdMapParse — the registrations (`IdMap::get_id_mut` calls) that `parse` and
  `html5()` make on the three interning tables of a `Xot`, as data.

  * `Reg` is one `get_id_mut` call: on the prefix table (`add_prefix`), on the namespace table
    (`add_namespace`) or on the name table (`add_name_ns(local, namespace id)`).
    `Interner.reg` / `Interner.regAll` perform such calls on the interner of `Model/IdMap.lean`
    (hash map + vector, ids cut to the id width); `Env.reg` / `Env.regAll` are the same calls on
    the plain tables the parser model (`Model/Parse.lean`) threads through.
  * `Builder.stepRegs`, `Builder.runRegs`, `buildRegs`: the calls the token loop of `Xot::_parse`
    makes, in the order it makes them, as a function of the builder state and the tokens.  The
    trace follows the code: `NameIdBuilder::element_name_id` / `attribute_name_id` register the
    prefix, then (if it resolves) the name; `DocumentBuilder::prefix` the prefix, then the
    namespace URI; a processing instruction its target as a name in no namespace.  Where the loop
    stops early (a `ParseError`), the trace stops where the code stops: whether the loop goes on
    is read off the model's own step functions, nothing is restated here.
  * `Interner.parse`: the interner after `parse` / `parse_fragment` on a token list (accepted or
    rejected: the Rust registers before it fails).
  * `Interner.html5`: `Html5Elements::new` (src/output/html5elements.rs): three namespaces, then
    for each of the five name tables of `Generated.lean`, per entry `n`, the names `(n, no ns)`,
    `(N, no ns)`, `(n, xhtml)`, `(N, xhtml)` (`N` = `to_ascii_uppercase`); the ids returned are
    what `HtmlNames.ids` stores.
  * `HStep` / `Interner.run`: histories mixing direct registrations, parses, `html5()` and clone.
-/
import XotModel.Model.IdMap
import XotModel.Model.Parse
import XotModel.Model.Html5

namespace XotModel

/-- One `get_id_mut` call on one of the three tables of a `Xot`. -/
inductive Reg where
  /-- `prefix_lookup.get_id_mut(p)` (`add_prefix`) -/
  | pfx (p : Str)
  /-- `namespace_lookup.get_id_mut(uri)` (`add_namespace`) -/
  | ns (uri : Str)
  /-- `name_lookup.get_id_mut(Name { name, namespace_id })` (`add_name_ns`) -/
  | name (loc : Str) (nsId : Nat)
  deriving Repr, DecidableEq, Inhabited

namespace Interner

/-- The call on the interner. -/
def reg (x : Interner) : Reg → Interner × Nat
  | .pfx p => x.addPrefix p
  | .ns u => x.addNamespace u
  | .name l n => x.addNameNs l n

/-- A sequence of calls: the interner reached and the ids returned, in order. -/
def regAll (x : Interner) : List Reg → Interner × List Nat
  | [] => (x, [])
  | r :: rs =>
    let a := x.reg r
    let b := regAll a.1 rs
    (b.1, a.2 :: b.2)

/-- The three `by_id` vectors: what the static layers (`Env`) see of an interner. -/
def env (x : Interner) : Env :=
  { namespaces := x.namespaceLookup.byId, prefixes := x.prefixLookup.byId, names := x.nameLookup.byId }

end Interner

namespace Env

/-- The same call on the plain tables of the parser model. -/
def reg (e : Env) : Reg → Env × Nat
  | .pfx p => e.internPrefix p
  | .ns u => e.internNamespace u
  | .name l n => e.internName l n

def regAll (e : Env) : List Reg → Env × List Nat
  | [] => (e, [])
  | r :: rs =>
    let a := e.reg r
    let b := regAll a.1 rs
    (b.1, a.2 :: b.2)

end Env

/-! ### The calls of the token loop -/

/-- `NameIdBuilder::element_name_id`: the prefix, then — if the prefix resolves — the name. -/
def elementNameRegs (env : Env) (stack : NsStack) (pfx name : Str) : List Reg :=
  .pfx pfx ::
    match lookupPrefix stack (env.internPrefix pfx).2 with
    | some ns => [.name name ns]
    | none => []

/-- `NameIdBuilder::attribute_name_id`. -/
def attributeNameRegs (env : Env) (stack : NsStack) (pfx name : Str) : List Reg :=
  .pfx pfx ::
    if (env.internPrefix pfx).2 == Env.emptyPrefix then [.name name Env.noNamespace]
    else match lookupPrefix stack (env.internPrefix pfx).2 with
      | some ns => [.name name ns]
      | none => []

/-- The attribute loop of `open_element`: per attribute the calls of `attribute_name_id`; the loop
    goes on exactly when the model's loop body (`addAttributes` on the one attribute) does. -/
def attrsRegs (stack : NsStack) (node : Path) : AttrLoop → List AttributeBuilder → List Reg
  | _, [] => []
  | st, ab :: rest =>
    attributeNameRegs st.env stack ab.pfx ab.name ++
      match addAttributes stack node st [ab] with
      | .ok st1 => attrsRegs stack node st1 rest
      | _ => []

/-- `DocumentBuilder::open_element`: the element name, then the attribute loop. -/
def Builder.openRegs (b : Builder) : List Reg :=
  match b.eb with
  | none => []
  | some eb =>
    let stack := eb.namespaces :: b.nsStack
    elementNameRegs b.env stack eb.pfx eb.name ++
      match elementNameId b.env stack eb.pfx eb.name eb.prefixSpan with
      | .ok (env1, _) =>
        attrsRegs stack (b.curPath ++ [b.cur.rkids.length])
          { env := env1, seenIds := b.seenIds, idNodes := b.idNodes, seenNames := [],
            rkids := namespaceKids eb.namespaces, aspans := [] } eb.attributes
      | _ => []

/-- `DocumentBuilder::prefix`: nothing if the URI does not decode or the declaration is a reserved
    one / a prefixed undeclaration (rejected before anything is interned), else prefix and URI. -/
def prefixRegs (pfx : Str) (uri : StrSpan) : List Reg :=
  match parseContentGo true uri.start 0 uri.text with
  | .error _ => []
  | .ok u => if reservedDecl pfx u then [] else [.pfx pfx, .ns u]

/-- One arm of the `match token` of `_parse` (a name refused by `check_qname` registers nothing). -/
def Builder.stepRegs (b : Builder) : Token → List Reg
  | .attribute pfx loc value _ =>
    if pfx.bareColon then []
    else if pfx.text == ['x', 'm', 'l', 'n', 's'] then prefixRegs loc.text value
    else if pfx.text.isEmpty && loc.text == ['x', 'm', 'l', 'n', 's'] then prefixRegs [] value
    else []
  | .elementEnd .open _ => b.openRegs
  | .elementEnd (.close pfx loc) _ =>
    if pfx.bareColon then [] else elementNameRegs b.env b.nsStack pfx.text loc.text
  | .elementEnd .empty _ => b.openRegs
  -- the target `xml` is refused before `DocumentBuilder::processing_instruction` is called
  | .pi target _ _ => if isReservedPiTarget target.text then [] else [.name target.text Env.noNamespace]
  | _ => []

/-- The token loop: the calls of each token, as long as the loop goes on. -/
def Builder.runRegs (b : Builder) : List Token → List Reg
  | [] => []
  | t :: ts =>
    b.stepRegs t ++
      match b.step t with
      | .ok b1 => Builder.runRegs b1 ts
      | _ => []

/-- Everything `parse` / `parse_fragment` registers on these tokens, from these tables. (The
    epilogues register nothing.) -/
def buildRegs (env : Env) (ts : List Token) : List Reg := (Builder.new env).runRegs ts

/-- The interner after a parse, accepted or not. -/
def Interner.parse (x : Interner) (ts : List Token) : Interner := (x.regAll (buildRegs x.env ts)).1

/-! ### `Xot::html5()` -/

/-- `HtmlNames::new(xot, xhtml_namespace_id, names)`: four `add_name_ns` per entry. -/
def htmlNamesRegs (noNs xhtml : Nat) (names : List Str) : List Reg :=
  names.flatMap fun n =>
    [.name n noNs, .name (asciiUpper n) noNs, .name n xhtml, .name (asciiUpper n) xhtml]

/-- The five tables in the order `Html5Elements::new` builds them. -/
def html5Tables : List (List Str) :=
  [Gen.html5Names, Gen.voidNames, Gen.phrasingContentNames, Gen.formattedNames, Gen.noEscapeNames]

/-- What `Html5Elements` keeps: three namespace ids and, per table, the `ids` set (here: the ids
    in the order they were returned). -/
structure Html5Ids where
  xhtml : Nat
  mathml : Nat
  svg : Nat
  ids : List (List Nat)
  deriving Repr, Inhabited

/-- The tables one after the other. -/
def Interner.html5Names (x : Interner) (xhtml : Nat) : List (List Str) → Interner × List (List Nat)
  | [] => (x, [])
  | t :: ts =>
    let a := x.regAll (htmlNamesRegs x.noNamespaceId xhtml t)
    let b := Interner.html5Names a.1 xhtml ts
    (b.1, a.2 :: b.2)

/-- `Html5Elements::new(xot)`. -/
def Interner.html5 (x : Interner) : Interner × Html5Ids :=
  let a := x.addNamespace Gen.xhtmlNs
  let b := a.1.addNamespace Gen.mathmlNs
  let c := b.1.addNamespace Gen.svgNs
  let r := c.1.html5Names a.2 html5Tables
  (r.1, { xhtml := a.2, mathml := b.2, svg := c.2, ids := r.2 })

/-- The whole of `html5()` as one list of calls (given the id the XHTML namespace receives). -/
def html5Regs (noNs xhtml : Nat) : List Reg :=
  [.ns Gen.xhtmlNs, .ns Gen.mathmlNs, .ns Gen.svgNs] ++ html5Tables.flatMap (htmlNamesRegs noNs xhtml)

/-! ### Histories -/

/-- One step of a program using a `Xot`, as far as the interning tables are concerned. -/
inductive HStep where
  | addName (s : Str)
  | addNameNs (s : Str) (ns : Nat)
  | addNamespace (s : Str)
  | addPrefix (s : Str)
  /-- `parse` / `parse_fragment` / `parse_bytes` on a text with these tokens -/
  | parse (ts : List Token)
  | html5
  /-- `clone()` and going on with the clone -/
  | clone
  deriving Repr, Inhabited

def Interner.step (x : Interner) : HStep → Interner
  | .addName s => (x.addName s).1
  | .addNameNs s ns => (x.addNameNs s ns).1
  | .addNamespace s => (x.addNamespace s).1
  | .addPrefix s => (x.addPrefix s).1
  | .parse ts => x.parse ts
  | .html5 => x.html5.1
  | .clone => x.clone

def Interner.run (x : Interner) : List HStep → Interner
  | [] => x
  | s :: ss => Interner.run (x.step s) ss

end XotModel
