/-
  XotModel.Model.ValueAccess — the per-node read accessors of valueaccess.rs and access.rs that
  look at ONE node (and its parent / its attribute and namespace children), on `Tree × Path`:

    has_document_parent, is_document_element, get_element_name                (valueaccess.rs)
    comment_str (= comment().map(get)), processing_instruction, namespace_node,
    attribute_node                                                            (valueaccess.rs)
    get_attribute, get_namespace, namespace_declarations                      (access.rs)

  `get_attribute(node, name)` is `self.attributes(node).get(name)`, `get_namespace(node, prefix)` is
  `self.namespaces(node).get(prefix)`, `namespace_declarations(node)` is `namespaces(node).iter()`
  collected: the read-only views of Model/Names.lean (`Tree.getAttribute`, `Tree.getNamespace`,
  `Tree.nsDecls`) at the node.
-/
import XotModel.Model.Axes
import XotModel.Model.Names

namespace XotModel
namespace Axes

/-- `has_document_parent`: `if let Some(parent_id) = self.parent(node)
    { self.value_type(parent_id) == ValueType::Document } else { false }`. -/
def hasDocumentParent (t : Tree) (p : Path) : Bool :=
  match parent p with
  | some q => (valueAt t q).isDocument
  | none => false

/-- `is_document_element`: the parent is a document node `&&` the node is an element. -/
def isDocumentElement (t : Tree) (p : Path) : Bool :=
  match parent p with
  | some q => (valueAt t q).isDocument && (valueAt t p).isElement
  | none => false

/-- `get_element_name`: `Value::Element(element) => element.name()`,
    `_ => panic!("Node is not an element")`. -/
def getElementName (t : Tree) (p : Path) : Outcome AxErr Nat :=
  match valueAt t p with
  | .element n => .ok n
  | _ => .panic

/-- `comment_str`: `self.comment(node).map(|n| n.get())`. -/
def commentStr (t : Tree) (p : Path) : Option Str :=
  match valueAt t p with
  | .comment s => some s
  | _ => none

/-- `processing_instruction`: `(target(), data())` of the value, if it is one. -/
def processingInstruction (t : Tree) (p : Path) : Option (Nat × Option Str) :=
  match valueAt t p with
  | .pi target data => some (target, data)
  | _ => none

/-- `namespace_node`: `(prefix(), namespace())`. -/
def namespaceNode (t : Tree) (p : Path) : Option (Nat × Nat) :=
  match valueAt t p with
  | .namespace pfx ns => some (pfx, ns)
  | _ => none

/-- `attribute_node`: `(name(), value())`. -/
def attributeNode (t : Tree) (p : Path) : Option (Nat × Str) :=
  match valueAt t p with
  | .attribute name v => some (name, v)
  | _ => none

/-- `get_attribute(node, name)`: `self.attributes(node).get(name).map(String::as_str)`. -/
def getAttribute (t : Tree) (p : Path) (name : Nat) : Option Str := (subAt t p).getAttribute name

/-- `get_namespace(node, prefix)`: `self.namespaces(node).get(prefix).copied()`. -/
def getNamespace (t : Tree) (p : Path) (pfx : Nat) : Option Nat := (subAt t p).getNamespace pfx

/-- `namespace_declarations(node)`: `self.namespaces(node).iter().map(|(prefix, ns)| (prefix, *ns)).collect()`. -/
def namespaceDeclarations (t : Tree) (p : Path) : List (Nat × Nat) := (subAt t p).nsDecls

end Axes
end XotModel
