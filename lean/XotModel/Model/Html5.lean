/-
  XotModel.Model.Html5 — the HTML5 output method.

  * `Html5Elements`, `HtmlNames`  : output/html5elements.rs (namespace ids, name tables, `matches`,
                                    `is_inline`, `must_be_serialized_unprefixed`, `is_html_namespace`)
  * `htmlMatchesSuppress`         : html5_serializer.rs `html_matches_suppress` (early returns included)
  * `renderHtml`                  : `Html5Serializer::render_output` (state: name stack + `frames`)
  * `prettifyHtml`                : output/pretty.rs `Pretty::prettify` with the HTML `is_suppressed` /
                                    `is_inline` closures of `serialize_pretty`
  * `writeHtmlGo`, `writeHtmlPrettyGo` : `Html5Serializer::serialize` / `serialize_pretty`
  * `serializeHtmlWrite`, `serializeHtmlString` : serialize.rs `Html5::serialize_write` / `serialize_string`
                                    (`xot.html5()` first)
  The element-name registrations of `HtmlNames::new` are not modelled as ids: a name is looked up by
  its (local name, namespace) in `Env`, which is what membership of its id in `ids` amounts to.
  The normalizer is the identity (`NoopNormalizer`).  Tables and literals come from `Generated.lean`.
-/
import XotModel.Model.Pretty

namespace XotModel
open Gen

/-- `str::to_ascii_lowercase` / `to_ascii_uppercase`. -/
def asciiLower (s : Str) : Str := s.map Char.toLower
def asciiUpper (s : Str) : Str := s.map Char.toUpper

/-- `xot.add_namespace(uri)` on the namespace table: the id of `uri`, registered now if new. -/
def addNamespace (nss : List Str) (uri : Str) : List Str × Nat :=
  if nss.contains uri then (nss, nss.idxOf uri) else (nss ++ [uri], nss.length)

/-- `Html5Elements`: the three namespace ids; the `HtmlNames` fields are the tables of
    `Generated.lean` together with `xhtml`. -/
structure Html5Elements where
  xhtml : Nat
  mathml : Nat
  svg : Nat
  deriving Repr, DecidableEq, Inhabited

/-- `Html5Elements::new(xot)` = `xot.html5()`: registers the three namespaces (in this order). -/
def Html5Elements.new (env : Env) : Env × Html5Elements :=
  let (n1, x) := addNamespace env.namespaces xhtmlNs
  let (n2, m) := addNamespace n1 mathmlNs
  let (n3, s) := addNamespace n2 svgNs
  ({ env with namespaces := n3 }, ⟨x, m, s⟩)

/-- `HtmlNames` for one table. -/
structure HtmlNames where
  xhtml : Nat
  names : List Str

namespace HtmlNames

/-- `self.ids.contains(&name_id)`: `ids` holds the ids of `(n, no namespace)`, `(N, no namespace)`,
    `(n, xhtml)`, `(N, xhtml)` for every table entry `n` (`N` = upper-cased). -/
def idsContain (h : HtmlNames) (env : Env) (name : Nat) : Bool :=
  (env.nsOfName name == Env.noNamespace || env.nsOfName name == h.xhtml)
    && (h.names.contains (env.localName name) || (h.names.map asciiUpper).contains (env.localName name))

/-- `HtmlNames::is_html_element`. -/
def isHtmlElement (h : HtmlNames) (env : Env) (name : Nat) : Bool :=
  env.nsOfName name == h.xhtml || env.nsOfName name == Env.noNamespace

/-- `HtmlNames::matches`. -/
def «matches» (h : HtmlNames) (env : Env) (name : Nat) : Bool :=
  if h.idsContain env name then true
  else if !h.isHtmlElement env name then false
  else h.names.contains (asciiLower (env.localName name))

end HtmlNames

namespace Html5Elements

def html5 (h : Html5Elements) : HtmlNames := ⟨h.xhtml, html5Names⟩
def void (h : Html5Elements) : HtmlNames := ⟨h.xhtml, voidNames⟩
def phrasing (h : Html5Elements) : HtmlNames := ⟨h.xhtml, phrasingContentNames⟩
def formatted (h : Html5Elements) : HtmlNames := ⟨h.xhtml, formattedNames⟩
def noEscape (h : Html5Elements) : HtmlNames := ⟨h.xhtml, noEscapeNames⟩

/-- `is_html_namespace`. -/
def isHtmlNamespace (h : Html5Elements) (ns : Nat) : Bool := ns == h.xhtml || ns == Env.noNamespace

/-- `Html5Elements::is_html_element`. -/
def isHtmlElement (h : Html5Elements) (env : Env) (name : Nat) : Bool :=
  h.isHtmlNamespace (env.nsOfName name)

/-- `must_be_serialized_unprefixed`. -/
def mustBeUnprefixed (h : Html5Elements) (ns : Nat) : Bool :=
  ns == h.xhtml || ns == h.mathml || ns == h.svg

/-- `is_inline`: phrasing content, or an HTML-namespace element the tables do not know. -/
def isInline (h : Html5Elements) (env : Env) (name : Nat) : Bool :=
  h.isHtmlElement env name && (h.phrasing.matches env name || !h.html5.matches env name)

end Html5Elements

/-- `html_matches_suppress(xot, html5_elements, names, name_id)`: the `for` loop with its three
    `return`s (the two `return false` end the whole search, not the iteration). -/
def htmlMatchesSuppress (h : Html5Elements) (env : Env) : List Nat → Nat → Bool
  | [], _ => false
  | sup :: rest, name =>
    if name == sup then true
    else if !h.isHtmlNamespace (env.nsOfName sup) then false
    else if !h.isHtmlNamespace (env.nsOfName name) then false
    else if asciiLower (env.localName sup) == asciiLower (env.localName name) then true
    else htmlMatchesSuppress h env rest name

/-- Static context of one `Html5Serializer`. -/
structure HtmlCtx where
  env : Env
  h : Html5Elements
  cdata : List Nat

/-- `parent(node).and_then(|parent| element(parent))` as the parent's element name. -/
def parentElementName (parent : Option Tree) : Option Nat :=
  match parent with
  | some par => (match par.value with | .element name => some name | _ => none)
  | none => none

/-- The `Text` arm: which escaping function the parent element selects. -/
def htmlTextValue (c : HtmlCtx) (parent : Option Tree) (text : Str) : Str :=
  match parentElementName parent with
  | none => serializeText false text
  | some pn =>
    if c.h.noEscape.matches c.env pn then text
    else if c.cdata.contains pn then serializeCdata text
    else if c.h.isHtmlElement c.env pn then serializeTextHtml text
    else serializeText false text

/-- The boolean-attribute test of the `Attribute` arm (`?` on `attribute_prefix` included):
    `ok true` = write the bare name. -/
def htmlIsBooleanAttr (c : HtmlCtx) (s : FStack) (name : Nat) (value : Str) : Except XotError Bool :=
  if c.h.isHtmlNamespace (c.env.nsOfName name) then
    match s.attributePrefix c.env name with
    | .ok p => .ok (p.isNone && asciiLower (c.env.localName name) == asciiLower value)
    | .error e => .error e
  else .ok false

/-- The value escaping of the `Attribute` arm. -/
def htmlAttrValue (c : HtmlCtx) (name : Nat) (value : Str) : Str :=
  if c.env.nsOfName name != Env.noNamespace then serializeAttribute value else serializeAttributeHtml value

/-- The condition under which the `Prefix` arm writes nothing; `en` = the element's name. -/
def htmlPrefixHidden (c : HtmlCtx) (node : Tree) (en p ns : Nat) : Bool :=
  ns == Env.xmlNamespace
    || (p == Env.emptyPrefix && c.env.nsOfName en != ns)
    || (p != Env.emptyPrefix && c.h.mustBeUnprefixed ns
        && !node.attrs.any (fun a => c.env.nsOfName a.1 == ns))

/-- The mutable state of an `Html5Serializer`: the `FullnameSerializer` stack and `frames`, the
    number of stack frames the start tag of each open element pushed (innermost first). -/
structure HState where
  stack : FStack
  frames : List Nat
  deriving Repr, DecidableEq, Inhabited

/-- The declarations of an element that count as bindings of the output: a default-namespace
    declaration for another namespace than the element's own is not written (`htmlPrefixHidden`)
    and is left out (`.filter(|(p, ns)| *p != empty_prefix || *ns == namespace_id)`). -/
def htmlDeclarations (node : Tree) (ns : Nat) : List (Nat × Nat) :=
  node.nsDecls.filter (fun d => d.1 != Env.emptyPrefix || d.2 == ns)

/-- `for _ in 0..n { self.fullname_serializer.pop(true) }`. -/
def popFrames : Nat → FStack → FStack
  | 0, s => s
  | n + 1, s => popFrames n (s.pop true)

/-- The `EndTag` epilogue: `frames.pop().unwrap_or(0)` frames are popped. -/
def HState.endElement (s : HState) : HState :=
  ⟨popFrames (s.frames.headD 0) s.stack, s.frames.tail⟩

/-- `Html5Serializer::render_output(node, output)`. -/
def renderHtml (c : HtmlCtx) (s : HState) (node : Tree) (parent : Option Tree) :
    Output → Outcome XotError (HState × OutputToken)
  | .startTagOpen name =>
    let ns := c.env.nsOfName name
    let decls := htmlDeclarations node ns
    let frames := if decls.isEmpty then 0 else 1
    let s1 := s.stack.push decls
    if c.h.mustBeUnprefixed ns && !s1.hasEmptyPrefix ns then
      -- the injected default namespace gets a frame of its own
      .ok (⟨s1.push [(Env.emptyPrefix, ns)], (frames + 1) :: s.frames⟩,
        ⟨false, fmt fmtHtmlStartTagOpenNs [c.env.localName name, serializeAttributeHtml (c.env.namespaceStr ns)]⟩)
    else
      match s1.elementFullname c.env name with
      | .ok full => .ok (⟨s1, frames :: s.frames⟩, ⟨false, fmt fmtHtmlStartTagOpen [full]⟩)
      | .error e => .err e
  | .startTagClose => .ok (s, ⟨false, litHtmlTagClose⟩)
  | .endTag name =>
    if c.h.void.matches c.env name then .ok (s.endElement, ⟨false, litHtmlVoidEndTag⟩)
    else
      match s.stack.elementFullname c.env name with
      | .ok full => .ok (s.endElement, ⟨false, fmt fmtHtmlEndTag [full]⟩)
      | .error e => .err e
  | .pfx p ns =>
    match node.value with
    | .element en =>
      if htmlPrefixHidden c node en p ns then .ok (s, ⟨false, litHtmlNoPrefix⟩)
      else if p == Env.emptyPrefix then
        .ok (s, ⟨true, fmt fmtHtmlXmlnsDefault [serializeAttributeHtml (c.env.namespaceStr ns)]⟩)
      else
        .ok (s, ⟨true, fmt fmtHtmlXmlnsPrefix [c.env.prefixStr p, serializeAttributeHtml (c.env.namespaceStr ns)]⟩)
    | _ => .panic  -- `self.xot.element(node).unwrap()`
  | .attribute name value =>
    match s.stack.attributeFullname c.env name with
    | .error e => .err e
    | .ok full =>
      match htmlIsBooleanAttr c s.stack name value with
      | .error e => .err e
      | .ok true => .ok (s, ⟨true, fmt fmtHtmlBooleanAttr [full]⟩)
      | .ok false => .ok (s, ⟨true, fmt fmtHtmlAttribute [full, htmlAttrValue c name value]⟩)
  | .text text => .ok (s, ⟨false, htmlTextValue c parent text⟩)
  | .comment text => .ok (s, ⟨false, fmt fmtHtmlComment [text]⟩)
  | .pi target data =>
    if !(c.env.namespaceStr (c.env.nsOfName target)).isEmpty then .err .namespaceInProcessingInstruction
    else match data with
      | some d =>
        if d.contains htmlPiForbidden then .err .processingInstructionGtInHtml
        else .ok (s, ⟨false, fmt fmtHtmlPiData [c.env.localName target, d]⟩)
      | none => .ok (s, ⟨false, fmt fmtHtmlPi [c.env.localName target]⟩)

/-- `render_output` for the node at `path` in `t` (a non-existing path cannot occur: the paths come
    from `genOutputs`; it is answered `panic`). -/
def renderHtmlAt (c : HtmlCtx) (t : Tree) (s : HState) (path : Path) (o : Output) :
    Outcome XotError (HState × OutputToken) :=
  match t.at? path with
  | some node => renderHtml c s node (t.parentAt? path) o
  | none => .panic

/-- The rendered stream: `outputs.map(render_output)` up to the first failure. -/
def renderHtmlAll (c : HtmlCtx) (t : Tree) :
    HState → List (Path × Output) → Outcome XotError (List (Path × Output × OutputToken))
  | _, [] => .ok []
  | s, (p, o) :: rest =>
    match renderHtmlAt c t s p o with
    | .ok (s', tok) =>
      (match renderHtmlAll c t s' rest with
       | .ok l => .ok ((p, o, tok) :: l)
       | .err e => .err e
       | .panic => .panic)
    | .err e => .err e
    | .panic => .panic

/-- What `Html5Serializer::serialize_node` writes for one token. -/
def htmlTokenBytes (k : OutputToken) : Str := (if k.space then htmlTokenSpace else []) ++ k.text

/-- `Html5Serializer::serialize(w, outputs)`: bytes written and how the loop ended. -/
def writeHtmlGo (c : HtmlCtx) (t : Tree) : HState → List (Path × Output) → Str × Outcome XotError Unit
  | _, [] => ([], .ok ())
  | s, (p, o) :: rest =>
    match renderHtmlAt c t s p o with
    | .ok (s', tok) =>
      let (w, r) := writeHtmlGo c t s' rest
      (htmlTokenBytes tok ++ w, r)
    | .err e => ([], .err e)
    | .panic => ([], .panic)

/-! ### Pretty printing with the HTML predicates -/

/-- The `is_suppressed` closure of `serialize_pretty`. -/
def htmlIsSuppressed (c : HtmlCtx) (suppress : List Nat) (name : Nat) : Bool :=
  c.h.formatted.matches c.env name || htmlMatchesSuppress c.h c.env suppress name

/-- `Pretty::has_inline_child` with `is_inline = html5_elements.is_inline`. -/
def htmlHasInlineChild (c : HtmlCtx) (node : Tree) : Bool :=
  node.normalKids.any fun k => match k.value with
    | .text _ => true
    | .element name => c.h.isInline c.env name
    | _ => false

/-- `Pretty::prettify(node, output)` with the HTML closures: new stack, indentation, newline. -/
def prettifyHtml (c : HtmlCtx) (suppress : List Nat) (s : PStack) (node : Tree) : Output → PStack × Nat × Bool
  | .startTagOpen _ => (s, s.getIndentation, false)
  | .comment _ => (s, s.getIndentation, s.getNewline)
  | .pi _ _ => (s, s.getIndentation, s.getNewline)
  | .startTagClose =>
    if node.firstChild?.isSome then
      if !htmlHasInlineChild c node then
        let isSuppressed := match node.value with
          | .element name => htmlIsSuppressed c suppress name
          | _ => false
        let s' : PStack := if isSuppressed then .mixed :: s else .unmixed (elementSpace node) :: s
        (s', 0, s'.getNewline)
      else (.mixed :: s, 0, false)
    else (s, 0, false)
  | .endTag _ =>
    if node.firstChild?.isSome then
      let noIndentation := s.inMixed || s.inSpacePreserve
      let s' : PStack := s.tail
      (s', if !noIndentation then s'.getIndentation else 0, s'.getNewline)
    else (s, 0, s.getNewline)
  | _ => (s, 0, false)

def prettifyHtmlAt (c : HtmlCtx) (suppress : List Nat) (t : Tree) (s : PStack) (path : Path) (o : Output) :
    PStack × Nat × Bool :=
  match t.at? path with
  | some node => prettifyHtml c suppress s node o
  | none => (s, 0, false)

/-- `" ".repeat(indentation * 2)`. -/
def htmlIndentBytes (n : Nat) : Str := (List.replicate (n * htmlIndentWidth) htmlIndentUnit).flatten

/-- `Html5Serializer::serialize_pretty(w, outputs, suppress)`: the indentation is written before
    `serialize_node` can fail. -/
def writeHtmlPrettyGo (c : HtmlCtx) (suppress : List Nat) (t : Tree) :
    PStack → HState → List (Path × Output) → Str × Outcome XotError Unit
  | _, _, [] => ([], .ok ())
  | ps, s, (p, o) :: rest =>
    let (ps', ind, nl) := prettifyHtmlAt c suppress t ps p o
    let pre := if ind > 0 then htmlIndentBytes ind else []
    match renderHtmlAt c t s p o with
    | .ok (s', tok) =>
      let (w, r) := writeHtmlPrettyGo c suppress t ps' s' rest
      (pre ++ htmlTokenBytes tok ++ (if nl then htmlNewline else []) ++ w, r)
    | .err e => (pre, .err e)
    | .panic => (pre, .panic)

/-! ### serialize.rs `Html5` -/

/-- `output::html5::Parameters`; `indentation = some suppress`. -/
structure HtmlParams where
  indentation : Option (List Nat) := none
  cdataSectionElements : List Nat := []
  deriving Repr, DecidableEq, Inhabited

/-- The serializer context `xot.html5()` + `Html5Serializer::new` set up. -/
def htmlCtx (env : Env) (p : HtmlParams) : HtmlCtx :=
  let (env', h) := Html5Elements.new env
  ⟨env', h, p.cdataSectionElements⟩

/-- `Html5Serializer::new`: the stack starts with `namespaces_in_scope(node)` minus an inherited
    default namespace other than the top element's own (it is not written, so it is no binding
    of the output); no element is open. -/
def htmlInitState (c : HtmlCtx) (t : Tree) (start : Path) : HState :=
  let topNamespace : Option Nat := match t.at? start with
    | some n => (match n.value with
      | .element name => some (c.env.nsOfName name)
      | _ => none)
    | none => none
  ⟨FStack.new (((namespacesInScope t start).getD []).filter
      (fun d => d.1 != Env.emptyPrefix || some d.2 == topNamespace)), []⟩

/-- `xot.html5().serialize_write(parameters, node, w)`: bytes written and how the call ended. -/
def serializeHtmlWrite (env : Env) (p : HtmlParams) (t : Tree) (start : Path) : Str × Outcome XotError Unit :=
  let c := htmlCtx env p
  let body := match p.indentation with
    | some suppress => writeHtmlPrettyGo c suppress t [] (htmlInitState c t start) (genOutputs t start)
    | none => writeHtmlGo c t (htmlInitState c t start) (genOutputs t start)
  (htmlDoctype ++ body.1, body.2)

/-! ### The same in front of a writer that can fail (`Model/Writer.lean`) -/

/-- The `write_all` calls of `Html5Serializer::serialize_node` once the token is rendered:
    `if data.space { w.write_all(b" ")?; }  w.write_all(data.text.as_bytes())?;`. -/
def htmlTokenCalls (k : OutputToken) : List Str := (if k.space then [htmlTokenSpace] else []) ++ [k.text]

/-- One `self.serialize_node(w, node, output)?` of `Html5Serializer::serialize`: `render_output(..)?`
    first, then the token's calls. -/
def htmlStepCalls (c : HtmlCtx) (t : Tree) (s : HState) (po : Path × Output) :
    List Str × Outcome XotError HState :=
  match renderHtmlAt c t s po.1 po.2 with
  | .ok (s', tok) => (htmlTokenCalls tok, .ok s')
  | .err e => ([], .err e)
  | .panic => ([], .panic)

/-- One iteration of `Html5Serializer::serialize_pretty`'s loop: indentation (`?`), `serialize_node`
    (render — may fail —, space, text), newline (`?`). -/
def htmlPrettyStepCalls (c : HtmlCtx) (suppress : List Nat) (t : Tree) (st : PStack × HState)
    (po : Path × Output) : List Str × Outcome XotError (PStack × HState) :=
  let (ps', ind, nl) := prettifyHtmlAt c suppress t st.1 po.1 po.2
  let pre : List Str := if ind > 0 then [htmlIndentBytes ind] else []
  match renderHtmlAt c t st.2 po.1 po.2 with
  | .ok (s', tok) => (pre ++ htmlTokenCalls tok ++ (if nl then [htmlNewline] else []), .ok (ps', s'))
  | .err e => (pre, .err e)
  | .panic => (pre, .panic)

/-- `xot.html5().serialize_write(parameters, node, w)` for any writer: `w.write_all(b"<!DOCTYPE html>")?`
    first, then `serialize_pretty(w, ..)?` / `serialize(w, ..)?`.  Bytes the writer holds at the end and
    how the call returns. -/
def serializeHtmlWriteW (P : WriterPolicy) (env : Env) (p : HtmlParams) (t : Tree) (start : Path) :
    Str × Outcome XotError Unit :=
  let c := htmlCtx env p
  match writeCalls P [] [htmlDoctype] with
  | .error b => (b, .err .io)
  | .ok h1 =>
    match p.indentation with
    | some suppress =>
      writeLoopW P (htmlPrettyStepCalls c suppress t) h1 ([], htmlInitState c t start) (genOutputs t start)
    | none => writeLoopW P (htmlStepCalls c t) h1 (htmlInitState c t start) (genOutputs t start)

/-- The calls `serialize_write` makes when none is refused, in order, and how it ends. -/
def serializeHtmlCalls (env : Env) (p : HtmlParams) (t : Tree) (start : Path) :
    List Str × Outcome XotError Unit :=
  let c := htmlCtx env p
  let body := match p.indentation with
    | some suppress =>
      callsLoop (htmlPrettyStepCalls c suppress t) ([], htmlInitState c t start) (genOutputs t start)
    | none => callsLoop (htmlStepCalls c t) (htmlInitState c t start) (genOutputs t start)
  ([htmlDoctype] ++ body.1, body.2)

/-- `xot.html5().serialize_string(parameters, node)`. -/
def serializeHtmlString (env : Env) (p : HtmlParams) (t : Tree) (start : Path) : Outcome XotError Str :=
  bufferToString (serializeHtmlWrite env p t start)

/-- `xot.html5().to_string(node)`. -/
def toHtmlString (env : Env) (t : Tree) (start : Path) : Outcome XotError Str :=
  serializeHtmlString env {} t start

end XotModel
