/-
  XotModel.Model.FspecSpec4 — the PAIR reading of C05's consolidation clause (`FspecSpec3.lean`)
  for the composite calls `element_unwrap` and `replace`, defined for EVERY forest — also one that
  already holds adjacent text nodes while consolidation is on (reachable only through
  `set_text_consolidation(false)` … `(true)`).  (`element_wrap` merges nothing: its specification
  `Spec.specWrap` of `FspecSpec.lean` is the pair reading already.)

  "Text nodes that BECOME adjacent are merged into the earlier one": exactly the pairs of child
  nodes that stand next to each other after the call and did not before it — never the whole run
  of text nodes such a pair may be part of.

  Written, like `FspecSpec.lean` / `FspecSpec3.lean`, on the `Forest` / `HTree` data type with the
  one-site edit `Forest.editAt` only — no reference to xot's statement order.
-/
import XotModel.Model.FspecSpec2
import XotModel.Model.FspecSpec3

namespace XotModel
namespace Spec

/-! ### element_unwrap -/

/-- **Unwrap**, pair reading: the wrapper `n` (between its raw neighbours `a` and `b`) is replaced
    by its normal children `k₁ … kₘ`, in order; then, from left to right, the pairs that have become
    adjacent are merged, the earlier node surviving: `(a, k₁)`, `(kₘ, b)`, and `(a, b)` when nothing
    is left between them (no child at all, or an only child that vanished into `a`).  Adjacent text
    nodes among `k₁ … kₘ`, or before `a`, or behind `b`, were adjacent before: they stay. -/
def specUnwrapP (n : Nat) (f : Forest) : Forest :=
  let old := f.parent? n
  let nb := f.nbOf n
  let K := (f.kidsOf n).filter (fun k => k.value.isNormal)
  let first := K.head?.map (·.handle)
  let last := K.getLast?.map (·.handle)
  (((f.editAt old (replaceTop n (fun w => w.kids.filter (fun k => k.value.isNormal)))).mergeLeftAt old
      (nb.1, first)).mergeLeftAt old (last, nb.2)).mergeLeftAt old nb

/-! ### replace -/

/-- The node `j` takes in its right neighbour if both are text nodes (`j` keeps its identity). -/
def absorbNext (j : HTree) : List HTree → List HTree
  | z :: rest => ((joinLeft j z).map (fun j' => j' :: rest)).getD (j :: z :: rest)
  | [] => [j]

/-- Like `mergeNew`: the text node `n` is merged into its left neighbour if that is a text node,
    else into its right neighbour if that is one.  In the first case the left neighbour now stands
    next to `n`'s former right neighbour: if that is a text node too, the two are merged as well
    (the three-way case `x n z`). -/
def mergeNew3 (n : Nat) : List HTree → List HTree
  | x :: y :: rest =>
    if y.handle = n then
      ((joinLeft x y).map (fun j => absorbNext j rest)).getD (x :: mergeNewHead y rest)
    else if x.handle = n then mergeNewHead x (y :: rest)
    else x :: mergeNew3 n (y :: rest)
  | l => l

end Spec

namespace Forest

/-- The merges at the place where a replacing node has arrived (`Spec.mergeNew3`). -/
def mergeNew3At (f : Forest) (q : Nat) (n : Nat) : Forest :=
  if f.consolidation then f.editAt (some q) (Spec.mergeNew3 n) else f

end Forest

namespace Spec

/-- **Replace**, pair reading, as the property demands it.  `new` already next to `old`: the
    call is `remove(old)` (`specRemoveP`: the two neighbours of `old` are merged, the earlier
    surviving — `new` itself when it is the left one).  Otherwise `new` leaves its place (the two
    text nodes it separated are merged), the subtree `old` disappears, `new` stands where `old`
    stood and is merged with the text node it now stands next to (`mergeNew3`: left neighbour
    first; then that neighbour with the text node behind, which it has become adjacent to). -/
def specReplaceP (old new : Nat) (f : Forest) : Forest :=
  if adjacentTo f old new then specRemoveP old f else
  match f.get? new, f.parent? old with
  | some t, some q =>
    let from_ := f.parent? new
    let nb := f.nbOf new
    let cut := f.editAt from_ (dropTop new)
    let put := cut.editAt (some q) (replaceTop old (fun _ => [t]))
    (put.mergeLeftAt from_ nb).mergeNew3At q new
  | _, _ => f

/-- The corner in which xot's `replace` used to leave two text nodes that had become adjacent
    unmerged (finding `C05:replace-selfmerge-leaves-adjacent-text`, fixed by xot 609b613; possible
    only in a forest that already holds adjacent text nodes): the children `… x new p old z …` with
    `x`, `new`, `p`, `z` text nodes.  When `new` leaves, `x` and `p` are merged (`p` disappears);
    `new`, put in the place of `old`, is merged into `x`; `x` now stands next to `z` and is merged
    with it (`mergeNew3`) — xot, which remembered `p` only, did not look.  Kept as the name of the
    geometry: the closed example in `Props/C05.lean` and the statistics of the `fspec` suite
    (`forest specpc`) show that it is exercised. -/
def selfMergeReplace (f : Forest) (old new : Nat) : Bool :=
  f.consolidation &&
  match f.ctx? new with
  | none => false
  | some c =>
    c.self.value.isText &&
    (match c.left.getLast? with | some x => x.value.isText | none => false) &&
    (match c.right with
     | p :: a :: z :: _ => p.value.isText && a.handle == old && z.value.isText
     | _ => false)

end Spec
end XotModel
