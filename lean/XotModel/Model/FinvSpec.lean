/-
  XotModel.Model.FinvSpec — histories for C04: the mutating calls as data (`Op`), one step of the
  store (`Forest.step`), and which calls the full preservation theorem of `Props/C04` covers
  (`Op.core`: every call).  Arguments are arbitrary numbers: a call on a handle that is not live is part of a
  history like any other.
-/
import XotModel.Model.ForestInv

namespace XotModel

/-- A mutating call of the public API (results are dropped: a history is driven by handles the
    caller already knows, and handles are creation-order numbers). -/
inductive Op where
  | newDocument
  | newElement (name : Nat)
  | newText (s : Str)
  | newComment (s : Str)
  | newPi (target : Nat) (data : Option Str)
  | newAttributeNode (name : Nat) (value : Str)
  | newNamespaceNode (pfx ns : Nat)
  | append (parent child : Nat)
  | prepend (parent child : Nat)
  | insertAfter (ref new : Nat)
  | insertBefore (ref new : Nat)
  | detach (node : Nat)
  | remove (node : Nat)
  | anyAppend (parent child : Nat)
  | appendAttributeNode (parent child : Nat)
  | appendNamespaceNode (parent child : Nat)
  | attrInsert (parent name : Nat) (value : Str)
  | nsInsert (parent pfx ns : Nat)
  | attrRemove (parent name : Nat)
  | nsRemove (parent pfx : Nat)
  | attrClear (parent : Nat)
  | nsClear (parent : Nat)
  | setElementName (node name : Nat)
  | setText (node : Nat) (s : Str)
  | setComment (node : Nat) (s : Str)
  | setPiData (node : Nat) (d : Option Str)
  | textContentSet (node : Nat) (s : Str)
  | setConsolidation (b : Bool)
  | removeInsignificantWhitespace (node : Nat)
  | replace (replaced replacing : Nat)
  | elementWrap (node name : Nat)
  | elementUnwrap (node : Nat)
  | cloneNode (node : Nat)

/-- The calls for which `Props/C04` proves preservation of the whole invariant: all of them (the
    predicate is kept so that the statements of `C04_step` / `C04_reach` stay as they were). -/
def Op.core : Op → Bool
  | _ => true

namespace Forest

/-- One call. -/
def step (f : Forest) : Op → Forest
  | .newDocument => f.newDocument.1
  | .newElement n => (f.newElement n).1
  | .newText s => (f.newText s).1
  | .newComment s => (f.newComment s).1
  | .newPi t d => (f.newPi t d).1
  | .newAttributeNode n v => (f.newAttributeNode n v).1
  | .newNamespaceNode p n => (f.newNamespaceNode p n).1
  | .append p c => (f.append p c).1
  | .prepend p c => (f.prepend p c).1
  | .insertAfter r n => (f.insertAfter r n).1
  | .insertBefore r n => (f.insertBefore r n).1
  | .detach n => (f.detach n).1
  | .remove n => (f.remove n).1
  | .anyAppend p c => (f.anyAppend p c).1
  | .appendAttributeNode p c => (f.appendEntryNode .attributes p c).1
  | .appendNamespaceNode p c => (f.appendEntryNode .namespaces p c).1
  | .attrInsert p n v => (f.mapInsert .attributes p (.attribute n v)).1
  | .nsInsert p pf ns => (f.mapInsert .namespaces p (.namespace pf ns)).1
  | .attrRemove p n => (f.mapRemove .attributes p n).1
  | .nsRemove p pf => (f.mapRemove .namespaces p pf).1
  | .attrClear p => (f.mapClear .attributes p).1
  | .nsClear p => (f.mapClear .namespaces p).1
  | .setElementName n name => (f.setElementName n name).1
  | .setText n s => (f.setText n s).1
  | .setComment n s => (f.setComment n s).1
  | .setPiData n d => (f.setPiData n d).1
  | .textContentSet n s => (f.textContentSet n s).1
  | .setConsolidation b => f.setConsolidation b
  | .removeInsignificantWhitespace n => f.removeInsignificantWhitespace n
  | .replace a b => (f.replace a b).1
  | .elementWrap n name => (f.elementWrap n name).1
  | .elementUnwrap n => (f.elementUnwrap n).1
  | .cloneNode n => (f.cloneNode n).1

/-- In strict mode (consolidation never switched off): both raw neighbours of `a` are text, so
    taking `a` out without consolidating leaves two adjacent text nodes.  `replace` and
    `element_wrap` pass through such a state before they repair it. -/
def textGap (f : Forest) (a : Nat) : Bool :=
  match f.ctx? a with
  | some c => !f.everOff && ((c.left.getLast?.map (·.value.isText)).getD false) &&
      ((c.right.head?.map (·.value.isText)).getD false)
  | none => false

/-- `clone_node` of an element replays the source under a temporary top element and finally takes
    the top out with indextree `remove`.  This says that after the replay the top is still a
    parentless node with at most one child (what the final `remove` needs). -/
def cloneTopOK (f : Forest) (node : Nat) : Bool :=
  match f.get? node with
  | none => true
  | some src =>
    match src.value with
    | .element name =>
      (match cloneInto (f.newElement name).1 (f.newElement name).2 src with
       | some f2 =>
         f2.isRoot (f.newElement name).2 &&
           (match f2.get? (f.newElement name).2 with
            | some t => decide (t.kids.length ≤ 1)
            | none => true)
       | none => true)
    | _ => true

/-- A history. -/
def run (f : Forest) (ops : List Op) : Forest := ops.foldl step f

end Forest
end XotModel
