/-
  XotModel.Model.TokenRender — the canonical spelling of a token list (specification side of the
  tokenizer contract, DESIGN.md section 6 (i)): the text a token list stands for when every token
  is written in the one way the XML serialiser writes it — one blank before an attribute, double
  quotes, no white space inside tags otherwise, `/>` for an empty element.

  Shared interface of three developments:
    * the reference tokenizer (`Model/Lex.lean`):  lexing `renderTokens ts` gives `ts` back
      (with the byte positions the rendering implies) when `ts` meets lexical side conditions;
    * the serialiser (`Model/Output.lean`):  `to_string` of a tree IS `renderTokens` of a token
      list read off the tree;
    * the builder (`Model/Parse.lean`):  `build` on that token list returns the tree.
  Positions play no role in `renderTokens`; `Token.erase` forgets them.
-/
import XotModel.Model.ParseTypes

namespace XotModel

/-- `prefix:local`, or `local` when the prefix is empty. -/
def tokQName (pfx loc : Str) : Str := if pfx.isEmpty then loc else pfx ++ ':' :: loc

/-- The canonical spelling of one token (DTD tokens and the XML declaration have none here:
    they render as nothing; a canonical token list does not contain them). -/
def renderToken : Token → Str
  | .elementStart p l _ => '<' :: tokQName p.text l.text
  | .attribute p l v _ => ' ' :: (tokQName p.text l.text ++ '=' :: '"' :: (v.text ++ ['"']))
  | .elementEnd .open _ => ['>']
  | .elementEnd .empty _ => ['/', '>']
  | .elementEnd (.close p l) _ => '<' :: '/' :: (tokQName p.text l.text ++ ['>'])
  | .text t => t.text
  | .cdata t _ => ['<', '!', '[', 'C', 'D', 'A', 'T', 'A', '['] ++ t.text ++ [']', ']', '>']
  | .comment t _ => ['<', '!', '-', '-'] ++ t.text ++ ['-', '-', '>']
  | .pi t none _ => '<' :: '?' :: (t.text ++ ['?', '>'])
  | .pi t (some c) _ => '<' :: '?' :: (t.text ++ ' ' :: (c.text ++ ['?', '>']))
  | .declaration _ _ _ _ => []
  | .dtdStart _ => []
  | .emptyDtd _ => []
  | .entityDecl _ => []
  | .dtdEnd _ => []

def renderTokens (ts : List Token) : Str := ts.flatMap renderToken

/-- Forget the byte position of a span. -/
def StrSpan.erase (s : StrSpan) : StrSpan := ⟨s.text, 0⟩

/-- Forget every byte position of a token, and the whole-token span (which xot never reads). -/
def Token.erase : Token → Token
  | .declaration v e s _ => .declaration v.erase (e.map StrSpan.erase) s ⟨[], 0⟩
  | .pi t c _ => .pi t.erase (c.map StrSpan.erase) ⟨[], 0⟩
  | .comment t _ => .comment t.erase ⟨[], 0⟩
  | .dtdStart _ => .dtdStart ⟨[], 0⟩
  | .emptyDtd _ => .emptyDtd ⟨[], 0⟩
  | .entityDecl _ => .entityDecl ⟨[], 0⟩
  | .dtdEnd _ => .dtdEnd ⟨[], 0⟩
  | .elementStart p l _ => .elementStart p.erase l.erase ⟨[], 0⟩
  | .attribute p l v _ => .attribute p.erase l.erase v.erase ⟨[], 0⟩
  | .elementEnd (.close p l) _ => .elementEnd (.close p.erase l.erase) ⟨[], 0⟩
  | .elementEnd .open _ => .elementEnd .open ⟨[], 0⟩
  | .elementEnd .empty _ => .elementEnd .empty ⟨[], 0⟩
  | .text t => .text t.erase
  | .cdata t _ => .cdata t.erase ⟨[], 0⟩

end XotModel
