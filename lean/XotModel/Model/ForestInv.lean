/-
  XotModel.Model.ForestInv — the structural invariant of C04 as decidable (Bool) predicates
  on the forest, so that it can be proved preserved, evaluated on examples by `decide`, and
  evaluated by the driver after every step of a correspondence run.
-/
import XotModel.Model.Manip2

namespace XotModel

/-- Rank of a category in the required child order: namespaces, attributes, normal. -/
def Category.rank : Category → Nat
  | .namespace => 0
  | .attribute => 1
  | .normal => 2

/-- Children come as namespaces, then attributes, then normal nodes. -/
def kidsOrdered : List HTree → Bool
  | [] => true
  | [_] => true
  | a :: b :: rest => a.value.category.rank ≤ b.value.category.rank && kidsOrdered (b :: rest)

/-- No two entries (attribute / namespace nodes) with the same key among the children. -/
def keysUnique (c : Category) (ks : List HTree) : Bool :=
  let keys := (ks.filter (fun k => k.value.category == c)).map (fun k => Forest.entryKey k.value)
  keys.Nodup

/-- No two adjacent text nodes. -/
def noAdjacentText : List HTree → Bool
  | [] => true
  | [_] => true
  | a :: b :: rest => !(a.value.isText && b.value.isText) && noAdjacentText (b :: rest)

/-- What may sit under a node with value `v`. -/
def kidAllowed (v : Value) (k : Value) : Bool :=
  match v with
  | .element _ => !k.isDocument
  | .document => k.isNormal && !k.isDocument
  | _ => false

mutual
  /-- Structural validity of a subtree (C04): leaves are leaves, attribute and namespace nodes
      only under elements, no document below the root, ordering, unique keys, and (when `strict`)
      no adjacent text. -/
  def validTree (strict : Bool) : HTree → Bool
    | .node _ v ks =>
      ks.all (fun k => kidAllowed v k.value) &&
      kidsOrdered ks && keysUnique .attribute ks && keysUnique .namespace ks &&
      (!strict || noAdjacentText ks) && validList strict ks
  def validList (strict : Bool) : List HTree → Bool
    | [] => true
    | k :: ks => validTree strict k && validList strict ks
end

namespace Forest

/-- The invariant of C04 on a forest. -/
def inv (f : Forest) : Bool :=
  !f.corrupt &&
  f.allHandles.Nodup &&
  f.allHandles.all (· < f.next) &&
  validList (!f.everOff) f.roots &&
  (f.consolidation || f.everOff)

/-- The empty store. -/
def init : Forest := {}

end Forest
end XotModel
