/-
  XotModel.Model.ValidDoc — access.rs `validate_well_formed_document`, AS WRITTEN.

    if value_type(node) != Document { return Err(NotDocument) }
    for child in self.children(node) {           // `children` = normal_children: skip_while(!is_normal)
        Element => element_count += 1,
        Text => return Err(TextAtTopLevel(child)),
        Comment | ProcessingInstruction => {},
        Document | Attribute | Namespace => return Err(IllegalAtTopLevel(child)),
    }
    if element_count == 0 { Err(NoElementAtTopLevel) } else if element_count > 1 { Err(Multiple…) } else { Ok(()) }

  The first offending child decides; the element count is looked at only after the whole loop.
  `wellFormedDocument` is the decidable specification the C03 theorems compare it with.
-/
import XotModel.Model.Tree
import XotModel.Model.OutputTypes

namespace XotModel

instance : DecidableEq (Except XotError Unit) := fun a b =>
  match a, b with
  | .ok (), .ok () => isTrue rfl
  | .error x, .error y =>
    if h : x = y then isTrue (by rw [h]) else isFalse (by intro h'; cases h'; exact h rfl)
  | .ok _, .error _ => isFalse (by intro h; cases h)
  | .error _, .ok _ => isFalse (by intro h; cases h)

/-- The `for child in self.children(node)` loop, carrying `element_count`. -/
def validateScan : List Tree → Nat → Except XotError Nat
  | [], n => .ok n
  | k :: ks, n =>
    match k.value with
    | .element _ => validateScan ks (n + 1)
    | .text _ => .error .textAtTopLevel
    | .comment _ => validateScan ks n
    | .pi _ _ => validateScan ks n
    | .document => .error .illegalAtTopLevel
    | .attribute _ _ => .error .illegalAtTopLevel
    | .namespace _ _ => .error .illegalAtTopLevel

/-- The two tests on `element_count` after the loop. -/
def validateCount (n : Nat) : Except XotError Unit :=
  if n = 0 then .error .noElementAtTopLevel
  else if n > 1 then .error .multipleElementsAtTopLevel
  else .ok ()

/-- `Xot::validate_well_formed_document(node)`, on the subtree at `node`. -/
def validateWellFormedDocument (t : Tree) : Except XotError Unit :=
  if t.value.isDocument = false then .error .notDocument
  else
    match validateScan t.normalKids 0 with
    | .error e => .error e
    | .ok n => validateCount n

/-- Comment or processing instruction: "these we can have as many as we like". -/
def Value.isCommentOrPi : Value → Bool
  | .comment _ => true
  | .pi _ _ => true
  | _ => false

/-- The decidable specification: a document node whose normal children are exactly one element plus
    comments / processing instructions, in any order. -/
def wellFormedDocument (t : Tree) : Bool :=
  t.value.isDocument &&
    t.normalKids.all (fun k => k.value.isElement || k.value.isCommentOrPi) &&
    (t.normalKids.filter (fun k => k.value.isElement)).length == 1

end XotModel
