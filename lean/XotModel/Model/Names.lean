/-
  XotModel.Model.Names — names in scope.

  * the read-only NodeMap views over namespace / attribute children (nodemap/core.rs `iter`)
  * the ancestor-or-self chain of a node given as tree + path
  * `namespace_traverse` = `namespaces_in_scope` (nameaccess.rs)
  * `FullnameInfo` / `FullnameSerializer` (output/fullname.rs): the stack of flattened
    (prefix, namespace) lists used by the serialisers and by create_missing_prefixes,
    unresolved_namespaces.
-/
import XotModel.Model.Tree
import XotModel.Model.Env
import XotModel.Model.OutputTypes

namespace XotModel

/-- `(PrefixId, NamespaceId)` pairs, in node order: `xot.namespaces(node).iter()` =
    `namespace_declarations(node)`. -/
def Tree.nsDecls (t : Tree) : List (Nat × Nat) :=
  t.namespaceNodes.filterMap fun k => match k.value with
    | .namespace p n => some (p, n)
    | _ => none

/-- `(NameId, value)` pairs, in node order: `xot.attributes(node).iter()`. -/
def Tree.attrs (t : Tree) : List (Nat × Str) :=
  t.attributeNodes.filterMap fun k => match k.value with
    | .attribute n v => some (n, v)
    | _ => none

/-- `NodeMap::get`: first entry with the key. -/
def Tree.getNamespace (t : Tree) (p : Nat) : Option Nat := t.nsDecls.lookup p
def Tree.getAttribute (t : Tree) (n : Nat) : Option Str := t.attrs.lookup n

/-- Subtrees on the way from the root to `path`, nearest (the node itself) first:
    `node.ancestors()` of indextree (which starts with the node itself). `none` if the path
    does not exist. -/
def Tree.ancestorsOrSelf : Tree → Path → Option (List Tree)
  | t, [] => some [t]
  | t, i :: p =>
    match t.kids[i]? with
    | none => none
    | some k => (Tree.ancestorsOrSelf k p).map (· ++ [t])

/-- `base_prefixes()`: the `xml` binding. -/
def basePrefixes : List (Nat × Nat) := [(Env.xmlPrefix, Env.xmlNamespace)]

/-- One step of the `namespace_traverse` loop over one `(prefix, namespace)` list:
    returns the extended `seen` list and the yielded pairs. -/
def traverseDecls : List Nat → List (Nat × Nat) → List Nat × List (Nat × Nat)
  | seen, [] => (seen, [])
  | seen, (p, n) :: rest =>
    if seen.contains p then traverseDecls seen rest
    else
      let undeclaration := (p == Env.emptyPrefix) && (n == Env.noNamespace)
      let (seen', out) := traverseDecls (seen ++ [p]) rest
      (seen', if undeclaration then out else (p, n) :: out)

/-- The loop over the ancestor chain (nearest first). -/
def traverseChain : List Nat → List Tree → List Nat × List (Nat × Nat)
  | seen, [] => (seen, [])
  | seen, t :: rest =>
    let (seen1, out1) := traverseDecls seen t.nsDecls
    let (seen2, out2) := traverseChain seen1 rest
    (seen2, out1 ++ out2)

/-- `namespace_traverse(xot, node)` = `namespaces_in_scope(node)`, for the node whose
    ancestor-or-self chain (nearest first) is `chain`. -/
def namespacesInScopeChain (chain : List Tree) : List (Nat × Nat) :=
  let (seen, out) := traverseChain [] chain
  out ++ basePrefixes.filter (fun (p, _) => !seen.contains p)

def namespacesInScope (t : Tree) (path : Path) : Option (List (Nat × Nat)) :=
  (t.ancestorsOrSelf path).map namespacesInScopeChain

/-! ### output/fullname.rs -/

/-- `FullnameInfo::new(node_namespaces, current)`: drop overridden prefixes, append the node's. -/
def fullnameInfoNew (nodeNs cur : List (Nat × Nat)) : List (Nat × Nat) :=
  cur.filter (fun (p, _) => !nodeNs.any (fun (p2, _) => p2 == p)) ++ nodeNs

/-- `prefixes_by_namespace`: most recent first. -/
def prefixesByNamespace (info : List (Nat × Nat)) (ns : Nat) : List Nat :=
  (info.reverse.filter (fun (_, n) => n == ns)).map (·.1)

/-- `element_prefix_by_namespace`: the empty prefix if bound to `ns`, else the most recent. -/
def elementPrefixByNamespace (info : List (Nat × Nat)) (ns : Nat) : Option Nat :=
  if (prefixesByNamespace info ns).any (· == Env.emptyPrefix) then some Env.emptyPrefix
  else (prefixesByNamespace info ns).head?

/-- `attribute_prefix_by_namespace`: the most recent non-empty prefix. -/
def attributePrefixByNamespace (info : List (Nat × Nat)) (ns : Nat) : Option Nat :=
  (prefixesByNamespace info ns).find? (· != Env.emptyPrefix)

/-- `FullnameSerializer`: the stack, top first. Never empty in use (`new` pushes one frame). -/
abbrev FStack := List (List (Nat × Nat))

def FStack.new (defined : List (Nat × Nat)) : FStack := [defined]
def FStack.top (s : FStack) : List (Nat × Nat) := s.headD []

/-- `push`: nothing happens for an element without declarations. -/
def FStack.push (s : FStack) (decls : List (Nat × Nat)) : FStack :=
  if decls.isEmpty then s else fullnameInfoNew decls s.top :: s

/-- `pop(has_namespaces)`. -/
def FStack.pop (s : FStack) (hasNamespaces : Bool) : FStack :=
  if hasNamespaces then s.tail else s

/-- `add_empty_prefix` (HTML serialiser). -/
def FStack.addEmptyPrefix (s : FStack) (ns : Nat) : FStack :=
  match s with
  | [] => []
  | top :: rest => (top ++ [(Env.emptyPrefix, ns)]) :: rest

/-- `has_default_namespace`: some entry of the top frame binds the empty prefix to a namespace
    other than the no-namespace id. -/
def FStack.hasDefaultNamespace (s : FStack) : Bool :=
  s.top.any (fun d => d.1 == Env.emptyPrefix && d.2 != Env.noNamespace)

def FStack.hasEmptyPrefix (s : FStack) (ns : Nat) : Bool :=
  elementPrefixByNamespace s.top ns == some Env.emptyPrefix

/-- `element_prefix`: `ok none` = unprefixed, `ok (some p)`, or `MissingPrefix`. -/
def FStack.elementPrefix (env : Env) (s : FStack) (name : Nat) : Except XotError (Option Nat) :=
  let ns := env.nsOfName name
  if ns == Env.noNamespace then .ok none
  else if ns == Env.xmlNamespace then .ok (some Env.xmlPrefix)
  else match elementPrefixByNamespace s.top ns with
    | some p => if p == Env.emptyPrefix then .ok none else .ok (some p)
    | none => .error (.missingPrefix ns)

def FStack.attributePrefix (env : Env) (s : FStack) (name : Nat) : Except XotError (Option Nat) :=
  let ns := env.nsOfName name
  if ns == Env.noNamespace then .ok none
  else if ns == Env.xmlNamespace then .ok (some Env.xmlPrefix)
  else match attributePrefixByNamespace s.top ns with
    | some p => .ok (some p)
    | none => .error (.missingPrefix ns)

/-- `prefix:local` or `local`. -/
def qname (env : Env) (p : Option Nat) (name : Nat) : Str :=
  match p with
  | some p => env.prefixStr p ++ [':'] ++ env.localName name
  | none => env.localName name

def FStack.elementFullname (env : Env) (s : FStack) (name : Nat) : Except XotError Str :=
  match s.elementPrefix env name with
  | .ok p => .ok (qname env p name)
  | .error e => .error e

def FStack.attributeFullname (env : Env) (s : FStack) (name : Nat) : Except XotError Str :=
  match s.attributePrefix env name with
  | .ok p => .ok (qname env p name)
  | .error e => .error e

end XotModel
