/-
  XotModel.Model.Manip — xot's manipulation functions on the forest, in the order the Rust
  performs their steps (manipulation.rs, nodemap/core.rs, creation.rs, valueaccess.rs setters).

  Every function returns the state reached together with the outcome, because the Rust may
  mutate before it fails.
-/
import XotModel.Model.Forest
import XotModel.Model.OutputTypes

namespace XotModel

/-- Outcome of a `Result<(), Error>`-returning call. -/
inductive Res where
  | ok
  | err (e : XotError)
  | panic
  deriving Repr, DecidableEq, Inhabited

namespace Forest

/-! ### Navigation as in access.rs -/

def category? (f : Forest) (h : Nat) : Option Category := (f.value? h).map (·.category)

def isNormalNode (f : Forest) (h : Nat) : Bool := (f.value? h).map (·.isNormal) == some true
def isElement (f : Forest) (h : Nat) : Bool := (f.value? h).map (·.isElement) == some true
def isText (f : Forest) (h : Nat) : Bool := (f.value? h).map (·.isText) == some true
def isDocument (f : Forest) (h : Nat) : Bool := (f.value? h).map (·.isDocument) == some true

/-- `previous_sibling`: the raw previous sibling if it has the same category. -/
def prevSibling (f : Forest) (h : Nat) : Option Nat :=
  match f.ctx? h with
  | none => none
  | some c =>
    match c.left.getLast? with
    | none => none
    | some p => if p.value.category == c.self.value.category then some p.handle else none

/-- `next_sibling`. -/
def nextSibling (f : Forest) (h : Nat) : Option Nat :=
  match f.ctx? h with
  | none => none
  | some c =>
    match c.right.head? with
    | none => none
    | some n => if n.value.category == c.self.value.category then some n.handle else none

/-- `first_child`: first of the normal children (`skip_while !is_normal`). -/
def firstChild (f : Forest) (h : Nat) : Option Nat :=
  match f.get? h with
  | none => none
  | some t => ((t.kids.dropWhile (fun k => !k.value.isNormal)).head?).map (·.handle)

/-- `last_child`: the raw last child if it is normal. -/
def lastChild (f : Forest) (h : Nat) : Option Nat :=
  match f.get? h with
  | none => none
  | some t =>
    match t.kids.getLast? with
    | none => none
    | some k => if k.value.isNormal then some k.handle else none

def textOf (f : Forest) (h : Nat) : Option Str :=
  match f.value? h with
  | some (.text s) => some s
  | _ => none

/-! ### Consolidation helpers -/

/-- `remove_consolidate_text_nodes(prev, next)`. -/
def removeConsolidate (f : Forest) (prev next : Option Nat) : Forest × Bool :=
  if !f.consolidation then (f, false) else
  match prev, next with
  | some p, some n =>
    (match f.textOf p, f.textOf n with
     | some ps, some ns => ((f.setValue p (.text (ps ++ ns))).spliceOut n, true)
     | _, _ => (f, false))
  | _, _ => (f, false)

/-- `add_consolidate_text_nodes(node, prev, next)`. -/
def addConsolidate (f : Forest) (node : Nat) (prev next : Option Nat) : Forest × Bool :=
  if !f.consolidation then (f, false) else
  -- consolidating the place the node comes from may already have brought it to the requested
  -- place: its neighbours there are its own siblings then (xot eccbbb7)
  let prev := if prev == some node then f.prevSibling node else prev
  let next := if next == some node then f.nextSibling node else next
  match f.textOf node with
  | none => (f, false)
  | some added =>
    let viaPrev : Option Forest :=
      match prev with
      | some p => (match f.textOf p with
          | some ps => some ((f.setValue p (.text (ps ++ added))).spliceOut node)
          | none => none)
      | none => none
    match viaPrev with
    | some f' => (f', true)
    | none =>
      match next with
      | some n => (match f.textOf n with
          | some ns => ((f.setValue n (.text (added ++ ns))).spliceOut node, true)
          | none => (f, false))
      | none => (f, false)

/-! ### Checks -/

/-- `add_structure_check(parent, child)`. -/
def structureCheck (f : Forest) (parent : Option Nat) (child : Nat) : Bool :=
  match parent with
  | none => false
  | some p =>
    (f.isElement p || f.isDocument p) &&
    !(f.ancestors p).contains child &&
    (match f.value? child with
     | some .document => false
     | some (.attribute _ _) => false
     | some (.namespace _ _) => false
     | some _ => true
     | none => false)

/-- `sibling_reference_check(reference, new_sibling)`. -/
def siblingReferenceCheck (f : Forest) (ref new : Nat) : Bool :=
  ref != new && f.isNormalNode ref

/-! ### Moves -/

/-- `append(parent, child)`. -/
def append (f : Forest) (parent child : Nat) : Forest × Res :=
  if !f.structureCheck (some parent) child then (f, .err .invalidOperation) else
  if f.lastChild parent == some child then (f, .ok) else
  let (f1, _) := f.removeConsolidate (f.prevSibling child) (f.nextSibling child)
  let (f2, c) := f1.addConsolidate child (f1.lastChild parent) none
  if c then (f2, .ok) else
  let (f3, okb) := f2.checkedAppend parent child
  if okb then (f3, .ok) else (f3, .err .nodeError)

/-- The insertion point of `prepend`: the last non-normal child. -/
def prependPoint (f : Forest) (parent : Nat) : Option Nat :=
  match f.get? parent with
  | none => none
  | some t => ((t.kids.takeWhile (fun k => k.value.category != .normal)).getLast?).map (·.handle)

/-- `prepend(parent, child)`. -/
def prepend (f : Forest) (parent child : Nat) : Forest × Res :=
  if !f.structureCheck (some parent) child then (f, .err .invalidOperation) else
  if f.firstChild parent == some child then (f, .ok) else
  let (f1, _) := f.removeConsolidate (f.prevSibling child) (f.nextSibling child)
  let (f2, c) := f1.addConsolidate child none (f1.firstChild parent)
  if c then (f2, .ok) else
  let (f3, okb) :=
    match f2.prependPoint parent with
    | some ip => f2.checkedInsertAfter ip child
    | none => f2.checkedPrepend parent child
  if okb then (f3, .ok) else (f3, .err .nodeError)

/-- `insert_after(reference_node, new_sibling)`. -/
def insertAfter (f : Forest) (ref new : Nat) : Forest × Res :=
  if !f.structureCheck (f.parent? ref) new then (f, .err .invalidOperation) else
  if !f.siblingReferenceCheck ref new then (f, .err .invalidOperation) else
  if f.nextSibling ref == some new then (f, .ok) else
  let oldPrev := f.prevSibling new
  let oldNext := f.nextSibling new
  let (f1, c1) := f.removeConsolidate oldPrev oldNext
  let ref' := if c1 && oldNext == some ref then oldPrev.getD ref else ref
  let (f2, c) := f1.addConsolidate new (some ref') (f1.nextSibling ref')
  if c then (f2, .ok) else
  let (f3, okb) := f2.checkedInsertAfter ref' new
  if okb then (f3, .ok) else (f3, .err .nodeError)

/-- `insert_before(reference_node, new_sibling)`. -/
def insertBefore (f : Forest) (ref new : Nat) : Forest × Res :=
  if !f.structureCheck (f.parent? ref) new then (f, .err .invalidOperation) else
  if !f.siblingReferenceCheck ref new then (f, .err .invalidOperation) else
  if f.prevSibling ref == some new then (f, .ok) else
  let (f1, _) := f.removeConsolidate (f.prevSibling new) (f.nextSibling new)
  let (f2, c) := f1.addConsolidate new (f1.prevSibling ref) (some ref)
  if c then (f2, .ok) else
  let (f3, okb) := f2.checkedInsertBefore ref new
  if okb then (f3, .ok) else (f3, .err .nodeError)

/-- `detach(node)`. -/
def detach (f : Forest) (node : Nat) : Forest × Res :=
  let prev := f.prevSibling node
  let next := f.nextSibling node
  let f1 := f.detachRaw node
  ((f1.removeConsolidate prev next).1, .ok)

/-- `remove(node)`. -/
def remove (f : Forest) (node : Nat) : Forest × Res :=
  let prev := f.prevSibling node
  let next := f.nextSibling node
  let f1 := f.dropSubtree node
  ((f1.removeConsolidate prev next).1, .ok)

/-! ### Creation -/

def newDocument (f : Forest) : Forest × Nat := f.newNode .document
def newElement (f : Forest) (name : Nat) : Forest × Nat := f.newNode (.element name)
def newText (f : Forest) (s : Str) : Forest × Nat := f.newNode (.text s)
def newComment (f : Forest) (s : Str) : Forest × Nat := f.newNode (.comment s)
def newPi (f : Forest) (t : Nat) (d : Option Str) : Forest × Nat := f.newNode (.pi t d)
def newAttributeNode (f : Forest) (n : Nat) (v : Str) : Forest × Nat := f.newNode (.attribute n v)
def newNamespaceNode (f : Forest) (p n : Nat) : Forest × Nat := f.newNode (.namespace p n)

/-! ### NodeMap (mutable view) -/

/-- Which map: attributes (key = name id) or namespaces (key = prefix id). -/
inductive MapKind where
  | attributes | namespaces
  deriving Repr, DecidableEq, Inhabited

def MapKind.matches : MapKind → Value → Bool
  | .attributes, .attribute _ _ => true
  | .namespaces, .namespace _ _ => true
  | _, _ => false

/-- Key of an entry node (`A::key`). -/
def entryKey : Value → Nat
  | .attribute n _ => n
  | .namespace p _ => p
  | _ => 0

/-- `A::children(xot, parent)`. -/
def mapChildren (k : MapKind) (t : HTree) : List HTree :=
  match k with
  | .namespaces => t.kids.takeWhile (fun c => c.value.category == .namespace)
  | .attributes =>
    (t.kids.dropWhile (fun c => c.value.category == .namespace)).takeWhile (fun c => c.value.category == .attribute)

/-- `get_node(key)`. -/
def mapGetNode (f : Forest) (k : MapKind) (parent key : Nat) : Option HTree :=
  match f.get? parent with
  | none => none
  | some t => (mapChildren k t).find? (fun c => entryKey c.value == key)

/-- `A::insertion_point`. -/
def mapInsertionPoint (f : Forest) (k : MapKind) (parent : Nat) : Option Nat :=
  match f.get? parent with
  | none => none
  | some t =>
    match (mapChildren k t).getLast? with
    | some l => some l.handle
    | none =>
      match k with
      | .namespaces => none
      | .attributes => ((t.kids.takeWhile (fun c => c.value.category == .namespace)).getLast?).map (·.handle)

/-- Place an entry node at the insertion point (`checked_insert_after(...).unwrap()` /
    `checked_prepend(...).unwrap()`): a refused indextree call is a panic. -/
def mapPlace (f : Forest) (k : MapKind) (parent node : Nat) : Forest × Res :=
  let (f', okb) :=
    match f.mapInsertionPoint k parent with
    | some ip => f.checkedInsertAfter ip node
    | none => f.checkedPrepend parent node
  if okb then (f', .ok) else (f', .panic)

/-- Payload update of an entry (`A::update`). -/
def entryUpdate (old new : Value) : Value :=
  match old, new with
  | .attribute n _, .attribute _ v => .attribute n v
  | .namespace p _, .namespace _ ns => .namespace p ns
  | o, _ => o

/-- `MutableNodeMap::insert(key, value)` with the new entry given as a value. -/
def mapInsert (f : Forest) (k : MapKind) (parent : Nat) (entry : Value) : Forest × Res :=
  if !f.isElement parent then (f, .panic) else
  match f.mapGetNode k parent (entryKey entry) with
  | some n => (f.setValue n.handle (entryUpdate n.value entry), .ok)
  | none =>
    let (f1, h) := f.newNode entry
    f1.mapPlace k parent h

/-- `MutableNodeMap::insert_node(node)`; returns the node that now carries the entry. -/
def mapInsertNode (f : Forest) (k : MapKind) (parent node : Nat) : Forest × Res × Nat :=
  match f.value? node with
  | none => (f, .panic, node)
  | some v =>
    if !k.matches v then (f, .panic, node) else
    match f.mapGetNode k parent (entryKey v) with
    | some e => (f.setValue e.handle (entryUpdate e.value v), .ok, e.handle)
    | none =>
      let (f', r) := f.mapPlace k parent node
      (f', r, node)

/-- `MutableNodeMap::remove(key)`. -/
def mapRemove (f : Forest) (k : MapKind) (parent key : Nat) : Forest × Res :=
  if !f.isElement parent then (f, .panic) else
  match f.mapGetNode k parent key with
  | some n => f.remove n.handle
  | none => (f, .ok)

/-- `MutableNodeMap::clear()`. -/
def mapClear (f : Forest) (k : MapKind) (parent : Nat) : Forest × Res :=
  if !f.isElement parent then (f, .panic) else
  match f.get? parent with
  | none => (f, .ok)
  | some t => ((mapChildren k t).foldl (fun acc c => (acc.remove c.handle).1) f, .ok)

/-- `append_namespace_node` / `append_attribute_node`. -/
def appendEntryNode (f : Forest) (k : MapKind) (parent child : Nat) : Forest × Res × Nat :=
  if !f.isElement parent then (f, .err .invalidOperation, child) else
  match f.value? child with
  | none => (f, .panic, child)
  | some v =>
    if !k.matches v then (f, .err .invalidOperation, child) else
    f.mapInsertNode k parent child

/-- What `any_append` answers after `append(parent, child)?`: `child`, unless text consolidation
    merged it away (`is_removed(child)`), then `last_child(parent).unwrap_or(child)`: the text node
    that took the content in.  On an error (`?`) there is no node; the model keeps `child`. -/
def anyAppendRet (f' : Forest) (r : Res) (parent child : Nat) : Nat :=
  if r == .ok && f'.isRemoved child then (f'.lastChild parent).getD child else child

/-- `any_append(parent, child)`; returns the node that now carries the content. -/
def anyAppend (f : Forest) (parent child : Nat) : Forest × Res × Nat :=
  match f.value? child with
  | some (.namespace _ _) => f.appendEntryNode .namespaces parent child
  | some (.attribute _ _) => f.appendEntryNode .attributes parent child
  | _ =>
    let (f', r) := f.append parent child
    (f', r, anyAppendRet f' r parent child)

/-! ### Setters -/

/-- `set_element_name`. -/
def setElementName (f : Forest) (node name : Nat) : Forest × Res :=
  if f.isElement node then (f.setValue node (.element name), .ok) else (f, .panic)

/-- `text_mut(node).set(s)` (through `text_mut`, which is `None` for non-text nodes). -/
def setText (f : Forest) (node : Nat) (s : Str) : Forest × Res :=
  if f.isText node then (f.setValue node (.text s), .ok) else (f, .err .invalidOperation)

/-- Does the string contain `--`? -/
def hasDoubleDash : Str → Bool
  | a :: b :: rest => (a == '-' && b == '-') || hasDoubleDash (b :: rest)
  | _ => false

/-- `comment_mut(node).set(s)`. -/
def setComment (f : Forest) (node : Nat) (s : Str) : Forest × Res :=
  match f.value? node with
  | some (.comment _) =>
    if hasDoubleDash s then (f, .err .invalidComment) else (f.setValue node (.comment s), .ok)
  | _ => (f, .err .invalidOperation)

/-- `processing_instruction_mut(node).set_data(d)`: empty data is stored as `None`. -/
def setPiData (f : Forest) (node : Nat) (d : Option Str) : Forest × Res :=
  match f.value? node with
  | some (.pi t _) =>
    let d' := match d with | some [] => none | x => x
    (f.setValue node (.pi t d'), .ok)
  | _ => (f, .err .invalidOperation)

/-- `text_content_mut(node)` followed by `set(s)` on the text it returns (`None` = no text
    content to set: reported as `invalidOperation`). -/
def textContentSet (f : Forest) (node : Nat) (s : Str) : Forest × Res :=
  match f.firstChild node with
  | some child =>
    if (f.nextSibling child).isSome then (f, .err .invalidOperation)
    else if f.isText child then (f.setValue child (.text s), .ok)
    else (f, .err .invalidOperation)
  | none =>
    if f.isElement node then
      let (f1, t) := f.newText []
      let (f2, r) := f1.append node t
      match r with
      | .ok =>
        (match f2.firstChild node with
         | some c => if f2.isText c then (f2.setValue c (.text s), .ok) else (f2, .panic)
         | none => (f2, .panic))
      | _ => (f2, .panic)
    else (f, .err .invalidOperation)

/-- `set_text_consolidation`. -/
def setConsolidation (f : Forest) (b : Bool) : Forest :=
  { f with consolidation := b, everOff := f.everOff || !b }

end Forest
end XotModel
