/-
  XotModel.Model.Fcreation — the convenience functions of the public mutating API that are
  COMPOSITIONS of a node creation and one call of the forest model (creation.rs, manipulation.rs),
  the thin wrappers around the node-map views, and the value setters reached through
  `element_mut` / `attribute_node_mut` / `namespace_node_mut` / `processing_instruction_mut` /
  `text_mut().get_mut()` / `value_mut` (valueaccess.rs, xmlvalue.rs).

  Every function is written as the sequence the Rust performs: the node is created FIRST
  (`new_text`, `new_element`, …, `new_namespace_node`), then `append` / `append_namespace_node` is
  called and may refuse; a refused call therefore leaves the fresh node behind, parentless and
  unreachable (no handle to it was ever handed out).  `Forest.newDocumentWithElement`
  (creation.rs) is in `Model/Fixed.lean`: it checks `is_element` first, so its refusal creates
  nothing.
-/
import XotModel.Model.Fixed

namespace XotModel
namespace Forest

/-! ### `append_text`, `append_element`, `append_comment`, `append_processing_instruction` -/

/-- `let n = self.new_…(…); self.append(parent, n)?; Ok(())` with the value of the new node. -/
def appendNew (f : Forest) (parent : Nat) (v : Value) : Forest × Res :=
  (f.newNode v).1.append parent (f.newNode v).2

/-- `append_text(parent, text)`. -/
def appendText (f : Forest) (parent : Nat) (s : Str) : Forest × Res := f.appendNew parent (.text s)
/-- `append_element(parent, name)`. -/
def appendElement (f : Forest) (parent name : Nat) : Forest × Res := f.appendNew parent (.element name)
/-- `append_comment(parent, comment)` (`new_comment` does not validate the text). -/
def appendComment (f : Forest) (parent : Nat) (s : Str) : Forest × Res := f.appendNew parent (.comment s)
/-- `append_processing_instruction(parent, target, data)` (`new_processing_instruction` stores the
    data as given, empty data included). -/
def appendPi (f : Forest) (parent target : Nat) (d : Option Str) : Forest × Res :=
  f.appendNew parent (.pi target d)

/-- `append_namespace(parent, CreateNamespace {prefix, namespace})`: `new_namespace_node`, then
    `append_namespace_node`; returns the node that now carries the declaration (the existing node
    of the prefix, if there is one: the fresh node then stays behind unattached). -/
def appendNamespace (f : Forest) (parent pfx ns : Nat) : Forest × Res × Nat :=
  (f.newNode (.namespace pfx ns)).1.appendEntryNode .namespaces parent (f.newNode (.namespace pfx ns)).2

/-! ### Wrappers around the node-map views -/

/-- `set_attribute(node, name, value)` = `attributes_mut(node).insert(name, value)`. -/
def setAttribute (f : Forest) (node name : Nat) (v : Str) : Forest × Res :=
  f.mapInsert .attributes node (.attribute name v)
/-- `remove_attribute(node, name)` = `attributes_mut(node).remove(name)`. -/
def removeAttribute (f : Forest) (node name : Nat) : Forest × Res := f.mapRemove .attributes node name
/-- `set_namespace(node, prefix, ns)` = `namespaces_mut(node).insert(prefix, ns)`. -/
def setNamespace (f : Forest) (node pfx ns : Nat) : Forest × Res :=
  f.mapInsert .namespaces node (.namespace pfx ns)
/-- `remove_namespace(node, prefix)` = `namespaces_mut(node).remove(prefix)`. -/
def removeNamespace (f : Forest) (node pfx : Nat) : Forest × Res := f.mapRemove .namespaces node pfx

/-! ### Value setters (a `None` from the typed accessor is reported as `invalidOperation`) -/

/-- `element_mut(node)?.set_name(name)` (unlike `set_element_name` it does not panic). -/
def elementSetName (f : Forest) (node name : Nat) : Forest × Res :=
  if f.isElement node then (f.setValue node (.element name), .ok) else (f, .err .invalidOperation)

/-- `attribute_node_mut(node)?.set_value(s)`. -/
def attributeSetValue (f : Forest) (node : Nat) (s : Str) : Forest × Res :=
  match f.value? node with
  | some (.attribute n _) => (f.setValue node (.attribute n s), .ok)
  | _ => (f, .err .invalidOperation)

/-- `namespace_node_mut(node)?.set_namespace(ns)`. -/
def namespaceSetNamespace (f : Forest) (node ns : Nat) : Forest × Res :=
  match f.value? node with
  | some (.namespace p _) => (f.setValue node (.namespace p ns), .ok)
  | _ => (f, .err .invalidOperation)

/-- `processing_instruction_mut(node)?.set_target(target)` (always `Ok`). -/
def piSetTarget (f : Forest) (node target : Nat) : Forest × Res :=
  match f.value? node with
  | some (.pi _ d) => (f.setValue node (.pi target d), .ok)
  | _ => (f, .err .invalidOperation)

/-- `text_mut(node)?.get_mut().push_str(s)`. -/
def textPush (f : Forest) (node : Nat) (s : Str) : Forest × Res :=
  match f.value? node with
  | some (.text old) => (f.setValue node (.text (old ++ s)), .ok)
  | _ => (f, .err .invalidOperation)

/-- `match value_mut(node) { Text(t) => t.set(s), Comment(c) => c.set(s)?, Attribute(a) =>
    a.set_value(s), ProcessingInstruction(p) => p.set_data(Some(s)), _ => refused }`: the route
    through `value_mut` shown in its documentation. -/
def valueMutSet (f : Forest) (node : Nat) (s : Str) : Forest × Res :=
  match f.value? node with
  | some (.text _) => f.setText node s
  | some (.comment _) => f.setComment node s
  | some (.attribute _ _) => f.attributeSetValue node s
  | some (.pi _ _) => f.setPiData node (some s)
  | _ => (f, .err .invalidOperation)

/-! ### The calls as data -/

/-- A call of this file (plus `new_document_with_element`). -/
inductive COp where
  | newDocumentWithElement (node : Nat)
  /-- `append_text` / `append_element` / `append_comment` / `append_processing_instruction` -/
  | appendNew (parent : Nat) (v : Value)
  | appendNamespace (parent pfx ns : Nat)
  | setAttribute (node name : Nat) (v : Str)
  | removeAttribute (node name : Nat)
  | setNamespace (node pfx ns : Nat)
  | removeNamespace (node pfx : Nat)
  | elementSetName (node name : Nat)
  | attributeSetValue (node : Nat) (s : Str)
  | namespaceSetNamespace (node ns : Nat)
  | piSetTarget (node target : Nat)
  | textPush (node : Nat) (s : Str)
  | valueMutSet (node : Nat) (s : Str)

/-- State reached and outcome. -/
def COp.run (f : Forest) : COp → Forest × Res
  | .newDocumentWithElement n => ((f.newDocumentWithElement n).1, (f.newDocumentWithElement n).2.1)
  | .appendNew p v => f.appendNew p v
  | .appendNamespace p pfx ns => ((f.appendNamespace p pfx ns).1, (f.appendNamespace p pfx ns).2.1)
  | .setAttribute n k v => f.setAttribute n k v
  | .removeAttribute n k => f.removeAttribute n k
  | .setNamespace n p ns => f.setNamespace n p ns
  | .removeNamespace n p => f.removeNamespace n p
  | .elementSetName n name => f.elementSetName n name
  | .attributeSetValue n s => f.attributeSetValue n s
  | .namespaceSetNamespace n ns => f.namespaceSetNamespace n ns
  | .piSetTarget n t => f.piSetTarget n t
  | .textPush n s => f.textPush n s
  | .valueMutSet n s => f.valueMutSet n s

/-- The node arguments. -/
def COp.args : COp → List Nat
  | .newDocumentWithElement n | .appendNew n _ | .appendNamespace n _ _ | .setAttribute n _ _
  | .removeAttribute n _ | .setNamespace n _ _ | .removeNamespace n _ | .elementSetName n _
  | .attributeSetValue n _ | .namespaceSetNamespace n _ | .piSetTarget n _ | .textPush n _
  | .valueMutSet n _ => [n]

/-- What exists when the call REFUSES: the store as it was, plus the node the call created before
    it asked `append` / `append_namespace_node` (parentless, never handed out). -/
def COp.refusedState (f : Forest) : COp → Forest
  | .appendNew _ v => (f.newNode v).1
  | .appendNamespace _ pfx ns => (f.newNode (.namespace pfx ns)).1
  | _ => f

/-- The documented panics: the node-map wrappers on a node that is not an element. -/
def COp.documentedPanic (f : Forest) : COp → Bool
  | .setAttribute n _ _ | .removeAttribute n _ | .setNamespace n _ _ | .removeNamespace n _ => !f.isElement n
  | _ => false

end Forest
end XotModel
