/-
  XotModel.Model.FidIndex — the `xml:id` index next to the forest (C04, "no accessor ever hands
  out a removed node").

  `Xot.id_nodes_map : HashMap<NodeId, HashMap<String, NodeId>>` (xotdata.rs) is written in exactly
  one place: at the end of a successful `parse_with_span_info` / `parse_fragment_with_span_info`
  (parse.rs: `self.id_nodes_map.insert(document_node.get(), builder.id_nodes)`), where
  `builder.id_nodes` was filled by `DocumentBuilder::open_element` with one entry
  `normalized value ↦ element` per attribute whose expanded name is xml:id (a second occurrence of
  a value is `ParseError::DuplicateId`).  It is read in exactly one place, `Xot::xml_id_node`
  (access.rs).  No manipulation call touches it: an entry survives the removal, the move to
  another document and the re-naming of its element.

  The forest model is frozen, so the index lives beside it (`IdStore`).  Handles are
  creation-order numbers: the parser creates the document node, then every node in raw document
  order (element, its namespace nodes, its attribute nodes, its children, …), each with
  `arena.new_node`, so the new tree gets the handles `next, next + 1, …` in pre-order.
-/
import XotModel.Model.FinvSpec
import XotModel.Model.Env

namespace XotModel

namespace HTree

mutual
  /-- The nodes of `t` with the handles `n, n + 1, …` in raw document order (the creation order of
      `DocumentBuilder`). -/
  def ofTree (n : Nat) : Tree → HTree
    | .node v ks => .node n v (ofTreeList (n + 1) ks)
  def ofTreeList (n : Nat) : List Tree → List HTree
    | [] => []
    | k :: ks => ofTree n k :: ofTreeList (n + k.size) ks
end

/-- The values of the xml:id attributes among the children `ks` (of an element). -/
def idAttrValues : List HTree → List Str
  | [] => []
  | k :: ks =>
    match k.value with
    | .attribute name value => if name = Env.xmlIdName then value :: idAttrValues ks else idAttrValues ks
    | _ => idAttrValues ks

mutual
  /-- `builder.id_nodes` as a list in document order: one entry (value as stored in the attribute
      node, element) per xml:id attribute of an element (`open_element`). -/
  def idEntries : HTree → List (Str × Nat)
    | .node h v ks =>
      (if v.isElement then (idAttrValues ks).map (fun s => (s, h)) else []) ++ idEntriesList ks
  def idEntriesList : List HTree → List (Str × Nat)
    | [] => []
    | k :: ks => idEntries k ++ idEntriesList ks
end

end HTree

/-- The ID values of a tree, in document order (handles do not matter). -/
def Tree.idValues (t : Tree) : List Str := (HTree.idEntries (HTree.ofTree 0 t)).map (·.1)

/-- A store together with its xml:id index: (document handle, ID value) ↦ element handle. -/
structure IdStore where
  forest : Forest := {}
  index : List ((Nat × Str) × Nat) := []
  deriving Inhabited

namespace IdStore

def init : IdStore := {}

/-- `id_nodes_map.get(&document_node)?.get(value)`. -/
def lookup (s : IdStore) (doc : Nat) (v : Str) : Option Nat := s.index.lookup (doc, v)

/-- `Xot::xml_id_node`: the index entry, filtered by `!node_id.is_removed(arena)`. -/
def xmlIdNode (s : IdStore) (doc : Nat) (v : Str) : Option Nat :=
  (s.lookup doc v).filter (fun h => s.forest.isLive h)

/-- What a successful `Xot::parse` / `parse_fragment` whose result is the tree `t` does to an
    existing store: the tree is a new root with fresh handles in creation order, and the index of
    the new document node is set to the builder's table (`HashMap::insert`: replaces). Returns
    the document node. -/
def parseInto (s : IdStore) (t : Tree) : IdStore × Nat :=
  let doc := s.forest.next
  let ht := HTree.ofTree doc t
  ({ forest := { s.forest with roots := s.forest.roots ++ [ht], next := s.forest.next + t.size },
     index := s.index.filter (fun e => e.1.1 != doc) ++ (HTree.idEntries ht).map (fun e => ((doc, e.1), e.2)) },
   doc)

/-- `Xot::parse` on a text whose tree would be `t`: `DuplicateId` when an ID value occurs twice
    (the nodes created so far stay in the arena without any handle to them: invisible). -/
def parse (s : IdStore) (t : Tree) : IdStore × Option Nat :=
  if (Tree.idValues t).Nodup then ((s.parseInto t).1, some (s.parseInto t).2) else (s, none)

/-- Every other call: the forest call, index untouched. -/
def call (s : IdStore) (o : Op) : IdStore := { s with forest := s.forest.step o }

end IdStore

/-- A step of a history over a store with index. -/
inductive IdOp where
  | call (o : Op)
  | parse (t : Tree)

namespace IdStore

def step (s : IdStore) : IdOp → IdStore
  | .call o => s.call o
  | .parse t => (s.parse t).1

def run (s : IdStore) (ops : List IdOp) : IdStore := ops.foldl step s

/-- What holds of every reachable index: keys and entries were handed out earlier, keys are
    unique. -/
structure Wf (s : IdStore) : Prop where
  below : ∀ e ∈ s.index, e.1.1 < s.forest.next ∧ e.2 < s.forest.next
  keys : (s.index.map (·.1)).Nodup

/-- What a parsed tree has to satisfy for the forest invariant (specification; the parser only
    builds such trees, `Model/Parse.lean`: ordered, unique keys, text consolidated). Only the values
    matter; the numbering is the one `parseInto` will use. -/
def parseOK (s : IdStore) (t : Tree) : Prop :=
  validTree (!s.forest.everOff) (HTree.ofTree s.forest.next t) = true

/-- A step whose parse (if it is one) yields a valid tree. -/
def stepOK (s : IdStore) : IdOp → Prop
  | .call _ => True
  | .parse t => s.parseOK t

def runOK (s : IdStore) : List IdOp → Prop
  | [] => True
  | o :: os => s.stepOK o ∧ runOK (s.step o) os

end IdStore
end XotModel
