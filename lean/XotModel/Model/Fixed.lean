/-
  XotModel.Model.Fixed — `fixed.rs`: the abstract (store-independent) document type, `xotify` as
  the sequence of creation / manipulation calls the Rust issues, the tree an abstract document
  denotes (`treeOf`), and three stepwise construction programs over the public API (top-down,
  bottom-up, right-to-left) that C20 compares with it.

  Names, prefixes and namespaces are the numeric interning ids.  `fixed::Name::xotify`
  (`add_namespace`, `add_name_ns`), `add_prefix` and `add_name` only intern strings: on ids they
  are the identity, they never touch the arena, and that interning is a stable bijection is C08's
  business.  So `fixed::Name {namespace, localname}` is a name id, `fixed::Prefix {name,
  namespace}` a pair (prefix id, namespace id), a PI target a name id.

  `Content::Element(Element)` is inlined into the `element` constructor so that `FContent` is a
  plain nested inductive (`FElement` is the same four fields as a structure).

  Every program returns `none` for a Rust panic (`unwrap()` on an `Err`, or a panic inside a
  node-map call); the state after a panic is not meaningful.
-/
import XotModel.Model.ForestInv

namespace XotModel

/-- `fixed::Content` (with `fixed::ProcessingInstruction {target, content}` inlined). -/
inductive FContent where
  | text (s : Str)
  | comment (s : Str)
  | pi (target : Nat) (data : Option Str)
  | element (name : Nat) (prefixes : List (Nat × Nat)) (attributes : List (Nat × Str))
      (children : List FContent)
  deriving Repr, Inhabited

/-- `fixed::Element`. -/
structure FElement where
  name : Nat
  prefixes : List (Nat × Nat) := []
  attributes : List (Nat × Str) := []
  children : List FContent := []
  deriving Repr, Inhabited

def FElement.toContent (e : FElement) : FContent :=
  .element e.name e.prefixes e.attributes e.children

/-- `fixed::DocumentContent`. -/
inductive FDocContent where
  | comment (s : Str)
  | pi (target : Nat) (data : Option Str)
  deriving Repr, Inhabited

def FDocContent.toContent : FDocContent → FContent
  | .comment s => .comment s
  | .pi t d => .pi t d

/-- `fixed::Document`. -/
structure FDocument where
  before : List FDocContent := []
  documentElement : FElement
  after : List FDocContent := []
  deriving Repr, Inhabited

/-- The children of the document node, in order. -/
def FDocument.items (d : FDocument) : List FContent :=
  d.before.map FDocContent.toContent ++ d.documentElement.toContent :: d.after.map FDocContent.toContent

/-! ### The tree an abstract document denotes -/

def nsTree (p : Nat × Nat) : Tree := .node (.namespace p.1 p.2) []
def attrTree (a : Nat × Str) : Tree := .node (.attribute a.1 a.2) []

mutual
  /-- Element = namespace nodes, attribute nodes, children, in the given orders. -/
  def treeOfContent : FContent → Tree
    | .text s => .node (.text s) []
    | .comment s => .node (.comment s) []
    | .pi t d => .node (.pi t d) []
    | .element n ps as cs => .node (.element n) (ps.map nsTree ++ (as.map attrTree ++ treeOfList cs))
  def treeOfList : List FContent → List Tree
    | [] => []
    | c :: cs => treeOfContent c :: treeOfList cs
end

/-- Document node with the `before` items, the document element, the `after` items. -/
def treeOf (d : FDocument) : Tree := .node .document (treeOfList d.items)

mutual
  /-- Number of nodes `treeOfContent` has (= number of handles a construction uses). -/
  def FContent.size : FContent → Nat
    | .text _ => 1
    | .comment _ => 1
    | .pi _ _ => 1
    | .element _ ps as cs => 1 + ps.length + as.length + FContent.sizeList cs
  def FContent.sizeList : List FContent → Nat
    | [] => 0
    | c :: cs => c.size + FContent.sizeList cs
end

/-! ### Well-formedness: what the construction routes need to produce `treeOf d` -/

def FContent.isText : FContent → Bool
  | .text _ => true
  | _ => false

/-- No two adjacent text items. -/
def noAdjacentFText : List FContent → Bool
  | [] => true
  | [_] => true
  | a :: b :: rest => !(a.isText && b.isText) && noAdjacentFText (b :: rest)

mutual
  /-- Per element: prefixes pairwise distinct and attribute names pairwise distinct (the node-map
      `insert` of an existing key updates the existing node instead of adding one); no two
      adjacent text children when `strict` (with text consolidation on, `append` merges a text
      node into a preceding text node). -/
  def FContent.wf (strict : Bool) : FContent → Bool
    | .element _ ps as cs =>
      (ps.map (·.1)).Nodup && (as.map (·.1)).Nodup && (!strict || noAdjacentFText cs) &&
        FContent.wfList strict cs
    | _ => true
  def FContent.wfList (strict : Bool) : List FContent → Bool
    | [] => true
    | c :: cs => c.wf strict && FContent.wfList strict cs
end

/-- Well-formedness of a document (`strict` = text consolidation is on).  The document node's
    children are comments, PIs and one element, so adjacency of text cannot arise there. -/
def FDocument.wf (strict : Bool) (d : FDocument) : Bool := d.documentElement.toContent.wf strict

mutual
  /-- No empty text item.  Not needed by any construction route of the API (an empty text node
      is created and kept); needed only for agreement with the *parse* route, because an empty
      text node serialises to nothing and so is absent after reparsing. -/
  def FContent.noEmptyText : FContent → Bool
    | .text s => !s.isEmpty
    | .element _ _ _ cs => FContent.noEmptyTextList cs
    | _ => true
  def FContent.noEmptyTextList : List FContent → Bool
    | [] => true
    | c :: cs => c.noEmptyText && FContent.noEmptyTextList cs
end

namespace Forest

/-! ### Pieces shared by all routes -/

/-- `xot.append(parent, child).unwrap()`. -/
def appendOk (f : Forest) (parent child : Nat) : Option Forest :=
  match f.append parent child with
  | (f', .ok) => some f'
  | _ => none

/-- `for child in children { xot.append(parent, child).unwrap(); }`. -/
def appendAllOk (f : Forest) (parent : Nat) : List Nat → Option Forest
  | [] => some f
  | c :: cs =>
    match f.appendOk parent c with
    | some f' => appendAllOk f' parent cs
    | none => none

/-- `for (prefix, ns) in prefixes { namespaces_map.insert(prefix, ns); }`
    (`namespaces_mut(element)`; a panic inside `insert` is `none`). -/
def insertPrefixes (f : Forest) (el : Nat) : List (Nat × Nat) → Option Forest
  | [] => some f
  | p :: rest =>
    match f.mapInsert .namespaces el (.namespace p.1 p.2) with
    | (f', .ok) => insertPrefixes f' el rest
    | _ => none

/-- `for (name, value) in attributes { attributes_map.insert(name, value.clone()); }`. -/
def insertAttributes (f : Forest) (el : Nat) : List (Nat × Str) → Option Forest
  | [] => some f
  | a :: rest =>
    match f.mapInsert .attributes el (.attribute a.1 a.2) with
    | (f', .ok) => insertAttributes f' el rest
    | _ => none

/-- `new_element(name)`, then the two insertion loops of `Element::xotify`. -/
def newElementWithMaps (f : Forest) (name : Nat) (ps : List (Nat × Nat)) (as : List (Nat × Str)) :
    Option (Forest × Nat) :=
  let (f1, el) := f.newElement name
  match f1.insertPrefixes el ps with
  | none => none
  | some f2 =>
    match f2.insertAttributes el as with
    | none => none
    | some f3 => some (f3, el)

/-- `new_document_with_element(node)` (creation.rs). -/
def newDocumentWithElement (f : Forest) (node : Nat) : Forest × Res × Nat :=
  if !f.isElement node then (f, .err .invalidOperation, 0) else
  let (f1, doc) := f.newDocument
  let (f2, r) := f1.append doc node
  (f2, r, doc)

/-! ### `xotify` (fixed.rs) -/

mutual
  /-- `Content::xotify` / `Element::xotify`: element node, prefixes, attributes, then ALL children
      are created (`.map(|child| child.xotify(xot)).collect()`), then appended in order. -/
  def xotifyContent (f : Forest) : FContent → Option (Forest × Nat)
    | .text s => some (f.newText s)
    | .comment s => some (f.newComment s)
    | .pi t d => some (f.newPi t d)
    | .element name ps as cs =>
      match f.newElementWithMaps name ps as with
      | none => none
      | some (f1, el) =>
        match xotifyList f1 cs with
        | none => none
        | some (f2, hs) =>
          match f2.appendAllOk el hs with
          | none => none
          | some f3 => some (f3, el)
  def xotifyList (f : Forest) : List FContent → Option (Forest × List Nat)
    | [] => some (f, [])
    | c :: cs =>
      match xotifyContent f c with
      | none => none
      | some (f1, h) =>
        match xotifyList f1 cs with
        | none => none
        | some (f2, hs) => some (f2, h :: hs)
end

/-- `Element::xotify`. -/
def xotifyElement (f : Forest) (e : FElement) : Option (Forest × Nat) := xotifyContent f e.toContent

/-- `create_document_content_node`. -/
def createDocContent (f : Forest) : FDocContent → Forest × Nat
  | .comment s => f.newComment s
  | .pi t d => f.newPi t d

/-- `for content in &self.before { … xot.insert_before(child, node).unwrap(); }`. -/
def insertAllBefore (f : Forest) (child : Nat) : List FDocContent → Option Forest
  | [] => some f
  | c :: cs =>
    let (f1, node) := f.createDocContent c
    match f1.insertBefore child node with
    | (f2, .ok) => insertAllBefore f2 child cs
    | _ => none

/-- `for content in &self.after { … xot.append(document, node).unwrap(); }`. -/
def appendAllAfter (f : Forest) (document : Nat) : List FDocContent → Option Forest
  | [] => some f
  | c :: cs =>
    let (f1, node) := f.createDocContent c
    match f1.appendOk document node with
    | some f2 => appendAllAfter f2 document cs
    | none => none

/-- `Document::xotify`. -/
def xotifyDocument (f : Forest) (d : FDocument) : Option (Forest × Nat) :=
  match f.xotifyElement d.documentElement with
  | none => none
  | some (f1, child) =>
    match f1.newDocumentWithElement child with
    | (f2, .ok, document) =>
      (match f2.insertAllBefore child d.before with
       | none => none
       | some f3 =>
         match f3.appendAllAfter document d.after with
         | none => none
         | some f4 => some (f4, document))
    | _ => none

/-! ### Stepwise construction programs over the public API

  A document is treated as a node whose children are `d.items`; an element as a node with its
  maps filled right after creation (`namespaces_mut().insert`, `attributes_mut().insert`, in the
  given order: the maps are insertion-ordered) and its children `cs`. -/

/-- The node for the head of an item, without children (`new_text` / `new_comment` /
    `new_processing_instruction` / `new_element` + map insertions). -/
def createHead (f : Forest) : FContent → Option (Forest × Nat)
  | .text s => some (f.newText s)
  | .comment s => some (f.newComment s)
  | .pi t d => some (f.newPi t d)
  | .element name ps as _ => f.newElementWithMaps name ps as

mutual
  /-- Top-down: create the node, `append` it to its (already attached) parent, then do the same
      for its children, left to right. -/
  def topDownContent (f : Forest) (parent : Nat) : FContent → Option Forest
    | .text s => let (f1, n) := f.newText s; f1.appendOk parent n
    | .comment s => let (f1, n) := f.newComment s; f1.appendOk parent n
    | .pi t d => let (f1, n) := f.newPi t d; f1.appendOk parent n
    | .element name ps as cs =>
      match f.newElementWithMaps name ps as with
      | none => none
      | some (f1, el) =>
        match f1.appendOk parent el with
        | none => none
        | some f2 => topDownList f2 el cs
  def topDownList (f : Forest) (parent : Nat) : List FContent → Option Forest
    | [] => some f
    | c :: cs =>
      match topDownContent f parent c with
      | none => none
      | some f1 => topDownList f1 parent cs
end

/-- Top-down document: `new_document()`, then the items. -/
def topDownDocument (f : Forest) (d : FDocument) : Option (Forest × Nat) :=
  let (f1, doc) := f.newDocument
  match topDownList f1 doc d.items with
  | none => none
  | some f2 => some (f2, doc)

mutual
  /-- Bottom-up: build all children (each bottom-up, left to right), then create the parent and
      `append` the finished children in order. -/
  def bottomUpContent (f : Forest) : FContent → Option (Forest × Nat)
    | .text s => some (f.newText s)
    | .comment s => some (f.newComment s)
    | .pi t d => some (f.newPi t d)
    | .element name ps as cs =>
      match bottomUpList f cs with
      | none => none
      | some (f1, hs) =>
        match f1.newElementWithMaps name ps as with
        | none => none
        | some (f2, el) =>
          match f2.appendAllOk el hs with
          | none => none
          | some f3 => some (f3, el)
  def bottomUpList (f : Forest) : List FContent → Option (Forest × List Nat)
    | [] => some (f, [])
    | c :: cs =>
      match bottomUpContent f c with
      | none => none
      | some (f1, h) =>
        match bottomUpList f1 cs with
        | none => none
        | some (f2, hs) => some (f2, h :: hs)
end

/-- Bottom-up document: the items first, `new_document()` last. -/
def bottomUpDocument (f : Forest) (d : FDocument) : Option (Forest × Nat) :=
  match bottomUpList f d.items with
  | none => none
  | some (f1, hs) =>
    let (f2, doc) := f1.newDocument
    match f2.appendAllOk doc hs with
    | none => none
    | some f3 => some (f3, doc)

/-- Attach `h` as the new first child: `prepend(parent, h)` when the parent has no (normal)
    child yet, otherwise `insert_before(next, h)` with `next` the child added just before. -/
def attachFirst (f : Forest) (parent : Nat) (next : Option Nat) (h : Nat) : Option Forest :=
  match next with
  | none => (match f.prepend parent h with | (f', .ok) => some f' | _ => none)
  | some n => (match f.insertBefore n h with | (f', .ok) => some f' | _ => none)

mutual
  /-- Right-to-left: the parent is created first; its children are built and attached last one
      first (`prepend`, then `insert_before` the previously attached sibling). -/
  def rtlContent (f : Forest) : FContent → Option (Forest × Nat)
    | .text s => some (f.newText s)
    | .comment s => some (f.newComment s)
    | .pi t d => some (f.newPi t d)
    | .element name ps as cs =>
      match f.newElementWithMaps name ps as with
      | none => none
      | some (f1, el) =>
        match rtlList f1 el cs with
        | none => none
        | some (f2, _) => some (f2, el)
  /-- Returns the handle of the leftmost child attached so far. -/
  def rtlList (f : Forest) (parent : Nat) : List FContent → Option (Forest × Option Nat)
    | [] => some (f, none)
    | c :: cs =>
      match rtlList f parent cs with
      | none => none
      | some (f1, next) =>
        match rtlContent f1 c with
        | none => none
        | some (f2, h) =>
          match f2.attachFirst parent next h with
          | none => none
          | some f3 => some (f3, some h)
end

/-- Right-to-left document. -/
def rtlDocument (f : Forest) (d : FDocument) : Option (Forest × Nat) :=
  let (f1, doc) := f.newDocument
  match rtlList f1 doc d.items with
  | none => none
  | some (f2, _) => some (f2, doc)

/-- The tree rooted at `h`, handles forgotten (`none` if `h` is not live). -/
def treeAt (f : Forest) (h : Nat) : Option Tree := (f.get? h).map HTree.erase

end Forest
end XotModel
