/-
  XotModel.Model.FspecSpec3 — the PAIR reading of C05's consolidation clause, for forests that may
  already hold adjacent text nodes while consolidation is on (reachable only through
  `set_text_consolidation(false)` … `(true)`).

  "Text nodes that BECOME adjacent are merged": exactly the pair of text nodes that the leaving
  node separated, and exactly the moved text node with the text node it is put next to (the left
  neighbour if that is text, else the right one) — not the whole run they may be part of.  In a
  forest without adjacent text nodes this is the same as merging the maximal runs
  (`FspecSpec.lean`); xot implements the pair reading.

  Written, like `FspecSpec.lean`, on the `Forest` / `HTree` data type with the one-site edit
  `Forest.editAt` only.  The survivor is the node that was already there (the moved node never
  survives); between the two neighbours of a leaving node, the earlier one.
-/
import XotModel.Model.FspecSpec

namespace XotModel
namespace Spec

/-- Two adjacent text nodes as one: the LEFT node keeps its identity and carries both data. -/
def joinLeft (x y : HTree) : Option HTree :=
  match x.value, y.value with
  | .text s, .text u => some (x.setValue (.text (s ++ u)))
  | _, _ => none

/-- Two adjacent text nodes as one: the RIGHT node keeps its identity and carries both data. -/
def joinRight (t z : HTree) : Option HTree :=
  match t.value, z.value with
  | .text u, .text w => some (z.setValue (.text (u ++ w)))
  | _, _ => none

/-- `a` and `b` (handles) stand next to each other in this order and are both text: they become
    one node, `a`, carrying both data.  Otherwise nothing changes. -/
def mergeAdj (a b : Nat) : List HTree → List HTree
  | x :: y :: rest =>
    if x.handle = a ∧ y.handle = b then
      ((joinLeft x y).map (fun j => j :: rest)).getD (x :: y :: rest)
    else x :: mergeAdj a b (y :: rest)
  | l => l

/-- `t` is the first child considered: only a right neighbour to merge into. -/
def mergeNewHead (t : HTree) : List HTree → List HTree
  | z :: rest => ((joinRight t z).map (fun j => j :: rest)).getD (t :: z :: rest)
  | [] => [t]

/-- The text node `n` (handle) is merged into its left neighbour if that is a text node, else into
    its right neighbour if that is one; the neighbour keeps its identity.  A node that is not text
    stays as it is. -/
def mergeNew (n : Nat) : List HTree → List HTree
  | x :: y :: rest =>
    if y.handle = n then
      ((joinLeft x y).map (fun j => j :: rest)).getD (x :: mergeNewHead y rest)
    else if x.handle = n then mergeNewHead x (y :: rest)
    else x :: mergeNew n (y :: rest)
  | l => l

/-- The handles of the raw left and right neighbours of the child `n` in a child list. -/
def neighbours (n : Nat) : List HTree → Option Nat × Option Nat
  | [] => (none, none)
  | [x] => (none, none)
  | x :: y :: rest =>
    if x.handle = n then (none, some y.handle)
    else if y.handle = n then (some x.handle, rest.head?.map (·.handle))
    else neighbours n (y :: rest)

end Spec

namespace Forest

/-- The raw neighbours of `n` in its parent's child list (none for a parentless node). -/
def nbOf (f : Forest) (n : Nat) : Option Nat × Option Nat :=
  match f.parent? n with
  | some p => Spec.neighbours n (f.kidsOf p)
  | none => (none, none)

/-- The pair merge at the place a node has left (only a child list has neighbours). -/
def mergeLeftAt (f : Forest) (s : Option Nat) (nb : Option Nat × Option Nat) : Forest :=
  match s, nb with
  | some p, (some a, some b) => if f.consolidation then f.editAt (some p) (Spec.mergeAdj a b) else f
  | _, _ => f

/-- The pair merge at the place a node has arrived. -/
def mergeNewAt (f : Forest) (q : Nat) (n : Nat) : Forest :=
  if f.consolidation then f.editAt (some q) (Spec.mergeNew n) else f

end Forest

namespace Spec

/-- **Move**, pair reading: cut, graft, merge the pair the node separated, merge the node with
    the text node it now stands next to. -/
def specMoveP (dest : Dest) (n : Nat) (f : Forest) : Forest :=
  if dest.occupiedBy f n then f else
  match f.get? n, dest.site f with
  | some t, some q =>
    let old := f.parent? n
    let nb := f.nbOf n
    let cut := f.editAt old (dropTop n)
    let grafted := cut.editAt (some q) (dest.insert t)
    (grafted.mergeLeftAt old nb).mergeNewAt q n
  | _, _ => f

/-- **Remove**, pair reading. -/
def specRemoveP (n : Nat) (f : Forest) : Forest :=
  let old := f.parent? n
  let nb := f.nbOf n
  (f.editAt old (dropTop n)).mergeLeftAt old nb

/-- **Detach**, pair reading. -/
def specDetachP (n : Nat) (f : Forest) : Forest :=
  match f.get? n with
  | none => f
  | some t =>
    let old := f.parent? n
    let nb := f.nbOf n
    ((f.editAt old (dropTop n)).editAt none (insertLast t)).mergeLeftAt old nb

/-- The corner of finding `C05:move-changes-character-data` (possible only when the forest already
    holds adjacent text nodes): the moved node `n` is a text node between two text nodes `a n b`,
    and once `a` and `b` have been merged `n` already stands at the requested place (`b` was the
    last child, for `append` to `n`'s own parent; `b` stood directly before the reference node, for
    `insert_before`).  Before xot eccbbb7 `add_consolidate_text_nodes` then merged `n` "into its
    neighbour" — which is `n` itself — and destroyed it, losing its character data; since eccbbb7
    it takes `n`'s own previous sibling (the merged `a`) and the call agrees with `specMoveP` here
    too.  Kept as the decidable description of the corner (suite statistics, corner theorems). -/
def selfMerge (f : Forest) (dest : Dest) (n : Nat) : Bool :=
  f.consolidation &&
  match f.ctx? n with
  | none => false
  | some c =>
    c.self.value.isText &&
    (match c.left.getLast? with | some a => a.value.isText | none => false) &&
    (match c.right with
     | b :: rest =>
       b.value.isText &&
       (match dest with
        | .lastChildOf p => p == c.parent && rest.isEmpty
        | .before r => (rest.head?.map (·.handle)) == some r
        | _ => false)
     | [] => false)

end Spec
end XotModel
