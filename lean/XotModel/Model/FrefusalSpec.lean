/-
  XotModel.Model.FrefusalSpec — specification vocabulary for C06: WHICH error a call of the mutating API
  (`Forest.Call`, Model/FatomSpec.lean) answers in WHICH state, as a function of the state and the arguments
  only — the argument checks of manipulation.rs / nodemap/core.rs / valueaccess.rs in the order the Rust
  performs them, without the edit.  (Specification only: nothing here is executed by the driver.)
-/
import XotModel.Model.FatomSpec

namespace XotModel
namespace Forest

/-- The checks of `replace(replaced, replacing)` in the order of manipulation.rs: the replaced node is a
    document; it has no parent; it is an attribute / namespace node; `add_structure_check(parent, replacing)`
    fails (parent cannot hold children - impossible here -, `replacing` is an ancestor-or-self of the
    parent, is a document, an attribute or namespace node); `replacing` lies inside `replaced` (or is it). -/
def replaceRefused (f : Forest) (replaced replacing : Nat) : Bool :=
  f.isDocument replaced ||
  (match f.parent? replaced with
   | none => true
   | some parent =>
     !f.isNormalNode replaced || !f.structureCheck (some parent) replacing ||
     (f.ancestors replacing).contains replaced)

/-- The checks of `element_wrap(node, name)`: a document; an attribute / namespace node; a child of a
    document node that is not the document element. -/
def wrapRefused (f : Forest) (node : Nat) : Bool :=
  f.isDocument node || !f.isNormalNode node || (f.hasDocumentParent node && !f.isDocumentElement node)

/-- The checks of `element_unwrap(node)`: not an element; an element with a normal child and no parent. -/
def unwrapRefused (f : Forest) (node : Nat) : Bool :=
  !f.isElement node || ((f.firstChild node).isSome && (f.parent? node).isNone)

/-- The checks of `append_attribute_node` / `append_namespace_node`: the parent is not an element; the
    child is not a node of the map's kind. -/
def entryRefused (f : Forest) (k : MapKind) (parent child : Nat) : Bool :=
  !f.isElement parent ||
  (match f.value? child with
   | some v => !k.matches v
   | none => false)

/-- `text_content_mut(node)` is `None`: more than one normal child; one normal child that is not text; no
    normal child and not an element. -/
def textContentRefused (f : Forest) (node : Nat) : Bool :=
  match f.firstChild node with
  | some child => (f.nextSibling child).isSome || !f.isText child
  | none => !f.isElement node

/-- `some e`: the call answers `Err(e)`; `none`: it does not answer an error.  A decidable function of
    the forest and the arguments, constructor by constructor:

    * `append` / `prepend` (parent, child): `InvalidOperation` iff `add_structure_check(Some(parent), child)` fails;
    * `insert_after` / `insert_before` (ref, new): `InvalidOperation` iff `add_structure_check(parent(ref), new)`
      fails (in particular: `ref` has no parent) or `sibling_reference_check(ref, new)` fails (`ref == new`,
      or `ref` is an attribute / namespace node);
    * `detach`, `remove`, `clone_node`: never;
    * `replace`: `InvalidOperation` iff `replaceRefused`;  `element_wrap`: iff `wrapRefused`;
      `element_unwrap`: iff `unwrapRefused`;
    * `any_append`: for a namespace / attribute child as `append_namespace_node` / `append_attribute_node`
      (`InvalidOperation` iff the parent is not an element), otherwise as `append`;
    * `append_namespace_node` / `append_attribute_node`: `InvalidOperation` iff `entryRefused`;
    * the node-map calls and `set_element_name`: never an error (they panic on a non-element:
      `Call.documentedPanic`);
    * `text_mut(node).set`: `InvalidOperation` iff the node is not a text node;
      `comment_mut(node).set(s)`: `InvalidOperation` iff the node is not a comment, otherwise `InvalidComment`
      iff `s` contains `--`;  `processing_instruction_mut(node).set_data`: `InvalidOperation` iff the node is
      not a processing instruction;
    * `text_content_mut(node).set`: `InvalidOperation` iff `textContentRefused`. -/
def Call.refusal (f : Forest) : Call → Option XotError
  | .append p c | .prepend p c => if f.structureCheck (some p) c then none else some .invalidOperation
  | .insertAfter r n | .insertBefore r n =>
    if f.structureCheck (f.parent? r) n && f.siblingReferenceCheck r n then none else some .invalidOperation
  | .detach _ | .remove _ | .cloneNode _ => none
  | .replace a b => if f.replaceRefused a b then some .invalidOperation else none
  | .elementWrap n _ => if f.wrapRefused n then some .invalidOperation else none
  | .elementUnwrap n => if f.unwrapRefused n then some .invalidOperation else none
  | .anyAppend p c =>
    (match f.value? c with
     | some (.namespace _ _) => if f.isElement p then none else some .invalidOperation
     | some (.attribute _ _) => if f.isElement p then none else some .invalidOperation
     | _ => if f.structureCheck (some p) c then none else some .invalidOperation)
  | .appendEntryNode k p c => if f.entryRefused k p c then some .invalidOperation else none
  | .mapInsert _ _ _ | .mapRemove _ _ _ | .mapClear _ _ | .setElementName _ _ => none
  | .setText n _ => if f.isText n then none else some .invalidOperation
  | .setComment n s =>
    (match f.value? n with
     | some (.comment _) => if hasDoubleDash s then some .invalidComment else none
     | _ => some .invalidOperation)
  | .setPiData n _ =>
    (match f.value? n with
     | some (.pi _ _) => none
     | _ => some .invalidOperation)
  | .textContentSet n _ => if f.textContentRefused n then some .invalidOperation else none

/-- What the call answers, from the state and the arguments only. -/
def Call.answer (f : Forest) (c : Call) : Res :=
  match c.refusal f with
  | some e => .err e
  | none => if c.documentedPanic f then .panic else .ok

end Forest
end XotModel
