/-
  XotModel.Model.Tree — the uniform value tree (xmlvalue.rs + the arena's child lists).

  Namespace and attribute nodes are ordinary children of their element; `access.rs` and
  `nodemap/` find them with `take_while` / `skip_while` on the value category, and so does
  the model (so it also says what the code does on an ill-ordered node).
-/
import XotModel.Model.Basic

namespace XotModel

/-- `xmlvalue.rs Value`. Name / prefix / namespace ids are the interning indices. -/
inductive Value where
  | document
  | element (name : Nat)
  | text (s : Str)
  | pi (target : Nat) (data : Option Str)
  | comment (s : Str)
  | attribute (name : Nat) (value : Str)
  | namespace (pfx : Nat) (ns : Nat)
  deriving Repr, DecidableEq, Inhabited

/-- `ValueCategory`. -/
inductive Category where
  | normal | attribute | namespace
  deriving Repr, DecidableEq

def Value.category : Value → Category
  | .attribute _ _ => .attribute
  | .namespace _ _ => .namespace
  | _ => .normal

def Value.isNormal (v : Value) : Bool := v.category == .normal
def Value.isElement : Value → Bool | .element _ => true | _ => false
def Value.isText : Value → Bool | .text _ => true | _ => false
def Value.isDocument : Value → Bool | .document => true | _ => false

/-- An ordered tree of values: one arena subtree. -/
inductive Tree where
  | node (v : Value) (kids : List Tree)
  deriving Repr, Inhabited

namespace Tree

def value : Tree → Value | node v _ => v
def kids : Tree → List Tree | node _ ks => ks

/-- `abnormal_children` (`take_while !is_normal`). -/
def abnormalKids (t : Tree) : List Tree := t.kids.takeWhile (fun k => !k.value.isNormal)
/-- `normal_children` (`skip_while !is_normal`). -/
def normalKids (t : Tree) : List Tree := t.kids.dropWhile (fun k => !k.value.isNormal)
/-- `NamespaceAdapter::children`: `all_children.take_while(category = Namespace)`. -/
def namespaceNodes (t : Tree) : List Tree :=
  t.kids.takeWhile (fun k => k.value.category == .namespace)

/-- `AttributeAdapter::children` / `attribute_nodes`:
    `all_children.skip_while(= Namespace).take_while(= Attribute)`. -/
def attributeNodes (t : Tree) : List Tree :=
  (t.kids.dropWhile (fun k => k.value.category == .namespace)).takeWhile (fun k => k.value.category == .attribute)

/-- Number of nodes. -/
def size : Tree → Nat
  | node _ ks => 1 + sizeList ks
where
  sizeList : List Tree → Nat
    | [] => 0
    | k :: ks => size k + sizeList ks

/-- Subtree at a path of raw child indices. -/
def at? : Tree → List Nat → Option Tree
  | t, [] => some t
  | node _ ks, i :: p =>
    match ks[i]? with
    | some k => at? k p
    | none => none

end Tree

/-- A path of raw child indices from a tree's root: node identity in the static layers. -/
abbrev Path := List Nat

end XotModel
