/-
  XotModel.Model.ArenaIter — indextree 4.7.2 `traverse.rs`: the iterators as walks over the
  pointers.  Each function is `iterator.take(limit).collect()`: `limit` bounds the number of
  items pulled (`Take::next` does not touch the inner iterator once the count is used up), so
  the functions are total also on cyclic pointer structures, and an index out of range at any
  pull is a `panic`.  For a well-formed arena `limit = nodes.length + 1` (edges:
  `2 * nodes.length + 1`) is never reached (`Lemmas/ArenaIter*.lean`).
-/
import XotModel.Model.Arena

namespace XotModel
namespace Arena

/-- Iterators built on `Iter { node }` (`new_iterator!(…, next = …)`):
    `let node = self.node.take()?; self.node = next(&arena[node]); Some(node)`. -/
def walk (a : Arena) (next : Slot → Option NodeId) : Nat → Option NodeId → Step (List NodeId)
  | 0, _ => .done a []
  | limit + 1, cur =>
    match cur with
    | none => .done a []
    | some node =>
      rd a node fun s =>
        (walk a next limit (next s)).bind fun _ rest => .done a (node :: rest)

/-- Forward `next` of the iterators built on `DoubleEndedIter { head, tail }`. -/
def walkTo (a : Arena) (next : Slot → Option NodeId) : Nat → Option NodeId → Option NodeId → Step (List NodeId)
  | 0, _, _ => .done a []
  | limit + 1, head, tail =>
    match head, tail with
    | some h, some t =>
      if h = t then .done a [h]
      else rd a h fun s => (walkTo a next limit (next s) tail).bind fun _ rest => .done a (h :: rest)
    | some h, none =>
      rd a h fun s => (walkTo a next limit (next s) none).bind fun _ rest => .done a (h :: rest)
    | none, _ => .done a []

/-- `next_back` of the same iterators AS WRITTEN in 4.7.2: the second arm assigns
    `self.0.head = next_back(&arena[tail])` (the tail is never moved), so `children().rev()` keeps
    yielding the last child whenever there are two or more children.  xot does not call it
    (since 7fee193 `reverse_children` walks `last_child` / `previous_sibling` itself). -/
def walkBack (a : Arena) (nextBack : Slot → Option NodeId) : Nat → Option NodeId → Option NodeId → Step (List NodeId)
  | 0, _, _ => .done a []
  | limit + 1, head, tail =>
    match head, tail with
    | some h, some t =>
      if h = t then .done a [h]
      else rd a t fun s => (walkBack a nextBack limit (nextBack s) tail).bind fun _ rest => .done a (t :: rest)
    | none, some t =>
      rd a t fun s => (walkBack a nextBack limit (nextBack s) tail).bind fun _ rest => .done a (t :: rest)
    | _, none => .done a []

/-- `NodeId::ancestors` (the node itself first). -/
def ancestors (a : Arena) (id : NodeId) (limit : Nat) : Step (List NodeId) :=
  walk a (·.parent) limit (some id)

/-- `NodeId::predecessors` (not used by xot). -/
def predecessors (a : Arena) (id : NodeId) (limit : Nat) : Step (List NodeId) :=
  walk a (fun s => s.prev.or s.parent) limit (some id)

/-- `NodeId::children`. -/
def children (a : Arena) (id : NodeId) (limit : Nat) : Step (List NodeId) :=
  rd a id fun s => walkTo a (·.next) limit s.first s.last

/-- `NodeId::children(..).rev()` (defective in 4.7.2, see `walkBack`). -/
def childrenRev (a : Arena) (id : NodeId) (limit : Nat) : Step (List NodeId) :=
  rd a id fun s => walkBack a (·.prev) limit s.first s.last

/-- `NodeId::reverse_children` (deprecated `ReverseChildren`: a plain `Iter` from `last_child`
    along `previous_sibling`) — also what xot's own `reverse_children` walks. -/
def reverseChildren (a : Arena) (id : NodeId) (limit : Nat) : Step (List NodeId) :=
  rd a id fun s => walk a (·.prev) limit s.last

/-- `arena.get(node).unwrap().parent.and_then(|p| arena.get(p)).and_then(|p| p.<field>)`. -/
def parentField (a : Arena) (id : NodeId) (field : Slot → Option NodeId) (k : Option NodeId → Step α) : Step α :=
  match a.get id with
  | none => .panic a
  | some s =>
    match s.parent with
    | none => k none
    | some p =>
      match a.get p with
      | none => k none
      | some ps => k (field ps)

/-- `NodeId::following_siblings` (the node itself first). -/
def followingSiblings (a : Arena) (id : NodeId) (limit : Nat) : Step (List NodeId) :=
  parentField a id (·.last) fun last => walkTo a (·.next) limit (some id) last

/-- `NodeId::preceding_siblings` (the node itself first). -/
def precedingSiblings (a : Arena) (id : NodeId) (limit : Nat) : Step (List NodeId) :=
  parentField a id (·.first) fun first => walkTo a (·.prev) limit (some id) first

/-- `indextree::NodeEdge`. -/
inductive NodeEdge where
  | start (n : NodeId)
  | «end» (n : NodeId)
  deriving DecidableEq, Repr

/-- `NodeEdge::next_traverse`. -/
def nextTraverse (a : Arena) (e : NodeEdge) (k : Option NodeEdge → Step α) : Step α :=
  match e with
  | .start node =>
    rd a node fun s =>
      match s.first with
      | some fc => k (some (.start fc))
      | none => k (some (.end node))
  | .end node =>
    rd a node fun s =>
      match s.next with
      | some ns => k (some (.start ns))
      | none => k (s.parent.map .end)

/-- `NodeEdge::prev_traverse`. -/
def prevTraverse (a : Arena) (e : NodeEdge) (k : Option NodeEdge → Step α) : Step α :=
  match e with
  | .end node =>
    rd a node fun s =>
      match s.last with
      | some lc => k (some (.end lc))
      | none => k (some (.start node))
  | .start node =>
    rd a node fun s =>
      match s.prev with
      | some ps => k (some (.end ps))
      | none => k (s.parent.map .start)

/-- `Traverse::next`: `let next = self.next.take()?; self.next = self.next_of_next(next); Some(next)`. -/
def traverseGo (a : Arena) (root : NodeId) : Nat → Option NodeEdge → Step (List NodeEdge)
  | 0, _ => .done a []
  | limit + 1, cur =>
    match cur with
    | none => .done a []
    | some e =>
      let nextOfNext (k : Option NodeEdge → Step (List NodeEdge)) : Step (List NodeEdge) :=
        if e = .end root then k none else nextTraverse a e k
      nextOfNext fun nx => (traverseGo a root limit nx).bind fun _ rest => .done a (e :: rest)

/-- `NodeId::traverse`. -/
def traverse (a : Arena) (id : NodeId) (limit : Nat) : Step (List NodeEdge) :=
  traverseGo a id limit (some (.start id))

/-- `ReverseTraverse::next`. -/
def reverseTraverseGo (a : Arena) (root : NodeId) : Nat → Option NodeEdge → Step (List NodeEdge)
  | 0, _ => .done a []
  | limit + 1, cur =>
    match cur with
    | none => .done a []
    | some e =>
      let nextOfNext (k : Option NodeEdge → Step (List NodeEdge)) : Step (List NodeEdge) :=
        if e = .start root then k none else prevTraverse a e k
      nextOfNext fun nx => (reverseTraverseGo a root limit nx).bind fun _ rest => .done a (e :: rest)

/-- `NodeId::reverse_traverse`. -/
def reverseTraverse (a : Arena) (id : NodeId) (limit : Nat) : Step (List NodeEdge) :=
  reverseTraverseGo a id limit (some (.end id))

/-- `NodeEdge::Start(node) => Some(node), NodeEdge::End(_) => None`. -/
def NodeEdge.startNode? : NodeEdge → Option NodeId
  | .start n => some n
  | .end _ => none

/-- `NodeId::descendants` = the `Start` edges of `traverse` (`find_map` over the inner
    `Traverse`); `limit` bounds the EDGES pulled from the inner iterator. -/
def descendants (a : Arena) (id : NodeId) (limit : Nat) : Step (List NodeId) :=
  (traverse a id limit).bind fun _ es =>
    .done a (es.filterMap NodeEdge.startNode?)

end Arena
end XotModel
