/-
  XotModel.Model.FanyorderSpec3 — construction programs with NAVIGATION and INPUTS (C20, `Prog3`).

  The programs of `FanyorderSpec2.lean` (`Prog2`, embedded as `Step.old`, run identically) can only name
  a node that one of their own `create` / `wrap` / `clone` steps made.  Here

    * a program starts with INPUTS: `State.env` holds some nodes of the store the program is run in
      (roots of trees that were there before, or any other node), named 0, 1, … like results;
    * NAVIGATION steps produce a RESULT (a new entry of `env`, named by the next index) from an
      earlier one:
        child r k       `xot.children(r).nth(k)`            the k-th normal child
        parent r        `xot.parent(r)`
        attrNode r a    `xot.attributes(r).get_node(a)`     the attribute node with the name `a`
        nsNode r p      `xot.namespaces(r).get_node(p)`     the namespace node with the prefix `p`
      so every later step may address the inside of a cloned template or of an input tree;
      a navigation that finds nothing is `unwrap()` of `None`: `panic` / ill-formed;
    * the update steps that were missing:
        removeAttribute e a   `remove_attribute`  = `attributes_mut(e).remove(a)`
        removeNamespace e p   `remove_namespace`  = `namespaces_mut(e).remove(p)`
        clearAttributes e     `attributes_mut(e).clear()`
        clearNamespaces e     `namespaces_mut(e).clear()`
        nsSetNamespace n ns   `namespace_node_mut(n).set_namespace(ns)`
        piSetTarget n t       `processing_instruction_mut(n).set_target(t)`
      (`set_data` of a processing instruction is `Prog2.Step.setPiData`).

  Two interpreters as before: `runImpl` (xot's calls: `Forest.mapRemove`, `mapClear`,
  `namespaceSetNamespace`, `piSetTarget`, the navigation reads) and `runSpec` (the ordered-tree
  specification: removing an entry = C05's `specRemoveP` of the entry node; `clear` = removing the
  entry nodes one after the other; the setters = `specSetValue`).

  DENOTATION (`denote`, `denoteAt`): what the program is worth as pure trees — the program is run on
  the specification and every result is read off as a `Tree` (`HTree.erase`: no node names left):
  the tree of the ROOT the result lies in, and the subtree of the result itself.
-/
import XotModel.Model.FanyorderSpec2

namespace XotModel
namespace Prog3
open Spec
open Prog (State extend isElementAt)
open Forest (MapKind)

/-- One step; `Nat` node arguments are indices into the list of inputs and results so far. -/
inductive Step where
  | old (s : Prog2.Step)
  /-- `children(r).nth(k)` -/
  | child (r k : Nat)
  /-- `parent(r)` -/
  | parent (r : Nat)
  /-- `attributes(r).get_node(name)` -/
  | attrNode (r name : Nat)
  /-- `namespaces(r).get_node(pfx)` -/
  | nsNode (r pfx : Nat)
  | removeAttribute (e name : Nat)
  | removeNamespace (e pfx : Nat)
  | clearAttributes (e : Nat)
  | clearNamespaces (e : Nat)
  /-- `namespace_node_mut(n).set_namespace(ns)` -/
  | nsSetNamespace (n ns : Nat)
  /-- `processing_instruction_mut(n).set_target(t)` -/
  | piSetTarget (n target : Nat)
  deriving Repr, DecidableEq, Inhabited

abbrev Program := List Step

/-! ### Navigation: reads of the store -/

/-- `children(r).nth(k)`: the k-th NORMAL child (element, text, comment, PI). -/
def childOf (f : Forest) (r k : Nat) : Option Nat :=
  (((f.kidsOf r).filter (fun c => c.value.isNormal))[k]?).map (·.handle)

/-- `parent(r)`. -/
def parentOf (f : Forest) (r : Nat) : Option Nat := f.parent? r

/-- `attributes(r).get_node(name)` / `namespaces(r).get_node(pfx)`. -/
def entryNodeOf (f : Forest) (k : MapKind) (r key : Nat) : Option Nat :=
  (f.mapGetNode k r key).map (·.handle)

/-- A step whose node indices have been resolved to node names (handles); a navigation step is
    resolved to what it FOUND in the store. -/
inductive Call where
  | old (c : Prog2.Call)
  | found (h : Nat)
  | mapRemove (k : MapKind) (e key : Nat)
  | mapClear (k : MapKind) (e : Nat)
  | nsSetNamespace (n ns : Nat)
  | piSetTarget (n target : Nat)
  deriving Repr, DecidableEq, Inhabited

def nav (env : List Nat) (r : Nat) (g : Nat → Option Nat) : Option Call :=
  match env[r]? with
  | some h =>
    match g h with
    | some x => some (.found x)
    | none => none
  | none => none

def at1 (env : List Nat) (n : Nat) (k : Nat → Call) : Option Call :=
  match env[n]? with
  | some h => some (k h)
  | none => none

/-- Resolve the indices — and, for a navigation step, read the store. -/
def Step.resolve (f : Forest) (env : List Nat) : Step → Option Call
  | .old s => (s.resolve env).map .old
  | .child r k => nav env r (fun h => childOf f h k)
  | .parent r => nav env r (parentOf f)
  | .attrNode r name => nav env r (fun h => entryNodeOf f .attributes h name)
  | .nsNode r pfx => nav env r (fun h => entryNodeOf f .namespaces h pfx)
  | .removeAttribute e name => at1 env e (fun h => .mapRemove .attributes h name)
  | .removeNamespace e pfx => at1 env e (fun h => .mapRemove .namespaces h pfx)
  | .clearAttributes e => at1 env e (.mapClear .attributes)
  | .clearNamespaces e => at1 env e (.mapClear .namespaces)
  | .nsSetNamespace n ns => at1 env n (fun h => .nsSetNamespace h ns)
  | .piSetTarget n t => at1 env n (fun h => .piSetTarget h t)

/-! ### The implementation side -/

/-- One call on the forest model: state reached, outcome, result (if any). -/
def Call.impl (f : Forest) : Call → Forest × Res × Option Nat
  | .old c => c.impl f
  | .found h => (f, .ok, some h)
  | .mapRemove k e key => let (f', r) := f.mapRemove k e key; (f', r, none)
  | .mapClear k e => let (f', r) := f.mapClear k e; (f', r, none)
  | .nsSetNamespace n ns => let (f', r) := f.namespaceSetNamespace n ns; (f', r, none)
  | .piSetTarget n t => let (f', r) := f.piSetTarget n t; (f', r, none)

/-- One step.  An index that names nothing, and a navigation that finds nothing (`unwrap()` of
    `None`), cannot be executed: `panic`. -/
def stepImpl (s : State) (st : Step) : State × Res :=
  match st.resolve s.forest s.env with
  | none => (s, .panic)
  | some c =>
    match c.impl s.forest with
    | (f', r, o) => ({ forest := f', env := extend s.env o }, r)

/-- Run a program; stops after the first step whose outcome is not `ok`. -/
def runImpl (s : State) : Program → State × Res
  | [] => (s, .ok)
  | st :: rest =>
    match stepImpl s st with
    | (s', .ok) => runImpl s' rest
    | (s', r) => (s', r)

/-! ### The specification side -/

/-- Remove the nodes `hs` one after the other (`clear()` walks the entry nodes it collected
    first); each must still be there when its turn comes — which is always so for the entry nodes
    of an element (`Prog3.clear_accepted`, Lemmas/Fprog3Clear.lean). -/
def specRemoveAll : List Nat → Forest → Option Forest
  | [], f => some f
  | h :: hs, f => if f.isLive h then specRemoveAll hs (specRemoveP h f) else none

/-- The entry nodes of the view `k` of `e`, in order. -/
def entryHandles (f : Forest) (k : MapKind) (e : Nat) : List Nat :=
  match f.get? e with
  | some t => (Forest.mapChildren k t).map (·.handle)
  | none => []

/-- One call on the specification: `none` = ill-formed. -/
def Call.spec (f : Forest) : Call → Option (Forest × Option Nat)
  | .old c => c.spec f
  | .found h => some (f, some h)
  | .mapRemove k e key =>
    if isElementAt f e then
      match f.mapGetNode k e key with
      | some n => some (specRemoveP n.handle f, none)
      | none => some (f, none)
    else none
  | .mapClear k e =>
    if isElementAt f e then (specRemoveAll (entryHandles f k e) f).map (fun f' => (f', none)) else none
  | .nsSetNamespace n ns =>
    match f.value? n with
    | some (.namespace p _) => some (specSetValue n (.namespace p ns) f, none)
    | _ => none
  | .piSetTarget n t =>
    match f.value? n with
    | some (.pi _ d) => some (specSetValue n (.pi t d) f, none)
    | _ => none

def stepSpec (s : State) (st : Step) : Option State :=
  match st.resolve s.forest s.env with
  | none => none
  | some c =>
    match c.spec s.forest with
    | none => none
    | some (f', o) => some { forest := f', env := extend s.env o }

/-- Run a program on the specification; `none`: some step is ill-formed. -/
def runSpec (s : State) : Program → Option State
  | [] => some s
  | st :: rest =>
    match stepSpec s st with
    | none => none
    | some s' => runSpec s' rest

/-- The index of the first step the specification rejects. -/
def firstIllFormed (s : State) : Program → Option Nat
  | [] => none
  | st :: rest =>
    match stepSpec s st with
    | none => some 0
    | some s' => (firstIllFormed s' rest).map (· + 1)

/-- The index of the first step the implementation does not answer `ok`. -/
def firstRefused (s : State) : Program → Option Nat
  | [] => none
  | st :: rest =>
    match stepImpl s st with
    | (s', .ok) => (firstRefused s' rest).map (· + 1)
    | _ => some 0

/-- Calls outside the direction implementation ⇒ specification: what `Prog2.Call.inScope` excludes;
    none of the new calls. -/
def Call.inScope (f : Forest) : Call → Bool
  | .old c => c.inScope f
  | _ => true

def inScope (s : State) : Program → Bool
  | [] => true
  | st :: rest =>
    (match st.resolve s.forest s.env with
     | none => true
     | some c => c.inScope s.forest) &&
    (match stepImpl s st with
     | (s', .ok) => inScope s' rest
     | _ => true)

/-- An extended program (`Prog2`) as a program with navigation. -/
def ofOld (P : Prog2.Program) : Program := P.map .old

/-! ### Reading results off as pure trees -/

/-- The parentless tree the node `h` lies in. -/
def rootOf (f : Forest) (h : Nat) : Option HTree :=
  f.roots.find? (fun r => (HTree.find? h r).isSome)

/-- … as a pure tree. -/
def rootTreeOf (f : Forest) (h : Nat) : Option Tree := (rootOf f h).map HTree.erase

/-- The root trees of all inputs and results (`none`: the node does not exist any more). -/
def rootTrees (s : State) : List (Option Tree) := s.env.map (rootTreeOf s.forest)

/-- The subtrees of all inputs and results. -/
def subTrees (s : State) : List (Option Tree) := s.env.map s.forest.treeAt

/-- **The denotation of a program** run in the store `f` with the inputs `ins`: the root tree of
    every input and result at the end, as pure trees; `none`: the program is ill-formed. -/
def denote (f : Forest) (ins : List Nat) (P : Program) : Option (List (Option Tree)) :=
  (runSpec { forest := f, env := ins } P).map rootTrees

/-- … and the subtree a designated result carries at the end. -/
def denoteAt (f : Forest) (ins : List Nat) (P : Program) (r : Nat) : Option Tree :=
  match runSpec { forest := f, env := ins } P with
  | some s' =>
    match s'.env[r]? with
    | some h => s'.forest.treeAt h
    | none => none
  | none => none

/-! ### Addresses without names (for the statement of what is NOT proved: handle-independence) -/

mutual
  /-- The path of raw child indices from the root of the tree to the node named `h`. -/
  def pathIn (h : Nat) : HTree → Option (List Nat)
    | .node h' _ ks => if h' = h then some [] else pathInList h 0 ks
  /-- … in a child list (or the list of parentless trees) whose first member has the index `i`. -/
  def pathInList (h : Nat) (i : Nat) : List HTree → Option (List Nat)
    | [] => none
    | k :: ks =>
      match pathIn h k with
      | some p => some (i :: p)
      | none => pathInList h (i + 1) ks
end

/-- Where the node `h` lies, said without names: the index of its parentless tree, then the path. -/
def addressOf (f : Forest) (h : Nat) : Option (List Nat) := pathInList h 0 f.roots

/-- Two stores with inputs that cannot be told apart without looking at node names: the same pure
    trees in the same order, the same settings, the inputs at the same places. -/
def SameUpToNames (f1 : Forest) (ins1 : List Nat) (f2 : Forest) (ins2 : List Nat) : Prop :=
  f1.content = f2.content ∧ f1.consolidation = f2.consolidation ∧ f1.everOff = f2.everOff ∧
  ins1.map (addressOf f1) = ins2.map (addressOf f2) ∧ ∀ h ∈ ins1, (addressOf f1 h).isSome

/-- `P`, run in the store `f` with the inputs `ins`, ends in the tree `T` at the result `root`. -/
def Constructs (f : Forest) (ins : List Nat) (P : Program) (root : Nat) (T : Tree) : Prop :=
  denoteAt f ins P root = some T

end Prog3
end XotModel
