/-
  XotModel.Model.Lex — the reference tokenizer: `Tokenizer::next` of xmlparser 0.13.6 iterated
  the way `Xot::_parse` (/repo/src/parse.rs) iterates it — `tokenizer.stream().pos()` is read
  before every `next()`, the first `Some(Err(_))` ends the run and is reported with that
  position.

      lexDocument s = (tokens before the first error, some pos | none)     Tokenizer::from(s)
      lexFragment s = …                                       Tokenizer::from_fragment(s, 0..len)

  This is exactly what `harness/src/build_obs.rs::dump_tokens` observes of the real tokenizer
  (correspondence suite `lex`).  The recursion is well-founded on `Tokenizer.measure`; the two
  progress theorems below are what the real code's termination rests on as well.
-/
import XotModel.Model.LexProgress

namespace XotModel.Lex

open XotModel.Lex.Stream

/-- A call of `parse_next_impl` that returns a token has consumed at least one character. -/
theorem parseNextImpl_token {tk tk' : Tokenizer} {t : Token} (he : tk.stream.atEnd = false)
    (h : parseNextImpl tk = .token t tk') : Adv1 tk.stream tk'.stream := by
  unfold parseNextImpl at h
  simp only [he, Bool.false_eq_true, if_false] at h
  split at h
  · -- declaration
    split at h
    · obtain ⟨s', hr, rfl⟩ := Step.ofParse_token h
      exact ⟨6, by omega, parseDeclaration_reach hr⟩
    · simp at h
  · -- afterDeclaration
    split at h
    · split at h
      · simp at h
      · next t1 s1 hd =>
        simp only [Step.token.injEq] at h
        obtain ⟨_, rfl⟩ := h
        exact ⟨9, by omega, parseDoctype_reach hd⟩
    · rcases miscStep_token h with h | h
      · exact h
      · split at h <;> simp at h
  · -- dtd
    split at h
    · obtain ⟨s', hr, rfl⟩ := Step.ofParse_token h
      exact ⟨8, by omega, parseEntityDecl_reach hr⟩
    · rcases miscStep_token h with h | h
      · exact h
      · split at h
        · split at h
          · simp only [Step.token.injEq] at h
            obtain ⟨_, rfl⟩ := h
            exact (Adv1.one _).trans_reach ((skipSpaces_reach _).trans (Reach.adv _ 1))
          · simp at h
        · split at h
          · simp at h
          · split at h
            · split at h <;> simp at h
            · simp at h
  · -- afterDtd
    rcases miscStep_token h with h | h
    · exact h
    · split at h
      · simp at h
      · split at h
        · obtain ⟨s', hr, rfl⟩ := Step.ofParse_token h
          exact ⟨1, by omega, parseElementStart_reach hr⟩
        · split at h <;> simp at h
  · -- elements
    split at h
    · split at h
      · simp at h
      · split at h
        · split at h
          · obtain ⟨s', hr, rfl⟩ := Step.ofParse_token h
            exact ⟨4, by omega, parseComment_reach hr⟩
          · split at h
            · obtain ⟨s', hr, rfl⟩ := Step.ofParse_token h
              exact ⟨9, by omega, parseCdata_reach hr⟩
            · simp at h
        · split at h
          · split at h
            · obtain ⟨s', hr, rfl⟩ := Step.ofParse_token h
              exact ⟨2, by omega, parsePI_reach hr⟩
            · simp at h
          · split at h
            · obtain ⟨s', hr, rfl⟩ := Step.ofParse_token h
              exact ⟨2, by omega, parseCloseElement_reach hr⟩
            · obtain ⟨s', hr, rfl⟩ := Step.ofParse_token h
              exact ⟨1, by omega, parseElementStart_reach hr⟩
    · next hc =>
      obtain ⟨s', hr, rfl⟩ := Step.ofParse_token h
      exact parseText_adv1 hr (by simpa using hc) he
  · -- attributes
    split at h
    · simp at h
    · next t1 s1 ha =>
      have := parseAttribute_adv1 ha
      split at h <;>
        (simp only [Step.token.injEq] at h; obtain ⟨_, rfl⟩ := h; exact this)
  · -- afterElements
    rcases miscStep_token h with h | h
    · exact h
    · split at h <;> simp at h
  · simp at h

/-- A call of `parse_next_impl` that returns `None` on a stream not at its end has moved forward
    or has left `Declaration` / `AfterDeclaration`. -/
theorem parseNextImpl_skip {tk tk' : Tokenizer} (he : tk.stream.atEnd = false)
    (hf : tk.state ≠ .finished) (h : parseNextImpl tk = .skip tk') :
    Reach tk.stream tk'.stream ∧ tk'.measure < tk.measure := by
  have sp : ∀ {st : State}, tk.stream.startsWithSpace = true →
      Reach tk.stream tk.stream.skipSpaces ∧
        Tokenizer.measure { tk with stream := tk.stream.skipSpaces, state := st } <
          Tokenizer.measure { tk with state := st } := by
    intro st hs
    have := (skipSpaces_adv1 hs).len_lt he
    exact ⟨skipSpaces_reach _, by simp only [Tokenizer.measure]; omega⟩
  unfold parseNextImpl at h
  simp only [he, Bool.false_eq_true, if_false] at h
  split at h
  · next hst =>
    split at h
    · exact absurd h Step.ofParse_skip
    · simp only [Step.skip.injEq] at h
      subst h
      exact ⟨Reach.refl _, by simp [Tokenizer.measure, hst, State.rank]⟩
  · next hst =>
    split at h
    · split at h <;> simp at h
    · have h := miscStep_skip h
      split at h
      · next hs =>
        simp only [Step.skip.injEq] at h
        subst h
        have := @sp tk.state hs
        exact this
      · simp only [Step.skip.injEq] at h
        subst h
        exact ⟨Reach.refl _, by simp [Tokenizer.measure, hst, State.rank]⟩
  · split at h
    · exact absurd h Step.ofParse_skip
    · have h := miscStep_skip h
      split at h
      · split at h <;> simp at h
      · split at h
        · next hs =>
          simp only [Step.skip.injEq] at h
          subst h
          exact @sp tk.state hs
        · split at h
          · split at h
            · simp at h
            · next s1 hd =>
              simp only [Step.skip.injEq] at h
              subst h
              have r := consumeDecl_reach hd
              have a : Adv1 tk.stream s1 := by
                unfold consumeDecl at hd
                have e := consumeByte_eq hd
                exact Adv1.of_reach (skipBytes_reach _ _) (e ▸ Adv1.one _)
              have := a.len_lt he
              exact ⟨r, by simp only [Tokenizer.measure]; omega⟩
          · simp at h
  · have h := miscStep_skip h
    split at h
    · simp at h
    · split at h
      · exact absurd h Step.ofParse_skip
      · split at h
        · next hs =>
          simp only [Step.skip.injEq] at h
          subst h
          exact @sp tk.state hs
        · simp at h
  · split at h
    · split at h
      · simp at h
      · split at h
        · split at h
          · exact absurd h Step.ofParse_skip
          · split at h
            · exact absurd h Step.ofParse_skip
            · simp at h
        · split at h
          · split at h
            · exact absurd h Step.ofParse_skip
            · simp at h
          · split at h <;> exact absurd h Step.ofParse_skip
    · exact absurd h Step.ofParse_skip
  · split at h
    · simp at h
    · split at h <;> simp at h
  · have h := miscStep_skip h
    split at h
    · next hs =>
      simp only [Step.skip.injEq] at h
      subst h
      exact @sp tk.state hs
    · simp at h
  · next hst =>
    exact absurd hst hf

theorem State.rank_le (st : State) : st.rank ≤ 2 := by
  cases st <;> simp [State.rank]

/-- `Tokenizer::next` (`while !at_end && state != End && t.is_none() { t = parse_next_impl() }`)
    iterated as `Xot::_parse` and `dump_tokens` iterate it: `position` is the stream position
    read before the pending `next()`; a token is followed by the next `next()`, `None` ends the
    run, `Some(Err(_))` ends it with `position` (the tokenizer then jumps to the end and enters
    `State::End`, so nothing follows). -/
def lexLoop (tk : Tokenizer) (position : Nat) : List Token × Option Nat :=
  if _hcond : tk.stream.atEnd = true ∨ tk.state = .finished then ([], none)
  else
    match _hs : parseNextImpl tk with
    | .skip tk' => lexLoop tk' position
    | .token t tk' =>
      let r := lexLoop tk' tk'.stream.pos
      (t :: r.1, r.2)
    | .error => ([], some position)
termination_by tk.measure
decreasing_by
  · have he : tk.stream.atEnd = false := by
      cases h : tk.stream.atEnd <;> simp_all
    exact (parseNextImpl_skip he (fun h => _hcond (.inr h)) _hs).2
  · have he : tk.stream.atEnd = false := by
      cases h : tk.stream.atEnd <;> simp_all
    have := (parseNextImpl_token he _hs).len_lt he
    have := State.rank_le tk'.state
    simp only [Tokenizer.measure]
    omega

end XotModel.Lex

namespace XotModel

/-- The reference tokenizer on a document (`Xot::parse`): the tokens before the first tokenizer
    error, and the position `Xot::_parse` reports for that error (`ParseError::XmlParser(_, pos)`),
    if there is one. -/
def lexDocument (s : Str) : List Token × Option Nat :=
  let tk := Lex.Tokenizer.ofStr s
  Lex.lexLoop tk tk.stream.pos

/-- The reference tokenizer on a fragment (`Xot::parse_fragment`). -/
def lexFragment (s : Str) : List Token × Option Nat :=
  let tk := Lex.Tokenizer.ofFragment s
  Lex.lexLoop tk tk.stream.pos

end XotModel
