/-
  XotModel.Model.FmapSpec — the reference for C11: an insertion-ordered association list
  with unique keys, and the abstraction function from the forest to it.

  `abs k f e` = the (key, payload) pairs of the attribute / namespace children of the element
  `e`, in child order, exactly the children the Rust adapters select
  (`AttributeAdapter::children`, `NamespaceAdapter::children` = `Forest.mapChildren`).

  The reference operations are the classical ones of an ordered map
  (indexmap's `insert` / `shift_remove` / `clear`): inserting an existing key replaces the
  value in place, inserting a new key appends at the end.
-/
import XotModel.Model.Manip
import XotModel.Model.Names

namespace XotModel
namespace Fmap
open Forest (MapKind entryKey mapChildren)

/-- The value half of an entry: the attribute's string or the declared namespace id. -/
inductive Payload where
  | str (s : Str)
  | ns (n : Nat)
  | other
  deriving Repr, DecidableEq, Inhabited

/-- `A::value`. -/
def payloadOf : Value → Payload
  | .attribute _ v => .str v
  | .namespace _ n => .ns n
  | _ => .other

/-- `A::create(key, value)`. -/
def mkEntry : MapKind → Nat → Payload → Value
  | .attributes, key, .str s => .attribute key s
  | .attributes, key, _ => .attribute key []
  | .namespaces, key, .ns n => .namespace key n
  | .namespaces, key, _ => .namespace key 0

/-- `(A::key, A::value)` of an entry node. -/
def entryPair (t : HTree) : Nat × Payload := (entryKey t.value, payloadOf t.value)

/-- The view's content read off one element subtree. -/
def absT (k : MapKind) (t : HTree) : List (Nat × Payload) := (mapChildren k t).map entryPair

/-- The abstraction function: the attribute / namespace view of node `e` as an association list
    in child order (empty for a handle that is not live). -/
def abs (k : MapKind) (f : Forest) (e : Nat) : List (Nat × Payload) :=
  match f.get? e with
  | some t => absT k t
  | none => []

/-- The entry nodes' handles, in order (`nodes()`). -/
def absNodes (k : MapKind) (f : Forest) (e : Nat) : List Nat :=
  match f.get? e with
  | some t => (mapChildren k t).map (·.handle)
  | none => []

/-- Typed projections of `abs`: what `iter()` yields for each adapter. -/
def absAttrs (f : Forest) (e : Nat) : List (Nat × Str) :=
  (abs .attributes f e).filterMap fun p => match p.2 with | .str s => some (p.1, s) | _ => none
def absNs (f : Forest) (e : Nat) : List (Nat × Nat) :=
  (abs .namespaces f e).filterMap fun p => match p.2 with | .ns n => some (p.1, n) | _ => none

/-! ### The reference: insertion-ordered association list -/

abbrev OMap (β : Type) := List (Nat × β)

variable {β : Type}

/-- Existing key: the value is replaced in place. New key: appended at the end. -/
def omInsert : OMap β → Nat → β → OMap β
  | [], k, v => [(k, v)]
  | (k', v') :: rest, k, v => if k' = k then (k', v) :: rest else (k', v') :: omInsert rest k v

/-- The entry with the key is dropped, the others keep their order. -/
def omRemove : OMap β → Nat → OMap β
  | [], _ => []
  | (k', v') :: rest, k => if k' = k then rest else (k', v') :: omRemove rest k

def omClear (_ : OMap β) : OMap β := []

/-- Apply `g` to the value stored under the key, if any (`get_mut` + write, `and_modify`). -/
def omModify : OMap β → Nat → (β → β) → OMap β
  | [], _, _ => []
  | (k', v') :: rest, k, g => if k' = k then (k', g v') :: rest else (k', v') :: omModify rest k g

def omLen (m : OMap β) : Nat := m.length
def omIsEmpty (m : OMap β) : Bool := m.isEmpty
def omGet (m : OMap β) (k : Nat) : Option β := m.lookup k
def omContainsKey (m : OMap β) (k : Nat) : Bool := (omGet m k).isSome
def omKeys (m : OMap β) : List Nat := m.map (·.1)
def omValues (m : OMap β) : List β := m.map (·.2)

/-- A well-formed reference map has distinct keys. -/
def omWf (m : OMap β) : Prop := (omKeys m).Nodup

/-! ### Histories of updates on one element -/

/-- One update of one of the two views of an element.
    `insert` = `MutableNodeMap::insert` (`set_attribute`, `set_namespace`); `remove` =
    `MutableNodeMap::remove` (`remove_attribute`, `remove_namespace`); `clear`;
    `insertNode` = `new_attribute_node` / `new_namespace_node` followed by
    `append_attribute_node` / `append_namespace_node` (= `any_append`) of that fresh node. -/
inductive MapOp where
  | insert (k : MapKind) (entry : Value)
  | remove (k : MapKind) (key : Nat)
  | clear (k : MapKind)
  | insertNode (k : MapKind) (entry : Value)
  deriving Repr, Inhabited

def MapOp.kind : MapOp → MapKind
  | .insert k _ | .remove k _ | .clear k | .insertNode k _ => k

/-- The entry value fits the view it is given to. -/
def MapOp.wf : MapOp → Bool
  | .insert k v | .insertNode k v => k.matches v
  | _ => true

/-- The model's step. -/
def MapOp.run (e : Nat) (f : Forest) : MapOp → Forest × Res
  | .insert k v => f.mapInsert k e v
  | .remove k key => f.mapRemove k e key
  | .clear k => f.mapClear k e
  | .insertNode k v =>
    let (f1, n) := f.newNode v
    let (f2, r, _) := f1.appendEntryNode k e n
    (f2, r)

/-- The reference map's step. -/
def MapOp.spec : MapOp → OMap Payload → OMap Payload
  | .insert _ v, m | .insertNode _ v, m => omInsert m (entryKey v) (payloadOf v)
  | .remove _ key, m => omRemove m key
  | .clear _, m => omClear m

/-- The step as seen by view `k`: updates of the other view do not concern it. -/
def MapOp.specFor (k : MapKind) (op : MapOp) (m : OMap Payload) : OMap Payload :=
  if op.kind = k then op.spec m else m

/-- Run a history; the outcomes are collected. -/
def runOps (e : Nat) : Forest → List MapOp → Forest × List Res
  | f, [] => (f, [])
  | f, op :: ops =>
    let (f1, r) := op.run e f
    let (f2, rs) := runOps e f1 ops
    (f2, r :: rs)

def specOps (k : MapKind) (m : OMap Payload) (ops : List MapOp) : OMap Payload :=
  ops.foldl (fun m op => op.specFor k m) m

end Fmap
end XotModel
