/-
  XotModel.Model.ArenaOps — the mutating half of indextree 4.7.2 as written:
  `relations.rs` (`connect_neighbors`, `insert_with_neighbors`), `siblings_range.rs`
  (`SiblingsRange::detach_from_siblings`, `DetachedSiblingsRange::rewrite_parents`,
  `transplant`), `id.rs` (`detach`, `checked_append`, `checked_prepend`,
  `checked_insert_after`, `checked_insert_before`, `append`, `remove`, `remove_subtree`).
  Statement order, short-circuit evaluation, argument evaluation order and the `expect`s are
  those of the Rust; see `Model/Arena.lean` for `Step`, `rd`, `wr`, the fuel.
-/
import XotModel.Model.Arena

namespace XotModel
namespace Arena

/-- `indextree::NodeError`. -/
inductive NodeError where
  | appendSelf | prependSelf | insertBeforeSelf | insertAfterSelf | removed
  | appendAncestor | prependAncestor
  deriving DecidableEq, Repr

/-- `indextree::error::ConsistencyError`. -/
inductive ConsistencyError where
  | parentChildLoop | siblingsLoop
  deriving DecidableEq, Repr

instance : DecidableEq (Except NodeError Unit)
  | .ok (), .ok () => isTrue rfl
  | .error e, .error e' => if h : e = e' then isTrue (by rw [h]) else isFalse (fun h' => h (by cases h'; rfl))
  | .ok (), .error _ => isFalse (fun h => by cases h)
  | .error _, .ok () => isFalse (fun h => by cases h)

/-- `relations::connect_neighbors`. -/
def connectNeighbors (a : Arena) (parent previous next : Option NodeId) : Step Unit :=
  -- let (mut parent_first_child, mut parent_last_child) = parent.map(|id| &arena[id]).map_or(…)
  let readParent (k : Option NodeId → Option NodeId → Step Unit) : Step Unit :=
    match parent with
    | none => k none none
    | some id => rd a id fun node => k node.first node.last
  readParent fun pfc plc =>
    -- if let Some(previous) = previous { arena[previous].next_sibling = next; … }
    let stepPrev (k : Arena → Option NodeId → Step Unit) : Step Unit :=
      match previous with
      | some p => wr a p (fun s => { s with next := next }) fun a1 => k a1 (pfc.or (some p))
      | none => k a next
    stepPrev fun a1 pfc1 =>
      -- if let Some(next) = next { arena[next].previous_sibling = previous; … }
      let stepNext (k : Arena → Option NodeId → Step Unit) : Step Unit :=
        match next with
        | some n => wr a1 n (fun s => { s with prev := previous }) fun a2 => k a2 (plc.or (some n))
        | none => k a1 previous
      stepNext fun a2 plc1 =>
        -- if let Some(parent_node) = parent.map(|id| &mut arena[id]) { … }
        match parent with
        | some id => wr a2 id (fun s => { s with first := pfc1, last := plc1 }) fun a3 => .done a3 ()
        | none => .done a2 ()

/-- `SiblingsRange::new(first, last).detach_from_siblings(arena)`. -/
def detachFromSiblings (a : Arena) (first last : NodeId) : Step Unit :=
  -- let parent = arena[self.first].parent;
  rd a first fun sf =>
    let parent := sf.parent
    -- let prev_of_range = arena[self.first].previous_sibling.take();
    let prevOfRange := sf.prev
    wr a first (fun s => { s with prev := none }) fun a1 =>
      -- let next_of_range = arena[self.last].next_sibling.take();
      rd a1 last fun sl =>
        let nextOfRange := sl.next
        wr a1 last (fun s => { s with next := none }) fun a2 =>
          connectNeighbors a2 parent prevOfRange nextOfRange

/-- `DetachedSiblingsRange::rewrite_parents`: the `while let Some(child) = child_opt` loop. -/
def rewriteParents : Nat → Arena → Option NodeId → Option NodeId → Step (Except ConsistencyError Unit)
  | 0, a, _, _ => .diverge a
  | fuel + 1, a, childOpt, newParent =>
    match childOpt with
    | none => .done a (.ok ())
    | some child =>
      if some child = newParent then .done a (.error .parentChildLoop)
      else
        -- let child_node = &mut arena[child]; child_node.parent = new_parent;
        -- child_opt = child_node.next_sibling;
        wr a child (fun s => { s with parent := newParent }) fun a1 =>
          rd a1 child fun s => rewriteParents fuel a1 s.next newParent

/-- `DetachedSiblingsRange { first, last }.transplant(arena, parent, previous_sibling, next_sibling)`. -/
def transplant (a : Arena) (first last : NodeId) (parent previous next : Option NodeId) :
    Step (Except ConsistencyError Unit) :=
  -- self.rewrite_parents(arena, parent)?;
  (rewriteParents a.fuel a (some first) parent).bind fun a1 r =>
    match r with
    | .error e => .done a1 (.error e)
    | .ok () =>
      (connectNeighbors a1 parent previous (some first)).bind fun a2 _ =>
        (connectNeighbors a2 parent (some last) next).bind fun a3 _ =>
          .done a3 (.ok ())

/-- `relations::insert_with_neighbors`; the inner `transplant(...).expect(...)` is a panic. -/
def insertWithNeighbors (a : Arena) (new : NodeId) (parent previous next : Option NodeId) :
    Step (Except ConsistencyError Unit) :=
  if previous = some new || next = some new then .done a (.error .siblingsLoop)
  else if parent = some new then .done a (.error .parentChildLoop)
  else
    (detachFromSiblings a new new).bind fun a1 _ =>
      (transplant a1 new new parent previous next).bind fun a2 r =>
        match r with
        | .error _ => .panic a2
        | .ok () => .done a2 (.ok ())

/-- `r.expect(...)` on the result of `insert_with_neighbors` / `transplant`. -/
def expectOk (s : Step (Except ConsistencyError Unit)) : Step Unit :=
  s.bind fun a r =>
    match r with
    | .error _ => .panic a
    | .ok () => .done a ()

/-- `NodeId::detach`. -/
def detach (a : Arena) (self : NodeId) : Step Unit :=
  (detachFromSiblings a self self).bind fun a1 _ =>
    expectOk (rewriteParents a1.fuel a1 (some self) none)

/-- `self.ancestors(arena).any(|ancestor| new_child == ancestor)`. -/
def ancestorsAny : Nat → Arena → Option NodeId → NodeId → Step Bool
  | 0, a, _, _ => .diverge a
  | fuel + 1, a, cur, target =>
    match cur with
    | none => .done a false
    | some node =>
      -- Ancestors::next: self.node = next(&self.arena[node]); Some(node)
      rd a node fun s =>
        if target = node then .done a true else ancestorsAny fuel a s.parent target

/-- `arena[self].is_removed() || arena[other].is_removed()` (short-circuit). -/
def eitherRemoved (a : Arena) (self other : NodeId) : Step Bool :=
  rd a self fun s =>
    if s.isRemoved then .done a true
    else rd a other fun o => .done a o.isRemoved

/-- `NodeId::checked_append`. -/
def checkedAppend (a : Arena) (self newChild : NodeId) : Step (Except NodeError Unit) :=
  if newChild = self then .done a (.error .appendSelf)
  else (eitherRemoved a self newChild).bind fun a rem =>
    if rem then .done a (.error .removed)
    else (ancestorsAny a.fuel a (some self) newChild).bind fun a anc =>
      if anc then .done a (.error .appendAncestor)
      else (detach a newChild).bind fun a1 _ =>
        -- insert_with_neighbors(arena, new_child, Some(self), arena[self].last_child, None)
        rd a1 self fun s =>
          (expectOk (insertWithNeighbors a1 newChild (some self) s.last none)).bind fun a2 _ =>
            .done a2 (.ok ())

/-- `NodeId::checked_prepend` (no `detach` before `insert_with_neighbors`). -/
def checkedPrepend (a : Arena) (self newChild : NodeId) : Step (Except NodeError Unit) :=
  if newChild = self then .done a (.error .prependSelf)
  else (eitherRemoved a self newChild).bind fun a rem =>
    if rem then .done a (.error .removed)
    else (ancestorsAny a.fuel a (some self) newChild).bind fun a anc =>
      if anc then .done a (.error .prependAncestor)
      else
        rd a self fun s =>
          (expectOk (insertWithNeighbors a newChild (some self) none s.first)).bind fun a2 _ =>
            .done a2 (.ok ())

/-- `NodeId::checked_insert_after`. -/
def checkedInsertAfter (a : Arena) (self newSibling : NodeId) : Step (Except NodeError Unit) :=
  if newSibling = self then .done a (.error .insertAfterSelf)
  else (eitherRemoved a self newSibling).bind fun a rem =>
    if rem then .done a (.error .removed)
    else (detach a newSibling).bind fun a1 _ =>
      rd a1 self fun cur =>
        (expectOk (insertWithNeighbors a1 newSibling cur.parent (some self) cur.next)).bind fun a2 _ =>
          .done a2 (.ok ())

/-- `NodeId::checked_insert_before`. -/
def checkedInsertBefore (a : Arena) (self newSibling : NodeId) : Step (Except NodeError Unit) :=
  if newSibling = self then .done a (.error .insertBeforeSelf)
  else (eitherRemoved a self newSibling).bind fun a rem =>
    if rem then .done a (.error .removed)
    else (detach a newSibling).bind fun a1 _ =>
      rd a1 self fun cur =>
        (expectOk (insertWithNeighbors a1 newSibling cur.parent cur.prev (some self))).bind fun a2 _ =>
          .done a2 (.ok ())

/-- `r.expect("Preconditions not met: invalid argument")`. -/
def unwrapNodeError (s : Step (Except NodeError Unit)) : Step Unit :=
  s.bind fun a r =>
    match r with
    | .error _ => .panic a
    | .ok () => .done a ()

/-- `NodeId::append` / `prepend` / `insert_after` / `insert_before`. -/
def append (a : Arena) (self newChild : NodeId) : Step Unit := unwrapNodeError (checkedAppend a self newChild)
def prepend (a : Arena) (self newChild : NodeId) : Step Unit := unwrapNodeError (checkedPrepend a self newChild)
def insertAfter (a : Arena) (self n : NodeId) : Step Unit := unwrapNodeError (checkedInsertAfter a self n)
def insertBefore (a : Arena) (self n : NodeId) : Step Unit := unwrapNodeError (checkedInsertBefore a self n)

/-- `NodeId::remove`: the children take the node's place. -/
def remove (a : Arena) (self : NodeId) : Step Unit :=
  rd a self fun node =>
    -- assert_eq!(first_child.is_some(), last_child.is_some());
    if node.first.isSome != node.last.isSome then .panic a
    else (detach a self).bind fun a1 _ =>
      let moveKids (k : Arena → Step Unit) : Step Unit :=
        match node.first, node.last with
        | some fc, some lc =>
          (detachFromSiblings a1 fc lc).bind fun a2 _ =>
            (expectOk (transplant a2 fc lc node.parent node.prev node.next)).bind fun a3 _ => k a3
        | _, _ => k a1
      moveKids fun a3 => freeNode a3 self

/-- `id.ancestors(arena).skip(1).find(|n| arena[*n].next_sibling.is_some())`, from the cursor
    the iterator holds after `skip(1)`. -/
def findAncestorWithNext : Nat → Arena → Option NodeId → Step (Option NodeId)
  | 0, a, _ => .diverge a
  | fuel + 1, a, cur =>
    match cur with
    | none => .done a none
    | some n =>
      rd a n fun s =>
        if s.next.isSome then .done a (some n) else findAncestorWithNext fuel a s.parent

/-- The `while let Some(id) = cursor` loop of `NodeId::remove_subtree`. -/
def removeSubtreeLoop : Nat → Arena → Option NodeId → Step Unit
  | 0, a, _ => .diverge a
  | fuel + 1, a, cursor =>
    match cursor with
    | none => .done a ()
    | some id =>
      (freeNode a id).bind fun a1 _ =>
        rd a1 id fun node =>
          match node.first.or node.next with
          | some c => removeSubtreeLoop fuel a1 (some c)
          | none =>
            -- ancestors(arena).skip(1): `next()` once, reading arena[id].parent
            (findAncestorWithNext a1.fuel a1 node.parent).bind fun a2 r =>
              match r with
              | none => removeSubtreeLoop fuel a2 none
              | some n => rd a2 n fun s => removeSubtreeLoop fuel a2 s.next

/-- `NodeId::remove_subtree`. -/
def removeSubtree (a : Arena) (self : NodeId) : Step Unit :=
  (detach a self).bind fun a1 _ => removeSubtreeLoop a1.fuel a1 (some self)

end Arena
end XotModel
