/-
  XotModel.Model.Pretty — output/pretty.rs (`Pretty`, the indentation stack machine) and its two
  users: `Xot::pretty_tokens` (serialize.rs) and `XmlSerializer::serialize_pretty`.
  `is_inline` is `|_| false` for XML output, `is_suppressed` = membership in the suppress list.
-/
import XotModel.Model.Output

namespace XotModel
open Gen

/-- `pretty.rs Space`. -/
inductive Space where
  | empty | default | preserve
  deriving Repr, DecidableEq, Inhabited

/-- `pretty.rs StackEntry`. -/
inductive StackEntry where
  | unmixed (s : Space)
  | mixed
  deriving Repr, DecidableEq, Inhabited

/-- `Pretty.stack`, top (last pushed) first. -/
abbrev PStack := List StackEntry

namespace PStack

/-- `in_mixed`. -/
def inMixed (s : PStack) : Bool := s.any (· == .mixed)

/-- `in_space_preserve`: `for entry in self.stack.iter().rev()`. -/
def inSpacePreserve : PStack → Bool
  | [] => false
  | .unmixed .preserve :: _ => true
  | .unmixed .default :: _ => false
  | .unmixed .empty :: rest => inSpacePreserve rest
  | .mixed :: _ => false

/-- The body of the `for entry in self.stack.iter()` loop of `get_indentation`:
    state = `(count, in_preserve)`. -/
def indentStep (st : Nat × Bool) : StackEntry → Nat × Bool
  | .unmixed .default => (st.1 + 1, false)
  | .unmixed .preserve => (st.1, true)
  | .unmixed .empty => if !st.2 then (st.1 + 1, st.2) else st
  | .mixed => st

/-- `get_indentation` (the loop runs from the bottom of the stack). -/
def getIndentation (s : PStack) : Nat :=
  if inMixed s || inSpacePreserve s then 0 else (s.reverse.foldl indentStep (0, false)).1

/-- `get_newline`. -/
def getNewline (s : PStack) : Bool := !inMixed s && !inSpacePreserve s

end PStack

/-- `has_inline_child` with `is_inline = |_| false`. -/
def hasInlineChild (node : Tree) : Bool := node.normalKids.any (fun k => k.value.isText)

/-- `element_space`: the `xml:space` attribute of the element. -/
def elementSpace (node : Tree) : Space :=
  match node.getAttribute Env.xmlSpaceName with
  | some v => if v == spacePreserve then .preserve else if v == spaceDefault then .default else .empty
  | none => .empty

/-- `Pretty::prettify(node, output)`: new stack, indentation, newline. -/
def prettify (suppress : List Nat) (s : PStack) (node : Tree) : Output → PStack × Nat × Bool
  | .startTagOpen _ => (s, s.getIndentation, false)
  | .comment _ => (s, s.getIndentation, s.getNewline)
  | .pi _ _ => (s, s.getIndentation, s.getNewline)
  | .startTagClose =>
    if node.firstChild?.isSome then
      if !hasInlineChild node then
        let isSuppressed := match node.value with
          | .element name => suppress.contains name
          | _ => false
        let s' : PStack := if isSuppressed then .mixed :: s else .unmixed (elementSpace node) :: s
        (s', 0, s'.getNewline)
      else (.mixed :: s, 0, false)
    else (s, 0, false)
  | .endTag _ =>
    if node.firstChild?.isSome then
      let noIndentation := s.inMixed || s.inSpacePreserve
      let s' : PStack := s.tail
      (s', if !noIndentation then s'.getIndentation else 0, s'.getNewline)
    else (s, 0, s.getNewline)
  | _ => (s, 0, false)

/-- `prettify` for the node at `path` (a missing node cannot occur; nothing is done). -/
def prettifyAt (suppress : List Nat) (t : Tree) (s : PStack) (path : Path) (o : Output) :
    PStack × Nat × Bool :=
  match t.at? path with
  | some node => prettify suppress s node o
  | none => (s, 0, false)

/-- The stream of `Xot::pretty_tokens`: `prettify` first, then `render_output`. -/
def prettyAllWith (esc : Escapers) (env : Env) (pr : TokenParams) (suppress : List Nat) (t : Tree) :
    PStack → FStack → List (Path × Output) →
    Outcome XotError (List (Path × Output × PrettyOutputToken))
  | _, _, [] => .ok []
  | ps, s, (p, o) :: rest =>
    let (ps', ind, nl) := prettifyAt suppress t ps p o
    match renderAtWith esc env pr t s p o with
    | .ok (s', tok) =>
      (match prettyAllWith esc env pr suppress t ps' s' rest with
       | .ok l => .ok ((p, o, ⟨ind, tok.space, tok.text, nl⟩) :: l)
       | .err e => .err e
       | .panic => .panic)
    | .err e => .err e
    | .panic => .panic

/-- `Xot::pretty_tokens` collected (`.unwrap()`: an error is a panic). -/
def prettyTokensWith (esc : Escapers) (env : Env) (pr : TokenParams) (suppress : List Nat)
    (t : Tree) (start : Path) : Outcome XotError (List (Path × Output × PrettyOutputToken)) :=
  match prettyAllWith esc env pr suppress t [] (initStack t start) (genOutputs t start) with
  | .ok l => .ok l
  | .err _ => .panic
  | .panic => .panic

/-- `" ".repeat(indentation * 2)`. -/
def indentBytes (n : Nat) : Str := (List.replicate (n * indentWidth) indentUnit).flatten

/-- What `serialize_pretty` writes for one event. -/
def prettyTokenBytes (k : PrettyOutputToken) : Str :=
  (if k.indentation > 0 then indentBytes k.indentation else [])
    ++ (if k.space then tokenSpace else []) ++ k.text
    ++ (if k.newline then prettyNewline else [])

/-- `XmlSerializer::serialize_pretty(w, outputs, suppress)`: bytes written and how it ended.
    The indentation is written before `serialize_node` can fail. -/
def writePrettyGoWith (esc : Escapers) (env : Env) (pr : TokenParams) (suppress : List Nat) (t : Tree) :
    PStack → FStack → List (Path × Output) → Str × Outcome XotError Unit
  | _, _, [] => ([], .ok ())
  | ps, s, (p, o) :: rest =>
    let (ps', ind, nl) := prettifyAt suppress t ps p o
    let pre := if ind > 0 then indentBytes ind else []
    match renderAtWith esc env pr t s p o with
    | .ok (s', tok) =>
      let (w, r) := writePrettyGoWith esc env pr suppress t ps' s' rest
      (pre ++ tokenBytes tok ++ (if nl then prettyNewline else []) ++ w, r)
    | .err e => (pre, .err e)
    | .panic => (pre, .panic)

def serializePrettyWriteWith (esc : Escapers) (env : Env) (pr : TokenParams) (suppress : List Nat)
    (t : Tree) (start : Path) : Str × Outcome XotError Unit :=
  writePrettyGoWith esc env pr suppress t [] (initStack t start) (genOutputs t start)

/-- `serialize_xml_string` with `indentation: Some(Indentation { suppress })` and no prolog. -/
def serializePrettyWith (esc : Escapers) (env : Env) (pr : TokenParams) (suppress : List Nat)
    (t : Tree) (start : Path) : Outcome XotError Str :=
  bufferToString (serializePrettyWriteWith esc env pr suppress t start)

/-! ### The same in front of a writer that can fail -/

/-- One iteration of `serialize_pretty`'s loop, in statement order:
    `let (indentation, newline) = pretty.prettify(node, &output);`
    `if indentation > 0 { w.write_all(" ".repeat(indentation * 2).as_bytes())?; }`
    `self.serialize_node(w, node, output)?;`  (render — may fail —, token space, token text)
    `if newline { w.write_all(b"\n")?; }`.
    The indentation is offered to the writer before `render_output` can fail. -/
def prettyStepCalls (esc : Escapers) (env : Env) (pr : TokenParams) (suppress : List Nat) (t : Tree)
    (st : PStack × FStack) (po : Path × Output) : List Str × Outcome XotError (PStack × FStack) :=
  let (ps', ind, nl) := prettifyAt suppress t st.1 po.1 po.2
  let pre : List Str := if ind > 0 then [indentBytes ind] else []
  match renderAtWith esc env pr t st.2 po.1 po.2 with
  | .ok (s', tok) => (pre ++ tokenCalls tok ++ (if nl then [prettyNewline] else []), .ok (ps', s'))
  | .err e => (pre, .err e)
  | .panic => (pre, .panic)

/-- `XmlSerializer::serialize_pretty(w, outputs, suppress)` with a writer that can fail. -/
def writePrettyGoW (P : WriterPolicy) (esc : Escapers) (env : Env) (pr : TokenParams)
    (suppress : List Nat) (t : Tree) :
    List Str → PStack × FStack → List (Path × Output) → Str × Outcome XotError Unit :=
  writeLoopW P (prettyStepCalls esc env pr suppress t)

/-- The calls `serialize_pretty` makes when none is refused, and how it ends. -/
def writePrettyGoCalls (esc : Escapers) (env : Env) (pr : TokenParams) (suppress : List Nat) (t : Tree) :
    PStack × FStack → List (Path × Output) → List Str × Outcome XotError Unit :=
  callsLoop (prettyStepCalls esc env pr suppress t)

abbrev prettyTokens := prettyTokensWith xmlEscapers
abbrev serializePrettyWrite := serializePrettyWriteWith xmlEscapers
abbrev serializePretty := serializePrettyWith xmlEscapers

end XotModel
