/-
  XotModel.Model.Arena — pointer-level model of `indextree::Arena` 4.7.2 AS WRITTEN
  (`arena.rs`, `node.rs`, `id.rs`; release profile: `debug_assert!`s and
  `debug_assert_triangle_nodes!` compile to nothing, `overflow-checks = false`).

  A slot has exactly the fields of `indextree::Node<T>`; a `NodeId` is `(index1, stamp)`; the
  arena is the slot vector plus the two heads of the free list, which is threaded through the
  `NodeData::NextFree` payload of the freed slots exactly as the crate threads it.

  Every function returns a `Step`: the arena REACHED (Rust mutates before it fails) and
  `done v | panic | diverge`.  `panic` = an out-of-range index, `unwrap` / `expect` /
  `unreachable!` / `assert_eq!`.  `diverge` = the fuel of a loop ran out; the fuel handed to
  every loop is `nodes.length + 1`, and every loop of the crate reads its next cursor from the
  tree pointers of the current cursor's slot only (no loop writes a pointer it follows), so
  running out of that fuel means a slot was visited twice: the Rust loop does not terminate.

  The payload type `T` is `Nat` here (xot: `Value`); no operation inspects it.
-/
import XotModel.Model.Basic

namespace XotModel

namespace Arena

/-- `NodeStamp(i16)`. -/
abbrev Stamp := Int

/-- Two's complement wrap-around of `i16` arithmetic (`overflow-checks = false`). -/
def wrap16 (x : Int) : Int := (x + 32768) % 65536 - 32768

namespace Stamp

/-- `NodeStamp::is_removed`: `self.0.is_negative()`. -/
def isRemoved (s : Int) : Bool := decide (s < 0)

/-- `NodeStamp::as_removed`: `if self.0 < i16::MAX { -self.0 - 1 } else { -self.0 }`. -/
def asRemoved (s : Int) : Int :=
  if s < 32767 then wrap16 (wrap16 (-s) - 1) else wrap16 (-s)

/-- `NodeStamp::reuseable`: `self.0 > i16::MIN`. -/
def reuseable (s : Int) : Bool := decide (s > -32768)

/-- `NodeStamp::reuse`: `self.0 = -self.0`. -/
def reuse (s : Int) : Int := wrap16 (-s)

end Stamp

/-- `NodeId { index1: NonZeroUsize, stamp: NodeStamp }`; equality compares both fields. -/
structure NodeId where
  index1 : Nat
  stamp : Int
  deriving DecidableEq, Repr, Inhabited

/-- `NodeId::index0`. -/
def NodeId.index0 (id : NodeId) : Nat := id.index1 - 1

/-- `NodeData<T>`. -/
inductive Data where
  | data (v : Nat)
  | nextFree (next : Option Nat)
  deriving DecidableEq, Repr, Inhabited

/-- `indextree::Node<T>`. -/
structure Slot where
  parent : Option NodeId := none
  prev : Option NodeId := none
  next : Option NodeId := none
  first : Option NodeId := none
  last : Option NodeId := none
  stamp : Int := 0
  data : Data
  deriving DecidableEq, Repr, Inhabited

namespace Slot

/-- `Node::new`. -/
def new (v : Nat) : Slot := { data := .data v }

/-- `Node::reuse`: stamp negated back, every pointer cleared, data stored. -/
def reuse (s : Slot) (v : Nat) : Slot :=
  { parent := none, prev := none, next := none, first := none, last := none,
    stamp := Stamp.reuse s.stamp, data := .data v }

/-- `Node::is_removed`: the sign of the slot's own stamp. -/
def isRemoved (s : Slot) : Bool := Stamp.isRemoved s.stamp

end Slot

end Arena

open Arena in
/-- `indextree::Arena<T>`. -/
structure Arena where
  nodes : List Slot := []
  firstFree : Option Nat := none
  lastFree : Option Nat := none
  deriving DecidableEq, Repr, Inhabited

namespace Arena

/-- Result of running a piece of the crate on an arena: the arena reached, and how it ended. -/
inductive Step (α : Type) where
  | done (a : Arena) (v : α)
  | panic (a : Arena)
  | diverge (a : Arena)
  deriving Repr, DecidableEq

namespace Step

/-- The arena reached. -/
def arena : Step α → Arena
  | done a _ => a
  | panic a => a
  | diverge a => a

@[inline] def bind (s : Step α) (k : Arena → α → Step β) : Step β :=
  match s with
  | done a v => k a v
  | panic a => .panic a
  | diverge a => .diverge a

@[simp] theorem bind_done (a : Arena) (v : α) (k : Arena → α → Step β) : (done a v).bind k = k a v := rfl
@[simp] theorem bind_panic (a : Arena) (k : Arena → α → Step β) : (Step.panic a : Step α).bind k = .panic a := rfl
@[simp] theorem bind_diverge (a : Arena) (k : Arena → α → Step β) : (Step.diverge a : Step α).bind k = .diverge a := rfl

end Step

/-- `&arena[id]` (`Index<NodeId>`: `&self.nodes[node.index0()]`, panics when out of range),
    continuation style so that the functions below read in the order of the Rust statements. -/
@[inline] def rd (a : Arena) (id : NodeId) (k : Slot → Step α) : Step α :=
  match a.nodes[id.index0]? with
  | none => .panic a
  | some s => k s

/-- The slot vector with slot `i` replaced. -/
def setSlot (a : Arena) (i : Nat) (s : Slot) : Arena := { a with nodes := a.nodes.set i s }

/-- `let n = &mut arena[id]; n.field = …` (`IndexMut<NodeId>`, panics when out of range). -/
@[inline] def wr (a : Arena) (id : NodeId) (f : Slot → Slot) (k : Arena → Step α) : Step α :=
  match a.nodes[id.index0]? with
  | none => .panic a
  | some s => k (a.setSlot id.index0 (f s))

/-- The fuel of every loop (see the header). -/
def fuel (a : Arena) : Nat := a.nodes.length + 1

/-- `Arena::get`: `self.nodes.get(id.index0())` — no stamp check. -/
def get (a : Arena) (id : NodeId) : Option Slot := a.nodes[id.index0]?

/-- `Arena::count`: the number of slots, removed ones included. -/
def count (a : Arena) : Nat := a.nodes.length

/-- `NodeId::is_removed`: `arena[self].stamp != self.stamp`. -/
def isRemoved (a : Arena) (id : NodeId) : Step Bool :=
  rd a id fun s => .done a (s.stamp != id.stamp)

/-- `Arena::get_node_id_at`. -/
def getNodeIdAt (a : Arena) (index1 : Nat) : Option NodeId :=
  match a.nodes[index1 - 1]? with
  | none => none
  | some n => if n.isRemoved then none else some ⟨index1, n.stamp⟩

/-- `arena[id].get()` (`Node::get`: `unreachable!` on a freed slot). -/
def value (a : Arena) (id : NodeId) : Step Nat :=
  rd a id fun s =>
    match s.data with
    | .data v => .done a v
    | .nextFree _ => .panic a

/-- `*arena.get_mut(id).unwrap().get_mut() = v`. -/
def setValue (a : Arena) (id : NodeId) (v : Nat) : Step Unit :=
  match a.nodes[id.index0]? with
  | none => .panic a
  | some s =>
    match s.data with
    | .data _ => .done (a.setSlot id.index0 { s with data := .data v }) ()
    | .nextFree _ => .panic a

/-- `Arena::pop_front_free_node`. -/
def popFrontFreeNode (a : Arena) : Step (Option Nat) :=
  -- let first = self.first_free_slot.take();
  let first := a.firstFree
  let a1 : Arena := { a with firstFree := none }
  match first with
  | none => .done a1 none
  | some index =>
    match a1.nodes[index]? with
    | none => .panic a1
    | some s =>
      match s.data with
      | .nextFree nextFree =>
        let a2 : Arena := { a1 with firstFree := nextFree }
        let a3 : Arena := if a2.firstFree.isNone then { a2 with lastFree := none } else a2
        .done a3 (some index)
      | .data _ => .panic a1  -- unreachable!("A data node consider as a freed node")

/-- `Arena::new_node` (`expect("Too many nodes in the arena")` needs `usize::MAX` slots). -/
def newNode (a : Arena) (v : Nat) : Step NodeId :=
  (popFrontFreeNode a).bind fun a r =>
    match r with
    | some index =>
      match a.nodes[index]? with
      | none => .panic a
      | some node =>
        let node' := node.reuse v
        .done (a.setSlot index node') ⟨index + 1, node'.stamp⟩
    | none =>
      let index := a.nodes.length
      let node := Slot.new v
      .done { a with nodes := a.nodes ++ [node] } ⟨index + 1, node.stamp⟩

/-- `Arena::free_node`. -/
def freeNode (a : Arena) (id : NodeId) : Step Unit :=
  match a.nodes[id.index0]? with
  | none => .panic a
  | some node =>
    -- node.data = NodeData::NextFree(None); node.stamp.as_removed();
    let node' : Slot := { node with data := .nextFree none, stamp := Stamp.asRemoved node.stamp }
    let a1 := a.setSlot id.index0 node'
    if Stamp.reuseable node'.stamp then
      match a1.lastFree with
      | some index =>
        let newLast := id.index0
        match a1.nodes[index]? with
        | none => .panic a1
        | some s =>
          .done { (a1.setSlot index { s with data := .nextFree (some newLast) }) with lastFree := some newLast } ()
      | none => .done { a1 with firstFree := some id.index0, lastFree := some id.index0 } ()
    else .done a1 ()

end Arena
end XotModel
