/-
  XotModel.Model.FmapSpec2 — histories of ALL the updates property C11 lists, on a forest with
  several elements.

  `MapOp2` has one constructor per update: the map-style calls of the mutable view
  (`insert`, `remove`, `clear`, `get_mut` + assignment, the entry API), xot's wrappers
  (`set_attribute`, `remove_attribute`, `set_namespace`, `remove_namespace`) and the node-style
  calls (`append_attribute_node` / `append_namespace_node` / `any_append` of a new, a parentless,
  an own or a foreign entry node; `detach` / `remove` of an entry node).  Every update names
  the element it is addressed to.  An entry node that is attached is referred to the way the
  API hands it out: `xot.attributes(e).get_node(key)` / `xot.namespaces(e).get_node(key)`
  (`NodeRef.entry`); a parentless one by its handle (`NodeRef.detached`).

  `MapOp2.run` executes an update with the model functions of `Manip.lean` / `FmapEntry.lean`;
  `specStep` is the reference: a family of insertion-ordered maps indexed by element and view.
-/
import XotModel.Model.FmapSpec
import XotModel.Model.FmapEntry

namespace XotModel
namespace Forest

/-- `if let Entry::Occupied(mut o) = …_mut(e).entry(key) { o.insert(value); }`. -/
def occupiedInsert (f : Forest) (k : MapKind) (e : Nat) (entry : Value) : Forest × Res :=
  if !f.isElement e then (f, .panic) else
  match f.mapEntry k e (entryKey entry) with
  | .occupied _ => f.occInsert k e entry
  | .vacant _ => (f, .ok)

/-- `if let Entry::Vacant(va) = …_mut(e).entry(key) { va.insert(value); }`. -/
def vacantInsert (f : Forest) (k : MapKind) (e : Nat) (entry : Value) : Forest × Res :=
  if !f.isElement e then (f, .panic) else
  match f.mapEntry k e (entryKey entry) with
  | .occupied _ => (f, .ok)
  | .vacant _ => f.vacInsert k e entry

end Forest

namespace Fmap
open Forest (MapKind entryKey mapChildren)

/-- How an update refers to an attribute / namespace node. -/
inductive NodeRef where
  /-- a node made on the spot with `new_attribute_node` / `new_namespace_node` -/
  | new (v : Value)
  /-- the parentless node `nd`, whose value is `v` -/
  | detached (nd : Nat) (v : Value)
  /-- `xot.attributes(e2).get_node(key)` / `xot.namespaces(e2).get_node(key)` -/
  | entry (k : MapKind) (e2 key : Nat)
  deriving Repr, Inhabited

/-- The closure of `and_modify` acts on the stored `String` / `NamespaceId`; on the entry value
    it keeps the key. -/
def liftP (k : MapKind) (g : Payload → Payload) (v : Value) : Value :=
  mkEntry k (entryKey v) (g (payloadOf v))

/-- The view an attribute / namespace value belongs to. -/
def kindOf? : Value → Option MapKind
  | .attribute _ _ => some .attributes
  | .namespace _ _ => some .namespaces
  | _ => none

/-- One update of a view of an element. -/
inductive MapOp2 where
  /- map-style -/
  | insert (k : MapKind) (e : Nat) (entry : Value)
  | remove (k : MapKind) (e key : Nat)
  | clear (k : MapKind) (e : Nat)
  | getMutSet (k : MapKind) (e key : Nat) (new : Value)
  | entryOrInsert (k : MapKind) (e : Nat) (default : Value)
  | entryOrDefault (e name : Nat)
  | entryAndModify (k : MapKind) (e key : Nat) (g : Payload → Payload)
  | entryAndModifyOrInsert (k : MapKind) (e : Nat) (default : Value) (g : Payload → Payload)
  | entryInsert (k : MapKind) (e : Nat) (entry : Value)
  | occupiedInsert (k : MapKind) (e : Nat) (entry : Value)
  | vacantInsert (k : MapKind) (e : Nat) (entry : Value)
  | entryRemove (k : MapKind) (e key : Nat)
  /- xot's wrappers -/
  | setAttribute (e name : Nat) (value : Str)
  | removeAttribute (e name : Nat)
  | setNamespace (e pfx ns : Nat)
  | removeNamespace (e pfx : Nat)
  /- node-style -/
  | appendNewNode (k : MapKind) (e : Nat) (v : Value)
  | appendDetachedNode (k : MapKind) (e nd : Nat) (v : Value)
  | appendOwnNode (k : MapKind) (e key : Nat)
  | appendAttachedNode (k : MapKind) (e e2 key : Nat)
  | anyAppend (e : Nat) (r : NodeRef)
  | detachEntryNode (k : MapKind) (e key : Nat)
  | removeEntryNode (k : MapKind) (e key : Nat)
  deriving Inhabited

/-- The element an update is addressed to. -/
def MapOp2.target : MapOp2 → Nat
  | .insert _ e _ | .remove _ e _ | .clear _ e | .getMutSet _ e _ _ | .entryOrInsert _ e _
  | .entryOrDefault e _ | .entryAndModify _ e _ _ | .entryAndModifyOrInsert _ e _ _
  | .entryInsert _ e _ | .occupiedInsert _ e _ | .vacantInsert _ e _ | .entryRemove _ e _
  | .setAttribute e _ _ | .removeAttribute e _ | .setNamespace e _ _ | .removeNamespace e _
  | .appendNewNode _ e _ | .appendDetachedNode _ e _ _ | .appendOwnNode _ e _
  | .appendAttachedNode _ e _ _ | .anyAppend e _ | .detachEntryNode _ e _
  | .removeEntryNode _ e _ => e

/-- A parentless node `nd` with value `v`, an entry of kind `k`. -/
def isDetachedEntry (f : Forest) (k : MapKind) (nd : Nat) (v : Value) : Bool :=
  f.isRoot nd && f.value? nd == some v && k.matches v

/-- The side conditions of an update in the state `f`: the addressed nodes are live elements,
    entry values fit their view, node arguments are what the constructor says. -/
def MapOp2.ok (f : Forest) : MapOp2 → Bool
  | .insert k e v | .getMutSet k e _ v | .entryOrInsert k e v | .entryAndModifyOrInsert k e v _
  | .entryInsert k e v | .occupiedInsert k e v | .vacantInsert k e v | .appendNewNode k e v =>
    f.isElement e && k.matches v
  | .remove _ e _ | .clear _ e | .entryOrDefault e _ | .entryAndModify _ e _ _ | .entryRemove _ e _
  | .setAttribute e _ _ | .removeAttribute e _ | .setNamespace e _ _ | .removeNamespace e _
  | .appendOwnNode _ e _ | .detachEntryNode _ e _ | .removeEntryNode _ e _ => f.isElement e
  | .appendDetachedNode k e nd v => f.isElement e && isDetachedEntry f k nd v
  | .appendAttachedNode _ e e2 _ => f.isElement e && f.isElement e2 && e != e2
  | .anyAppend e (.new v) => f.isElement e && (kindOf? v).isSome
  | .anyAppend e (.detached nd v) =>
    f.isElement e && (match kindOf? v with | some k => isDetachedEntry f k nd v | none => false)
  | .anyAppend e (.entry _ e2 _) => f.isElement e && f.isElement e2

/-- Drop the returned node of the node-style calls. -/
def res3 (r : Forest × Res × Nat) : Forest × Res := (r.1, r.2.1)

/-- The model's step. -/
def MapOp2.run (f : Forest) : MapOp2 → Forest × Res
  | .insert k e v => f.mapInsert k e v
  | .remove k e key => f.mapRemove k e key
  | .clear k e => f.mapClear k e
  | .getMutSet k e key new => let r := f.mapGetMutSet k e key new; (r.1, r.2.1)
  | .entryOrInsert k e d => f.entryOrInsert k e d
  | .entryOrDefault e name => f.entryOrDefault e name
  | .entryAndModify k e key g => let r := f.entryAndModify k e key (liftP k g); (r.1, r.2.1)
  | .entryAndModifyOrInsert k e d g => f.entryAndModifyOrInsert k e d (liftP k g)
  | .entryInsert k e v => f.entryInsert k e v
  | .occupiedInsert k e v => f.occupiedInsert k e v
  | .vacantInsert k e v => f.vacantInsert k e v
  | .entryRemove k e key => f.entryRemove k e key
  | .setAttribute e name value => f.mapInsert .attributes e (.attribute name value)
  | .removeAttribute e name => f.mapRemove .attributes e name
  | .setNamespace e pfx ns => f.mapInsert .namespaces e (.namespace pfx ns)
  | .removeNamespace e pfx => f.mapRemove .namespaces e pfx
  | .appendNewNode k e v => let (f1, n) := f.newNode v; res3 (f1.appendEntryNode k e n)
  | .appendDetachedNode k e nd _ => res3 (f.appendEntryNode k e nd)
  | .appendOwnNode k e key =>
    (match f.mapGetNode k e key with
     | some n => res3 (f.appendEntryNode k e n.handle)
     | none => (f, .ok))
  | .appendAttachedNode k e e2 key =>
    (match f.mapGetNode k e2 key with
     | some n => res3 (f.appendEntryNode k e n.handle)
     | none => (f, .ok))
  | .anyAppend e (.new v) => let (f1, n) := f.newNode v; res3 (f1.anyAppend e n)
  | .anyAppend e (.detached nd _) => res3 (f.anyAppend e nd)
  | .anyAppend e (.entry k e2 key) =>
    (match f.mapGetNode k e2 key with
     | some n => res3 (f.anyAppend e n.handle)
     | none => (f, .ok))
  | .detachEntryNode k e key =>
    (match f.mapGetNode k e key with
     | some n => f.detach n.handle
     | none => (f, .ok))
  | .removeEntryNode k e key =>
    (match f.mapGetNode k e key with
     | some n => f.remove n.handle
     | none => (f, .ok))

/-! ### The reference: a family of ordered maps, one per element and view -/

abbrev Fam := Nat → MapKind → OMap Payload

/-- The family read off a forest. -/
def famOf (f : Forest) : Fam := fun e k => abs k f e

/-- Replace the map of `(e, k)`. -/
def Fam.set (F : Fam) (e : Nat) (k : MapKind) (m : OMap Payload) : Fam :=
  fun e' k' => if e' = e ∧ k' = k then m else F e' k'

/-- Apply a reference-map operation to the map of `(e, k)`. -/
def Fam.upd (F : Fam) (e : Nat) (k : MapKind) (g : OMap Payload → OMap Payload) : Fam :=
  F.set e k (g (F e k))

def opInsert (v : Value) (m : OMap Payload) : OMap Payload := omInsert m (entryKey v) (payloadOf v)
def opOrInsert (v : Value) (m : OMap Payload) : OMap Payload :=
  if omContainsKey m (entryKey v) then m else opInsert v m
def opOccInsert (v : Value) (m : OMap Payload) : OMap Payload :=
  if omContainsKey m (entryKey v) then opInsert v m else m
/-- What `and_modify(g)` does to the stored payload. -/
def modP (k : MapKind) (key : Nat) (g : Payload → Payload) (p : Payload) : Payload :=
  payloadOf (liftP k g (mkEntry k key p))
def opModifyOrInsert (k : MapKind) (v : Value) (g : Payload → Payload) (m : OMap Payload) :
    OMap Payload :=
  if omContainsKey m (entryKey v) then omModify m (entryKey v) (modP k (entryKey v) g)
  else opInsert v m

/-- Appending to view `k` of `e` the entry node of `e2` found under `key`: nothing if there is
    none; if `e` has the key its entry takes the value and the node stays where it is; otherwise
    the entry moves (`omRemove` at the source, `omInsert` at the target). -/
def specAppendEntryOf (F : Fam) (k : MapKind) (e e2 key : Nat) : Fam :=
  if e2 = e then F else
  match omGet (F e2 k) key with
  | none => F
  | some p =>
    if omContainsKey (F e k) key then F.upd e k (fun m => omInsert m key p)
    else (F.upd e2 k (fun m => omRemove m key)).upd e k (fun m => omInsert m key p)

/-- The reference step. -/
def specStep (F : Fam) : MapOp2 → Fam
  | .insert k e v | .entryInsert k e v | .appendNewNode k e v | .appendDetachedNode k e _ v =>
    F.upd e k (opInsert v)
  | .remove k e key | .entryRemove k e key | .detachEntryNode k e key | .removeEntryNode k e key =>
    F.upd e k (fun m => omRemove m key)
  | .clear k e => F.upd e k omClear
  | .getMutSet k e key new => F.upd e k (fun m => omModify m key (fun _ => payloadOf new))
  | .entryOrInsert k e d | .vacantInsert k e d => F.upd e k (opOrInsert d)
  | .entryOrDefault e name => F.upd e .attributes (opOrInsert (.attribute name []))
  | .entryAndModify k e key g => F.upd e k (fun m => omModify m key (modP k key g))
  | .entryAndModifyOrInsert k e d g => F.upd e k (opModifyOrInsert k d g)
  | .occupiedInsert k e v => F.upd e k (opOccInsert v)
  | .setAttribute e name value => F.upd e .attributes (opInsert (.attribute name value))
  | .removeAttribute e name => F.upd e .attributes (fun m => omRemove m name)
  | .setNamespace e pfx ns => F.upd e .namespaces (opInsert (.namespace pfx ns))
  | .removeNamespace e pfx => F.upd e .namespaces (fun m => omRemove m pfx)
  | .appendOwnNode _ _ _ => F
  | .appendAttachedNode k e e2 key => specAppendEntryOf F k e e2 key
  | .anyAppend e (.new v) | .anyAppend e (.detached _ v) =>
    (match kindOf? v with
     | some k => F.upd e k (opInsert v)
     | none => F)
  | .anyAppend e (.entry k e2 key) => specAppendEntryOf F k e e2 key

/-- Run a history; `ok` is re-evaluated in the state each step starts from. Returns the final
    state, the outcomes, and whether every step's side conditions held. -/
def runOps2 : Forest → List MapOp2 → Forest × List Res × Bool
  | f, [] => (f, [], true)
  | f, op :: ops =>
    let (f1, r) := op.run f
    let (f2, rs, b) := runOps2 f1 ops
    (f2, r :: rs, op.ok f && b)

/-- The states a history goes through (the start state first). -/
def trace2 : Forest → List MapOp2 → List Forest
  | f, [] => [f]
  | f, op :: ops => f :: trace2 (op.run f).1 ops

def specOps2 (F : Fam) (ops : List MapOp2) : Fam := ops.foldl specStep F

/-- The (key, node handle) pairs of a view, in order. -/
def absKN (k : MapKind) (f : Forest) (e : Nat) : List (Nat × Nat) :=
  match f.get? e with
  | some t => (mapChildren k t).map fun c => (entryKey c.value, c.handle)
  | none => []

/-- How the (key, node) list of a view may change in one step: entries disappear (the others
    keep node and relative order; nothing changes at all when an existing key is updated), or
    one new entry comes last. -/
def KNStep (old new : List (Nat × Nat)) : Prop :=
  new.Sublist old ∨ ∃ p, new = old ++ [p]

/-! ### The remaining reads of the views -/

/-- `iter()`: `(A::key(value), A::value(value))` of the children. -/
def mapIter (f : Forest) (k : MapKind) (e : Nat) : List (Nat × Payload) :=
  match f.get? e with
  | some t => (mapChildren k t).map fun c => (entryKey c.value, payloadOf c.value)
  | none => []

/-- `to_vec()`: `iter()` collected. -/
def mapToVec (f : Forest) (k : MapKind) (e : Nat) : List (Nat × Payload) := mapIter f k e

/-- Insertion of a pair in a key-sorted association list, replacing an equal key: what
    `AHashMap::insert` does to the finite map, shown as the sorted list the driver prints. -/
def smInsert : List (Nat × Payload) → Nat → Payload → List (Nat × Payload)
  | [], k, v => [(k, v)]
  | (k', v') :: rest, k, v =>
    if k < k' then (k, v) :: (k', v') :: rest
    else if k = k' then (k, v) :: rest
    else (k', v') :: smInsert rest k v

/-- `to_hashmap()`: `for (key, value) in self.iter() { m.insert(key, value.clone()); }`, the
    finite map as its key-sorted list. -/
def mapToHashmap (f : Forest) (k : MapKind) (e : Nat) : List (Nat × Payload) :=
  (mapIter f k e).foldl (fun m p => smInsert m p.1 p.2) []

/-- The reference's `to_hashmap`. -/
def omToHashmap (m : OMap Payload) : List (Nat × Payload) :=
  m.foldl (fun acc p => smInsert acc p.1 p.2) []

end Fmap
end XotModel
