/-
  XotModel.Model.FatomSpec2 — `create_missing_prefixes` and `deduplicate_namespaces`
  (nameaccess.rs) inside the forest model.

  Both functions first walk the subtree read-only and then change the store only through
  `namespaces_mut(node).insert(prefix, ns)` / `namespaces_mut(node).remove(prefix)`, i.e. through
  calls that are constructors of `Forest.Call`.  The read-only walk is the tree-level model
  (`Model/Repair.lean`: `repairWalk`, `assignPrefixes`; `Model/Scope.lean`: `dedupToRemove`) applied to the erased root tree containing the node; paths are turned
  into handles on the tree as it is before the first insertion / removal (the Rust collects the
  `Node`s first too).
-/
import XotModel.Model.FatomSpec
import XotModel.Model.Repair

namespace XotModel

namespace HTree

mutual
  /-- Raw child indices from this node down to the node with handle `h`. -/
  def pathOf (h : Nat) : HTree → Option Path
    | node h' _ ks => if h' = h then some [] else pathOfList h 0 ks
  def pathOfList (h : Nat) (i : Nat) : List HTree → Option Path
    | [] => none
    | k :: ks =>
      match pathOf h k with
      | some p => some (i :: p)
      | none => pathOfList h (i + 1) ks
end

/-- The handle at a path of raw child indices. -/
def handleAt : HTree → Path → Option Nat
  | node h _ _, [] => some h
  | node _ _ ks, i :: p =>
    match ks[i]? with
    | some k => handleAt k p
    | none => none

end HTree

namespace Forest

/-- The parentless tree containing `h`. -/
def rootOf? (f : Forest) (h : Nat) : Option HTree :=
  f.roots.find? (fun r => (r.pathOf h).isSome)

/-- Carry out a list of calls, in order, stopping at the first one that does not answer `ok`
    (`MutableNodeMap::insert` / `remove` return nothing: the only other outcome is their panic on a
    non-element). -/
def runCalls (f : Forest) : List Call → Forest × Res
  | [] => (f, .ok)
  | c :: cs =>
    match c.run f with
    | (f', .ok) => runCalls f' cs
    | (f', r) => (f', r)

/-- `namespaces_mut(node).insert(prefix, ns)` as a call. -/
def nsInsertCall (node : Nat) (d : Nat × Nat) : Call := .mapInsert .namespaces node (.namespace d.1 d.2)

/-- What `create_missing_prefixes_for_element(node)` decides before it touches the store: the
    interning table after the `add_prefix` calls, and the insertions, in the order they are made
    (`none` = the `pushed.pop().unwrap()` panic / the prefix loop not ending: unreachable). -/
def repairCalls (env : Env) (f : Forest) (node : Nat) : Option (Env × List Call) :=
  match f.rootOf? node with
  | none => none
  | some r =>
    match r.pathOf node with
    | none => none
    | some path =>
      let t := r.erase
      match t.at? path with
      | none => none
      | some sub =>
        let st := repairWalk env (inheritedDecls t path) path sub
        if st.panicked then none
        else
          let used := st.used ++ ((namespacesInScope t path).getD []).map (·.1)
          match assignPrefixes env used 0 st.missing with
          | none => none
          | some (env', newDecls) =>
            some (env', newDecls.map (nsInsertCall node) ++
              st.undeclare.filterMap (fun up =>
                (r.handleAt up).map (fun h => nsInsertCall h (Env.emptyPrefix, Env.noNamespace))))

/-- `create_missing_prefixes_for_element(node)`. -/
def repairElementF (env : Env) (f : Forest) (node : Nat) : Forest × Env × Res :=
  match f.repairCalls env node with
  | none => (f, env, .panic)
  | some (env', calls) =>
    let r := f.runCalls calls
    (r.1, env', r.2)

/-- The `for element in elements` loop of the document branch. -/
def repairElementsF : List Nat → Env → Forest → Forest × Env × Res
  | [], env, f => (f, env, .ok)
  | e :: rest, env, f =>
    match f.repairElementF env e with
    | (f', env', .ok) => repairElementsF rest env' f'
    | r => r

/-- `create_missing_prefixes(node)`: the state reached, the interning tables, the outcome. -/
def createMissingPrefixes (env : Env) (f : Forest) (node : Nat) : Forest × Env × Res :=
  if f.isDocument node then
    -- a fragment can have more than one element at the top
    let elements := match f.get? node with
      | some t => (t.kids.filter (fun k => k.value.isElement)).map (·.handle)
      | none => []
    if elements.isEmpty then (f, env, .err .noElementAtTopLevel)
    else repairElementsF elements env f
  else if !f.isElement node then (f, env, .err .notElement)
  else f.repairElementF env node

/-- The removals one pass of `deduplicate_namespaces(node)` makes, in order: `remove(prefix)` for
    every declaration found redundant during the traversal (nodes collected before the first
    removal). -/
def dedupCalls (env : Env) (f : Forest) (node : Nat) : List Call :=
  match f.rootOf? node with
  | none => []
  | some r =>
    match r.pathOf node with
    | none => []
    | some path =>
      let t := r.erase
      match t.at? path with
      | none => []
      | some sub =>
        (dedupToRemove env path sub).flatMap (fun rm =>
          match r.handleAt rm.1 with
          | some h => [Call.mapRemove .namespaces h rm.2]
          | none => [])

/-- `while self.deduplicate_namespaces_pass(node) {}`. -/
def dedupLoop (env : Env) (node : Nat) : Nat → Forest → Forest × Res
  | 0, f => (f, .ok)
  | fuel + 1, f =>
    let calls := f.dedupCalls env node
    if calls.isEmpty then (f, .ok)
    else
      match f.runCalls calls with
      | (f', .ok) => dedupLoop env node fuel f'
      | r => r

/-- `deduplicate_namespaces(node)`: every pass that removes something removes a node of the tree,
    so its size bounds the number of passes. -/
def deduplicateNamespaces (env : Env) (f : Forest) (node : Nat) : Forest × Res :=
  dedupLoop env node (match f.rootOf? node with | some r => r.erase.size + 1 | none => 1) f

end Forest
end XotModel
