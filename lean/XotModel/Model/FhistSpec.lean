/-
  XotModel.Model.FhistSpec — the EXTENDED history type of the forest layer (C04, C06, C12).

  The history types that existed before this file are `Op` (FinvSpec.lean, C04), `Forest.Call`
  (FatomSpec.lean, C06) and `Forest.HStep` (FlocalSpec.lean, C12: a `Call`, node creation,
  `set_text_consolidation`, `remove_insignificant_whitespace`).  The composite public calls

    * `create_missing_prefixes(node)`   (`Forest.createMissingPrefixes`, FatomSpec2.lean),
    * `deduplicate_namespaces(node)`    (`Forest.deduplicateNamespaces`, FatomSpec2.lean),
    * `clone_with_prefixes(node)`       (`Forest.cloneWithPrefixes`, FcloneModel.lean),

  are not constructors of any of them.  `XCall` wraps `Forest.HStep` (constructor for constructor, so
  `Forest.Call`, node creation, `set_text_consolidation` and `remove_insignificant_whitespace` are
  all there, and every `Op` is an `XCall` through `XCall.ofOp`) and adds the three composites.

  `create_missing_prefixes` extends the interning tables (`add_prefix` for the prefixes `n0`, `n1`, … it
  invents), and both `create_missing_prefixes` and `deduplicate_namespaces` read them, so a history runs
  on a `Store` (FcloneModel.lean: the forest and the interning tables `Env`).

  `clone_with_prefixes` iterates over the hash map `inherited_prefixes(node)`; the iteration order is
  the parameter `order` of the constructor, as it is of `Forest.cloneWithPrefixes`: any list at all is
  allowed, so the history theorems hold for every iteration order (`XCall.faithful` says that the
  list is an enumeration of the inherited prefixes, each prefix once — what the Rust iterates over).

  (Specification only: nothing here is executed by the driver.)
-/
import XotModel.Model.FlocalSpec
import XotModel.Model.FatomSpec2
import XotModel.Model.FcloneModel

namespace XotModel
namespace Forest

/-- One step of an extended history. -/
inductive XCall where
  /-- a call of `Forest.Call` (the whole mutating API on nodes) -/
  | call (c : Call)
  /-- node creation (`new_document`, `new_element`, `new_text`, …) -/
  | newNode (v : Value)
  /-- `set_text_consolidation(b)` -/
  | setConsolidation (b : Bool)
  /-- `remove_insignificant_whitespace(node)` (unpretty.rs) -/
  | removeInsignificantWhitespace (node : Nat)
  /-- `create_missing_prefixes(node)` (nameaccess.rs) -/
  | createMissingPrefixes (node : Nat)
  /-- `deduplicate_namespaces(node)` (nameaccess.rs) -/
  | deduplicateNamespaces (node : Nat)
  /-- `clone_with_prefixes(node)` (manipulation.rs); `order` = the iteration order of the hash map
      `inherited_prefixes(node)` -/
  | cloneWithPrefixes (node : Nat) (order : List (Nat × Nat))

/-- The steps of `Forest.HStep` as extended calls. -/
def XCall.ofStep : HStep → XCall
  | .call c => .call c
  | .newNode v => .newNode v
  | .setConsolidation b => .setConsolidation b
  | .removeInsignificantWhitespace n => .removeInsignificantWhitespace n

/-- The 33 calls of the C04 history type `Op` as extended calls. -/
def XCall.ofOp (o : Op) : XCall := .ofStep o.toStep

/-- State reached and outcome.  Node creation, `set_text_consolidation`,
    `remove_insignificant_whitespace` and `deduplicate_namespaces` return nothing that can fail
    (the latter's outcome is what its `namespaces_mut(..).remove` calls answer); `clone_node` and
    `clone_with_prefixes` return a node, a missing one is their `unwrap` panic. -/
def XCall.run (s : Store) : XCall → Store × Res
  | .call c => (⟨(c.run s.forest).1, s.env⟩, (c.run s.forest).2)
  | .newNode v => (⟨(s.forest.newNode v).1, s.env⟩, .ok)
  | .setConsolidation b => (⟨s.forest.setConsolidation b, s.env⟩, .ok)
  | .removeInsignificantWhitespace n => (⟨s.forest.removeInsignificantWhitespace n, s.env⟩, .ok)
  | .createMissingPrefixes n =>
    (⟨(s.forest.createMissingPrefixes s.env n).1, (s.forest.createMissingPrefixes s.env n).2.1⟩,
     (s.forest.createMissingPrefixes s.env n).2.2)
  | .deduplicateNamespaces n =>
    (⟨(s.forest.deduplicateNamespaces s.env n).1, s.env⟩, (s.forest.deduplicateNamespaces s.env n).2)
  | .cloneWithPrefixes n order =>
    (⟨(s.forest.cloneWithPrefixes n order).1, s.env⟩,
     if (s.forest.cloneWithPrefixes n order).2.isSome then .ok else .panic)

/-- The node arguments of an extended call. -/
def XCall.args : XCall → List Nat
  | .call c => c.args
  | .newNode _ => []
  | .setConsolidation _ => []
  | .removeInsignificantWhitespace n | .createMissingPrefixes n | .deduplicateNamespaces n
  | .cloneWithPrefixes n _ => [n]

/-- The node arguments that the call may WRITE below (the others are only read): for `clone_node` and
    `clone_with_prefixes` the source is only read. -/
def XCall.writeArgs : XCall → List Nat
  | .call (.cloneNode _) => []
  | .cloneWithPrefixes _ _ => []
  | c => c.args

/-- All node arguments are live. -/
def XCall.liveArgs (f : Forest) (c : XCall) : Prop := ∀ x ∈ c.args, f.isLive x = true

/-- The documented panics: those of `Forest.Call` (`attributes_mut` / `namespaces_mut` /
    `set_element_name` on a node that is not an element).  The other steps and the composites have
    none. -/
def XCall.documentedPanic (f : Forest) : XCall → Bool
  | .call c => c.documentedPanic f
  | _ => false

/-- The one side condition of C04 on calls as data (`Call.wellKinded`, Lemmas/FinvPrefix.lean): a
    map insertion carries an entry of the map's kind — the Rust API builds the entry from key and
    value, so it always does.  Every other step qualifies. -/
def XCall.wellKinded : XCall → Prop
  | .call (.mapInsert k _ e) => k.matches e = true
  | _ => True

instance XCall.decWellKinded (c : XCall) : Decidable c.wellKinded := by
  unfold XCall.wellKinded; split <;> infer_instance

/-- The list handed to `clone_with_prefixes` is what the Rust iterates over: an enumeration of
    `inherited_prefixes(node)` (same entries, each prefix once).  Every theorem about extended
    histories holds without it; it is there to say which histories the real store can perform. -/
def XCall.faithful (s : Store) : XCall → Prop
  | .cloneWithPrefixes n order =>
    (∀ b, b ∈ order ↔ b ∈ s.forest.inheritedPrefixes s.env n) ∧
    (∀ a ∈ order, ∀ b ∈ order, a.1 = b.1 → a = b)
  | _ => True

end Forest

namespace Store

/-- The state after an extended call, whatever it answered (`ok`, `err`, `panic`). -/
def xstep (s : Store) (c : Forest.XCall) : Store := (c.run s).1

/-- An extended history. -/
def xrun (s : Store) (cs : List Forest.XCall) : Store := cs.foldl xstep s

/-- The outcomes along an extended history, one per call. -/
def xouts : Store → List Forest.XCall → List Res
  | _, [] => []
  | s, c :: cs => (c.run s).2 :: xouts (s.xstep c) cs

end Store
end XotModel
