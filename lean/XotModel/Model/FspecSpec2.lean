/-
  XotModel.Model.FspecSpec2 — the SPECIFICATION of C05, second part: `replace` (which text node
  survives), `clone_node`, attribute / namespace map updates, the value setters and
  `text_content_mut().set`.

  Like `FspecSpec.lean` this file is written without reference to xot's statement order
  (`Manip.lean` / `Manip2.lean`): it uses the `Forest` / `HTree` data type, its lookups, the
  one-site edit `Forest.editAt` and the list functions of `FspecSpec.lean` only (plus the pure
  helpers `MapKind.matches`, `entryKey`, `entryUpdate` that say what an entry, its key and its
  payload are).
-/
import XotModel.Model.FspecSpec
import XotModel.Model.FcloneSpec

namespace XotModel
namespace Spec
open Forest (MapKind entryKey entryUpdate)

/-! ### replace -/

/-- Does `new` stand directly before or after `old` in one child list? -/
def adjacentTo (f : Forest) (old new : Nat) : Bool :=
  match f.ctx? old with
  | some c => (c.left.getLast?.map (·.handle)) == some new || (c.right.head?.map (·.handle)) == some new
  | none => false

/-- The survivor rule xot follows in `replace(old, new)`: when the replacing node already stands
    next to the replaced one the call is a plain `remove(old)` (the earlier node of a merged pair
    survives, so a replacing text node before a text node survives); otherwise the replacing node
    is *moved* and, like every moved node, never survives a merge. -/
def replaceKeep (f : Forest) (old new : Nat) : Keep :=
  if adjacentTo f old new then Keep.earlier else Keep.resident new

/-- **Replace**, with xot's survivor rule (handle for handle).  With the rule of the property
    text it is `specReplace Keep.earlier`; the two agree once handles are forgotten. -/
def specReplaceX (old new : Nat) (f : Forest) : Forest :=
  specReplace (replaceKeep f old new) old new f

/-! ### clone_node -/

/-- **Clone**, handles forgotten: the old trees, unchanged and in order, followed by exactly one
    new tree, the copy of the source subtree (with consolidation on, every run of adjacent text
    nodes inside the copy is one node — nothing to do for a forest without adjacent text). -/
def specCloneContent (n : Nat) (f : Forest) : List Tree :=
  match f.get? n with
  | some src => f.content ++ [expectedClone f.consolidation src.erase]
  | none => f.content

/-- **Clone**, handle for handle: the copy is the structural copy `copyRoot` of the source with
    fresh handles numbered from `f.next` (`Model/FcloneSpec.lean`); its content is
    `expectedClone` (proved in C12). -/
def specClone (n : Nat) (f : Forest) : Forest :=
  match f.get? n with
  | some src =>
    let r := copyRoot f.consolidation f.next src
    { f with roots := f.roots ++ [r.1], next := r.2 }
  | none => f

/-! ### Attribute and namespace maps: one entry of one view of one element -/

/-- Is the child `c` the entry with key `key` of view `k`? -/
def isEntry (k : MapKind) (key : Nat) (c : HTree) : Bool :=
  k.matches c.value && entryKey c.value == key

/-- Rank of the view's nodes in the child order (namespaces, attributes, normal children). -/
def viewRank : MapKind → Nat
  | .namespaces => 0
  | .attributes => 1

/-- Rank of a child by its kind. -/
def kidRank (c : HTree) : Nat :=
  match c.value with
  | .namespace _ _ => 0
  | .attribute _ _ => 1
  | _ => 2

/-- The payload of the first entry with the key is replaced in place. -/
def updateEntry (k : MapKind) (entry : Value) : List HTree → List HTree
  | [] => []
  | c :: cs =>
    if isEntry k (entryKey entry) c then c.setValue (entryUpdate c.value entry) :: cs
    else c :: updateEntry k entry cs

/-- A new entry node goes after the last child whose rank is at most the view's: after the
    existing entries of the view, before everything that has to follow them. -/
def insertEntry (k : MapKind) (t : HTree) : List HTree → List HTree
  | [] => [t]
  | c :: cs => if kidRank c ≤ viewRank k then c :: insertEntry k t cs else t :: c :: cs

/-- **insert(key, value)** on view `k` of element `e`: an existing key keeps its node (handle and
    position), only the payload changes; a new key is carried by exactly one new node (handle
    `f.next`) placed last in the view. -/
def specMapInsert (k : MapKind) (e : Nat) (entry : Value) (f : Forest) : Forest :=
  if (f.kidsOf e).any (isEntry k (entryKey entry)) then
    f.editAt (some e) (updateEntry k entry)
  else
    { f.editAt (some e) (insertEntry k (.node f.next entry [])) with next := f.next + 1 }

/-- **remove(key)**: exactly the entry node with that key disappears. -/
def specMapRemove (k : MapKind) (e key : Nat) (f : Forest) : Forest :=
  f.editAt (some e) (fun ks => ks.filter (fun c => !isEntry k key c))

/-! ### Setters: exactly one value changes -/

/-- The node `n` gets the value `v`; handles, shape and every other value stay. -/
def specSetValue (n : Nat) (v : Value) (f : Forest) : Forest :=
  { f with roots := HTree.mapAtList n (HTree.setValue v) f.roots }

/-- `set_data` of a processing instruction stores empty data as "no data". -/
def piData : Option Str → Option Str
  | some [] => none
  | d => d

/-- **text_content_mut().set(s)** on a node whose normal children are `[]` (an element: it
    gains exactly one text child, handle `f.next`, after its attribute and namespace nodes) or
    one text node (whose data is replaced). -/
def specTextContentSet (n : Nat) (s : Str) (f : Forest) : Forest :=
  match (f.kidsOf n).filter (fun k => k.value.isNormal) with
  | [] => { f.editAt (some n) (insertLast (.node f.next (.text s) [])) with next := f.next + 1 }
  | [c] => specSetValue c.handle (.text s) f
  | _ => f

end Spec
end XotModel
