/-
  XotModel.Model.FparseRouteSpec — the fifth construction route of C20, at forest level:
  serialise the tree the abstract document denotes (`Xot::to_string`) and `Xot::parse` the text INTO the
  existing store (`IdStore.parseInto`, Model/FidIndex.lean: the builder's tree becomes a new root with
  fresh handles in creation order, the xml:id table of the new document node is recorded).
  `none` = the text does not exist or is refused (outside the C01 domain).
-/
import XotModel.Model.FidIndex
import XotModel.Model.Fixed
import XotModel.Model.Output
import XotModel.Model.ParseString

namespace XotModel

/-- `xot.parse(&to_string(treeOf d))` into the store with index `s`: the store afterwards and the
    document node returned. -/
def IdStore.parseRoute (env : Env) (s : IdStore) (d : FDocument) : Option (IdStore × Nat) :=
  match toXmlString env (treeOf d) [] with
  | .ok text =>
    match parseString .document env text with
    | .ok p => some (s.parseInto p.tree)
    | _ => none
  | _ => none

/-- The same as a route on forests (`RouteOk` of Props/C20), whatever the index holds. -/
def Forest.parseRoute (env : Env) (index : List ((Nat × Str) × Nat)) (f : Forest) (d : FDocument) :
    Option (Forest × Nat) :=
  ((IdStore.mk f index).parseRoute env d).map (fun r => (r.1.forest, r.2))

end XotModel
