/-
  XotModel.Model.Entity — model of /repo/src/entity.rs.

  `parseContent`   : entity.rs `parse_content` (reference decoding, line ends, attribute-value
                     whitespace folding, error kinds and byte positions)
  `serializeText`  : entity.rs `serialize_text` (with the `unescaped_gt` look-back)
  `serializeCdata` : entity.rs `serialize_cdata` (the 0/1/2 bracket counter as written)
  `serializeAttribute` : entity.rs `serialize_attribute`
  The escape tables, entity names and CDATA literals come from `Generated.lean`.
  The normalizer is the identity (`NoopNormalizer`).
-/
import XotModel.Model.Basic
import XotModel.Generated

namespace XotModel
open Gen

/-- The two `ParseError` variants `parse_content` can return. Positions are byte offsets. -/
inductive ContentErr where
  | unclosed (entity : Str) (pos : Nat)
  | invalid (entity : Str) (start stop : Nat)
  deriving Repr, DecidableEq

/-- `for (p, c) in chars.by_ref() { if c == ';' … break; entity.push(c) }`:
    the text up to the first `;` and the rest after it; `none` when there is no `;`. -/
def splitSemi : Str → Option (Str × Str)
  | [] => none
  | c :: cs => if c = ';' then some ([], cs) else
      match splitSemi cs with
      | some (e, r) => some (c :: e, r)
      | none => none

theorem splitSemi_length {s e r : Str} (h : splitSemi s = some (e, r)) : r.length < s.length := by
  induction s generalizing e with
  | nil => simp [splitSemi] at h
  | cons c cs ih =>
    unfold splitSemi at h
    split at h
    · simp at h; obtain ⟨_, rfl⟩ := h; simp
    · cases hs : splitSemi cs with
      | none => simp [hs] at h
      | some p =>
        obtain ⟨e', r'⟩ := p
        simp [hs] at h
        obtain ⟨_, rfl⟩ := h
        have := ih hs
        simp; omega

/-- `if let Some((_, '\n')) = chars.peek() { chars.next(); }` after a CR. -/
def skipLf : Str → Str
  | '\n' :: r => r
  | s => s

theorem skipLf_length (s : Str) : (skipLf s).length ≤ s.length := by
  unfold skipLf; split <;> simp

/-- Value of a digit in the given radix (`char::to_digit`). -/
def digitVal (radix : Nat) (c : Char) : Option Nat :=
  let n := c.toNat
  let v :=
    if 48 ≤ n ∧ n ≤ 57 then some (n - 48)
    else if 97 ≤ n ∧ n ≤ 122 then some (n - 97 + 10)
    else if 65 ≤ n ∧ n ≤ 90 then some (n - 65 + 10)
    else none
  match v with
  | some d => if d < radix then some d else none
  | none => none

/-- Left-to-right digit accumulation with the `u32` overflow check. -/
def parseDigits (radix : Nat) : Nat → Str → Option Nat
  | acc, [] => some acc
  | acc, c :: cs =>
    match digitVal radix c with
    | none => none
    | some d =>
      let acc' := acc * radix + d
      if acc' < 2 ^ 32 then parseDigits radix acc' cs else none

/-- `u32::from_str_radix` behind the "digits only" guard of `parse_content`: at least one
    digit, no sign, no overflow. -/
def parseU32 (radix : Nat) (s : Str) : Option Nat :=
  match s with
  | [] => none
  | _ => parseDigits radix 0 s

/-- The XML `Char` production (https://www.w3.org/TR/xml/#NT-Char), as the `matches!` in
    `parse_content` spells it. -/
def isXmlCharCode (n : Nat) : Bool :=
  n == 0x9 || n == 0xA || n == 0xD || (0x20 ≤ n && n ≤ 0xD7FF) || (0xE000 ≤ n && n ≤ 0xFFFD) ||
  (0x10000 ≤ n && n ≤ 0x10FFFF)

/-- `char::from_u32(code).filter(is XML Char)`. -/
def xmlCharOfNat? (n : Nat) : Option Char :=
  if isXmlCharCode n then charOfNat? n else none

/-- The `match entity.as_str()` arms of `parse_content`. -/
def namedEntity (e : Str) : Option Char := namedEntities.lookup e

/-- Decode the text between `&` and `;`. `none` = `ParseError::InvalidEntity`. -/
def decodeEntity (e : Str) : Option Char :=
  match e with
  | '#' :: num =>
    match num with
    | [] => none
    | 'x' :: hex => (parseU32 16 hex).bind xmlCharOfNat?
    | _ => (parseU32 10 num).bind xmlCharOfNat?
  | _ => namedEntity e

/-- The string carried by `InvalidEntity` (the part after `#` for numeric references). -/
def entityErrText (e : Str) : Str :=
  match e with
  | '#' :: num => num
  | _ => e

/-- `result.push(c)` in front of the rest of the loop's result. -/
def consOk (c : Char) : Except ContentErr Str → Except ContentErr Str
  | .ok r => .ok (c :: r)
  | .error e => .error e

/-- `parse_content(content, attribute, base_position)`; `pos` is the byte offset of the
    next character. -/
def parseContentGo (attr : Bool) (base : Nat) : Nat → Str → Except ContentErr Str
  | _, [] => .ok []
  | pos, c :: rest =>
    if c = '\r' then
      let out := if attr then ' ' else '\n'
      consOk out (parseContentGo attr base (pos + 1 + (rest.length - (skipLf rest).length)) (skipLf rest))
    else if c = '&' then
      match h : splitSemi rest with
      | none => .error (.unclosed rest (base + pos))
      | some (ent, rest') =>
        let stop := pos + 1 + strLen ent + 1
        match decodeEntity ent with
        | none => .error (.invalid (entityErrText ent) (base + pos) (base + stop))
        | some ch =>
          consOk ch (parseContentGo attr base stop rest')
    else if attr && (c = '\t' || c = '\n') then
      consOk ' ' (parseContentGo attr base (pos + utf8Len c) rest)
    else
      consOk c (parseContentGo attr base (pos + utf8Len c) rest)
termination_by _ s => s.length
decreasing_by
  all_goals simp_wf
  · have := skipLf_length rest; omega
  · have := splitSemi_length h; omega

def parseContent (attr : Bool) (s : Str) : Except ContentErr Str := parseContentGo attr 0 0 s
def parseText (s : Str) : Except ContentErr Str := parseContent false s
def parseAttribute (s : Str) : Except ContentErr Str := parseContent true s

/-- One table-driven escaping step: the `match c { 'x' => push_str("…"), _ => push(c) }` shape. -/
def escapeWith (table : List (Char × Str)) (c : Char) : Str :=
  match table.lookup c with
  | some s => s
  | none => [c]

/-- `serialize_attribute`. -/
def serializeAttribute (s : Str) : Str := s.flatMap (escapeWith attrEscapes)

/-- `serialize_text` with `unescaped_gt = false`. -/
def serializeTextEsc (s : Str) : Str :=
  s.flatMap (fun c => if c = '>' then textGtEscape else escapeWith textEscapes c)

/-- `serialize_text` with `unescaped_gt = true`; `racc` is the output so far, reversed
    (`result.chars().rev().take(2)` is its first two elements). -/
def serializeTextGtGo : Str → Str → Str
  | racc, [] => racc.reverse
  | racc, c :: cs =>
    if c = '>' then
      match racc with
      | ']' :: ']' :: _ => serializeTextGtGo (textGtEscape.reverse ++ racc) cs
      | _ => serializeTextGtGo ('>' :: racc) cs
    else serializeTextGtGo ((escapeWith textEscapes c).reverse ++ racc) cs

def serializeText (unescapedGt : Bool) (s : Str) : Str :=
  if unescapedGt then serializeTextGtGo [] s else serializeTextEsc s

/-- The body of the `serialize_cdata` loop: `k` = `closing_square_brackets_seen`. -/
def serializeCdataGo : Nat → Str → Str
  | k, [] => List.replicate k ']' ++ cdataClose
  | k, c :: cs =>
    if c = ']' then
      if k < 2 then serializeCdataGo (k + 1) cs
      else ']' :: serializeCdataGo 2 cs
    else if c = '>' then
      if k = 2 then cdataSplit ++ serializeCdataGo 0 cs
      else List.replicate k ']' ++ ('>' :: serializeCdataGo 0 cs)
    else if c = '\r' then List.replicate k ']' ++ (cdataCr ++ serializeCdataGo 0 cs)
    else List.replicate k ']' ++ (c :: serializeCdataGo 0 cs)

/-- `serialize_cdata`. -/
def serializeCdata (s : Str) : Str := cdataOpen ++ serializeCdataGo 0 s

/-- `serialize_text_html` / `serialize_attribute_html` (html5_serializer.rs). -/
def serializeTextHtml (s : Str) : Str := s.flatMap (escapeWith htmlTextEscapes)
def serializeAttributeHtml (s : Str) : Str := s.flatMap (escapeWith htmlAttrEscapes)

/-- `str::trim_start_matches(' ')`. -/
def trimSpacesStart : Str → Str
  | ' ' :: r => trimSpacesStart r
  | s => s

/-- `str::trim_matches(' ')`. -/
def trimSpaces (s : Str) : Str := (trimSpacesStart (trimSpacesStart s).reverse).reverse

/-- The collapsing loop of `normalize_xml_id`: `lastSpace` = `last_char_space`. -/
def collapseSpaces : Bool → Str → Str
  | _, [] => []
  | lastSpace, c :: cs =>
    if c = ' ' then
      if lastSpace then collapseSpaces true cs else ' ' :: collapseSpaces true cs
    else c :: collapseSpaces false cs

/-- `parse.rs normalize_xml_id`. -/
def normalizeXmlId (s : Str) : Str := collapseSpaces false (trimSpaces s)

/-! ### Reading CDATA sections back (specification side, XML 1.0 §2.7)

`inSection` reads section content up to the first `]]>`; `afterSection` expects the end of the
text, another `<![CDATA[`, or the character reference `&#xD;` (a carriage return cannot be
written inside a section: it would be read back as a line feed).  The result is the concatenation of the section contents. -/

mutual
def inSection : Str → Option Str
  | [] => none
  | ']' :: ']' :: '>' :: rest => afterSection rest
  | c :: rest => (inSection rest).map (c :: ·)
def afterSection : Str → Option Str
  | [] => some []
  | '<' :: '!' :: '[' :: 'C' :: 'D' :: 'A' :: 'T' :: 'A' :: '[' :: rest => inSection rest
  | '&' :: '#' :: 'x' :: 'D' :: ';' :: rest => (afterSection rest).map ('\r' :: ·)
  | _ => none
end

/-- Contents of a text that consists of CDATA sections only. -/
def cdataSectionsContent (s : Str) : Option Str :=
  match s with
  | [] => none
  | _ => afterSection s

/-- Does the text start with `]]>`? -/
def startsCdataEnd : Str → Bool
  | a :: b :: c :: _ => a == ']' && b == ']' && c == '>'
  | _ => false

/-- Does the text contain `]]>`? -/
def hasCdataEnd : Str → Bool
  | [] => false
  | c :: rest => startsCdataEnd (c :: rest) || hasCdataEnd rest

end XotModel
