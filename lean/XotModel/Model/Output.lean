/-
  XotModel.Model.Output — the XML serialiser.

  * `genOutputs`      : output/serializer.rs `gen_outputs` / `gen_edge_start` / `gen_edge_end`
  * `renderXml`       : output/xml_serializer.rs `XmlSerializer::render_output`
  * `renderAll`, `tokens` : serialize.rs `Xot::tokens` (`render_output(..).unwrap()`)
  * `writeGo`, `serializeWrite`, `serializeString` : `XmlSerializer::serialize` / `serialize_node`
    in front of a writer that never fails (`Vec<u8>`: the string entry points)
  * `nodeStepCalls`, `writeGoW`, `serializeWriteW` : the same threaded through a writer that can
    refuse a `write_all` call (`Model/Writer.lean`): `Err(Error::Io)` at the first refused call
  Nodes are identified by their path of raw child indices from the root of the tree that
  contains the start node (so that ancestors, for `namespaces_in_scope`, are available).
  The format-string literals come from `Generated.lean`.
-/
import XotModel.Model.Entity
import XotModel.Model.Names
import XotModel.Model.Writer

namespace XotModel
open Gen

/-- The value of a successful outcome. -/
def Outcome.okValue? {ε α : Type} : Outcome ε α → Option α
  | .ok a => some a
  | _ => none

/-- `format!` with the literal split at its `{}` placeholders. -/
def fmt : List Str → List Str → Str
  | [], _ => []
  | [p], _ => p
  | p :: ps, [] => p ++ fmt ps []
  | p :: ps, a :: as => p ++ a ++ fmt ps as

/-- `xot.first_child(node)` = `normal_children(node).next()`. -/
def Tree.firstChild? (t : Tree) : Option Tree := t.normalKids.head?

/-- `has_namespace_declarations`. -/
def Tree.hasNsDecls (t : Tree) : Bool := !t.nsDecls.isEmpty

/-- `NodeMap::contains_key` on the namespace view. -/
def Tree.declaresPrefix (t : Tree) (p : Nat) : Bool := t.nsDecls.any (fun d => d.1 == p)

/-! ### gen_outputs -/

/-- The `if node == top_node { … }` block of `gen_edge_start`: in-scope declarations that the
    element does not declare itself. -/
def extraPrefixes (inScope : List (Nat × Nat)) (n : Tree) : List Output :=
  (inScope.filter (fun d => !n.declaresPrefix d.1)).map (fun d => Output.pfx d.1 d.2)

/-- `gen_edge_start(xot, top_node, node)`; `inScope` = `namespaces_in_scope(node)`, only used
    when `isTop` (= `node == top_node`). -/
def edgeStart (inScope : List (Nat × Nat)) (isTop : Bool) (n : Tree) : List Output :=
  match n.value with
  | .document => []
  | .element name =>
    [Output.startTagOpen name]
      ++ (if isTop then extraPrefixes inScope n else [])
      ++ n.nsDecls.map (fun d => Output.pfx d.1 d.2)
      ++ n.attrs.map (fun a => Output.attribute a.1 a.2)
      ++ [Output.startTagClose]
  | .text s => [Output.text s]
  | .comment s => [Output.comment s]
  | .pi target data => [Output.pi target data]
  | .attribute _ _ => []
  | .namespace _ _ => []

/-- `gen_edge_end`. -/
def edgeEnd (n : Tree) : List Output :=
  match n.value with
  | .element name => [Output.endTag name]
  | _ => []

/-- The traversal of `gen_outputs`: indextree's `traverse` (every descendant, raw order) filtered
    by `normal_edge_filter`; `path` is the path of the node, `isTop` whether it is the start node. -/
def genNode (inScope : List (Nat × Nat)) (isTop : Bool) (path : Path) : Tree → List (Path × Output)
  | .node v ks =>
    if v.isNormal then
      (edgeStart inScope isTop (.node v ks)).map (fun o => (path, o))
        ++ genKids inScope path 0 ks
        ++ (edgeEnd (.node v ks)).map (fun o => (path, o))
    else genKids inScope path 0 ks
where
  genKids (inScope : List (Nat × Nat)) (path : Path) : Nat → List Tree → List (Path × Output)
    | _, [] => []
    | i, k :: ks => genNode inScope false (path ++ [i]) k ++ genKids inScope path (i + 1) ks

/-- `gen_outputs(xot, node)` for the node at `start` in `t` (nothing for a path that does not exist). -/
def genOutputs (t : Tree) (start : Path) : List (Path × Output) :=
  match t.at? start, namespacesInScope t start with
  | some n, some inScope => genNode inScope true start n
  | _, _ => []

/-! ### XmlSerializer -/

/-- `TokenSerializeParameters`. -/
structure TokenParams where
  cdataSectionElements : List Nat := []
  unescapedGt : Bool := false
  deriving Repr, DecidableEq, Inhabited

/-- The escaping functions the renderer calls (so that theorems can be stated for arbitrary ones). -/
structure Escapers where
  attr : Str → Str
  txt : Bool → Str → Str
  cdata : Str → Str

/-- entity.rs with the `NoopNormalizer`. -/
def xmlEscapers : Escapers := ⟨serializeAttribute, serializeText, serializeCdata⟩

/-- `parent(node).and_then(|parent| element(parent))`, then
    `self.parameters.cdata_section_elements.contains(&element.name())`: a text node without an
    element parent (unattached, or directly under a document) is not in a CDATA-section element. -/
def isCdataElement (pr : TokenParams) (parent : Option Tree) : Bool :=
  match parent with
  | some par =>
    (match par.value with
     | .element name => pr.cdataSectionElements.contains name
     | _ => false)
  | none => false

/-- `XmlSerializer::render_output(node, output)`.  `node` is the subtree at the event's node,
    `parent` the subtree at `xot.parent(node)`. The state is the `FullnameSerializer` stack. -/
def renderXmlWith (esc : Escapers) (env : Env) (pr : TokenParams) (s : FStack) (node : Tree)
    (parent : Option Tree) : Output → Outcome XotError (FStack × OutputToken)
  | .startTagOpen name =>
    let s' := s.push node.nsDecls
    -- an element in no namespace cannot be written unprefixed where a default namespace is in
    -- scope: `Err(Error::MissingPrefix("".to_string()))`
    if env.nsOfName name == Env.noNamespace && s'.hasDefaultNamespace then
      .err (.missingPrefix Env.noNamespace)
    else match s'.elementFullname env name with
    | .ok full => .ok (s', ⟨false, fmt fmtStartTagOpen [full]⟩)
    | .error e => .err e
  | .startTagClose =>
    if node.firstChild?.isNone then .ok (s, ⟨false, litEmptyTagClose⟩)
    else .ok (s, ⟨false, litTagClose⟩)
  | .endTag name =>
    if node.firstChild?.isSome then
      match s.elementFullname env name with
      | .ok full => .ok (s.pop node.hasNsDecls, ⟨false, fmt fmtEndTag [full]⟩)
      | .error e => .err e
    else .ok (s.pop node.hasNsDecls, ⟨false, litEmptyEndTag⟩)
  | .pfx p ns =>
    if ns == Env.xmlNamespace then .ok (s, ⟨false, litXmlPrefix⟩)
    -- the namespace URI is escaped as an attribute value (`serialize_attribute`)
    else if p == Env.emptyPrefix then
      .ok (s, ⟨true, fmt fmtXmlnsDefault [esc.attr (env.namespaceStr ns)]⟩)
    else .ok (s, ⟨true, fmt fmtXmlnsPrefix [env.prefixStr p, esc.attr (env.namespaceStr ns)]⟩)
  | .attribute name value =>
    match s.attributeFullname env name with
    | .ok full => .ok (s, ⟨true, fmt fmtAttribute [full, esc.attr value]⟩)
    | .error e => .err e
  | .text text =>
    if isCdataElement pr parent then .ok (s, ⟨false, esc.cdata text⟩)
    else .ok (s, ⟨false, esc.txt pr.unescapedGt text⟩)
  | .comment text => .ok (s, ⟨false, fmt fmtComment [text]⟩)
  | .pi target data =>
    if !(env.namespaceStr (env.nsOfName target)).isEmpty then .err .namespaceInProcessingInstruction
    else match data with
      | some d => .ok (s, ⟨false, fmt fmtPiData [env.localName target, d]⟩)
      | none => .ok (s, ⟨false, fmt fmtPi [env.localName target]⟩)

/-- `xot.parent(node)` as a subtree of `t`. -/
def Tree.parentAt? (t : Tree) (path : Path) : Option Tree :=
  if path.isEmpty then none else t.at? path.dropLast

/-- `render_output` for the node at `path` in `t` (a non-existing path cannot occur: the paths
    come from `genOutputs`; it is answered `panic`). -/
def renderAtWith (esc : Escapers) (env : Env) (pr : TokenParams) (t : Tree) (s : FStack) (path : Path)
    (o : Output) : Outcome XotError (FStack × OutputToken) :=
  match t.at? path with
  | some node => renderXmlWith esc env pr s node (t.parentAt? path) o
  | none => .panic

/-- `XmlSerializer::new`: the stack starts with `namespaces_in_scope(node)`. -/
def initStack (t : Tree) (start : Path) : FStack :=
  FStack.new ((namespacesInScope t start).getD [])

/-- The rendered stream: `outputs.map(render_output)` up to the first failure. -/
def renderAllWith (esc : Escapers) (env : Env) (pr : TokenParams) (t : Tree) :
    FStack → List (Path × Output) → Outcome XotError (List (Path × Output × OutputToken))
  | _, [] => .ok []
  | s, (p, o) :: rest =>
    match renderAtWith esc env pr t s p o with
    | .ok (s', tok) =>
      (match renderAllWith esc env pr t s' rest with
       | .ok l => .ok ((p, o, tok) :: l)
       | .err e => .err e
       | .panic => .panic)
    | .err e => .err e
    | .panic => .panic

/-- `Xot::tokens(node, parameters, normalizer)` collected: `render_output(..).unwrap()` turns an
    error into a panic. -/
def tokensWith (esc : Escapers) (env : Env) (pr : TokenParams) (t : Tree) (start : Path) :
    Outcome XotError (List (Path × Output × OutputToken)) :=
  match renderAllWith esc env pr t (initStack t start) (genOutputs t start) with
  | .ok l => .ok l
  | .err _ => .panic
  | .panic => .panic

/-- What `serialize_node` writes for one token. -/
def tokenBytes (k : OutputToken) : Str := (if k.space then tokenSpace else []) ++ k.text

/-- `XmlSerializer::serialize(w, outputs)`: bytes written so far and how the loop ended. -/
def writeGoWith (esc : Escapers) (env : Env) (pr : TokenParams) (t : Tree) :
    FStack → List (Path × Output) → Str × Outcome XotError Unit
  | _, [] => ([], .ok ())
  | s, (p, o) :: rest =>
    match renderAtWith esc env pr t s p o with
    | .ok (s', tok) =>
      let (w, r) := writeGoWith esc env pr t s' rest
      (tokenBytes tok ++ w, r)
    | .err e => ([], .err e)
    | .panic => ([], .panic)

/-- `serialize_xml_write` with only token parameters (no declaration, doctype, indentation):
    also `Xot::write` (default parameters). -/
def serializeWriteWith (esc : Escapers) (env : Env) (pr : TokenParams) (t : Tree) (start : Path) :
    Str × Outcome XotError Unit :=
  writeGoWith esc env pr t (initStack t start) (genOutputs t start)

/-- `let mut buf = Vec::new(); write(.., &mut buf)?; Ok(String::from_utf8(buf).unwrap())`. -/
def bufferToString (r : Str × Outcome XotError Unit) : Outcome XotError Str :=
  match r.2 with
  | .ok () => .ok r.1
  | .err e => .err e
  | .panic => .panic

/-- `serialize_xml_string` with only token parameters; `Xot::to_string` for the defaults. -/
def serializeStringWith (esc : Escapers) (env : Env) (pr : TokenParams) (t : Tree) (start : Path) :
    Outcome XotError Str :=
  bufferToString (serializeWriteWith esc env pr t start)

/-! ### The same in front of a writer that can fail (`Model/Writer.lean`) -/

/-- The `write_all` calls of `serialize_node` once the token is rendered, in order:
    `if data.space { w.write_all(b" ")?; }  w.write_all(data.text.as_bytes())?;`
    (the text call is made even when the text is empty). -/
def tokenCalls (k : OutputToken) : List Str := (if k.space then [tokenSpace] else []) ++ [k.text]

/-- One `self.serialize_node(w, node, output)?` of `XmlSerializer::serialize`:
    `let data = self.render_output(node, &output)?;` comes first — a rendering error is returned before
    anything of this event reaches the writer — then the calls of `tokenCalls`. -/
def nodeStepCalls (esc : Escapers) (env : Env) (pr : TokenParams) (t : Tree) (s : FStack)
    (po : Path × Output) : List Str × Outcome XotError FStack :=
  match renderAtWith esc env pr t s po.1 po.2 with
  | .ok (s', tok) => (tokenCalls tok, .ok s')
  | .err e => ([], .err e)
  | .panic => ([], .panic)

/-- `XmlSerializer::serialize(w, outputs)` with a writer `P` that has accepted the calls `hist`:
    bytes the writer holds at the end, and how the loop ended (`Io` at the first refused call). -/
def writeGoW (P : WriterPolicy) (esc : Escapers) (env : Env) (pr : TokenParams) (t : Tree) :
    List Str → FStack → List (Path × Output) → Str × Outcome XotError Unit :=
  writeLoopW P (nodeStepCalls esc env pr t)

/-- The calls `XmlSerializer::serialize` makes when none is refused, and how it ends. -/
def writeGoCalls (esc : Escapers) (env : Env) (pr : TokenParams) (t : Tree) :
    FStack → List (Path × Output) → List Str × Outcome XotError Unit :=
  callsLoop (nodeStepCalls esc env pr t)

/-- `Xot::write(node, w)` / `serialize_xml_write` with only token parameters, any writer. -/
def serializeWriteW (P : WriterPolicy) (esc : Escapers) (env : Env) (pr : TokenParams) (t : Tree)
    (start : Path) : Str × Outcome XotError Unit :=
  writeGoW P esc env pr t [] (initStack t start) (genOutputs t start)

abbrev renderXml := renderXmlWith xmlEscapers
abbrev renderAt := renderAtWith xmlEscapers
abbrev renderAll := renderAllWith xmlEscapers
abbrev tokens := tokensWith xmlEscapers
abbrev serializeWrite := serializeWriteWith xmlEscapers
abbrev serializeString := serializeStringWith xmlEscapers

/-- `Xot::to_string`. -/
def toXmlString (env : Env) (t : Tree) (start : Path) : Outcome XotError Str :=
  serializeString env {} t start

end XotModel
