/-
  XotModel.Model.FcloneModel — the rest of cloning (C12):

  * `unresolved_namespaces`, `prefixes_in_scope`, `inherited_prefixes` (nameaccess.rs) on the
    forest: the static-tree functions of `Names.lean` applied to `HTree.erase` of the subtree /
    of the ancestor chain;
  * `clone_with_prefixes` (manipulation.rs): `clone_node`, then one `namespaces_mut(clone).insert`
    per inherited prefix that the clone does not declare itself.  `inherited_prefixes` returns a
    hash map, so the order in which the missing declarations are inserted is not determined by
    the source text: it is the parameter `order` of `cloneWithPrefixes`, and every theorem
    quantifies over all orders (any list; the driver passes a permutation of
    `inheritedPrefixes`);
  * `Xot::clone()` (`#[derive(Clone)]` on `struct Xot`): the identity on the model value, see
    `Store.clone` and `Gen.xotFields`.
-/
import XotModel.Model.ForestInv
import XotModel.Model.Names

namespace XotModel

/-! ### `unresolved_namespaces` on a static tree -/

def fcIsError {ε α : Type} : Except ε α → Bool
  | .ok _ => false
  | .error _ => true

/-- The namespaces of an element's own name and attribute names that cannot be written with the
    declarations on top of the stack (body of the `NodeEdge::Start` arm):
    `element_prefix(name).is_err()` / `attribute_prefix(name).is_err()` — names in no namespace
    and in the XML namespace always can, an attribute name needs a non-empty prefix. -/
def unresolvedHere (env : Env) (s : FStack) (name : Nat) (attrNames : List Nat) : List Nat :=
  (if fcIsError (s.elementPrefix env name) then [env.nsOfName name] else []) ++
  attrNames.filterMap (fun a =>
    if fcIsError (s.attributePrefix env a) then some (env.nsOfName a) else none)

mutual
  /-- `unresolved_namespaces(node)`: `traverse` (edges of attribute / namespace nodes are filtered
      out, their descendants are not) with a `FullnameSerializer` started on no declarations;
      an element pushes its declarations (`push` ignores an empty list; `pop` is told whether
      there were any), reports its own unknown namespaces, then its descendants follow. -/
  def unresolvedTree (env : Env) (s : FStack) : Tree → List Nat
    | .node v ks =>
      match v with
      | .element name =>
        let t := Tree.node v ks
        let s' := s.push t.nsDecls
        unresolvedHere env s' name (t.attrs.map (·.1)) ++ unresolvedList env s' ks
      | _ => unresolvedList env s ks
  def unresolvedList (env : Env) (s : FStack) : List Tree → List Nat
    | [] => []
    | k :: ks => unresolvedTree env s k ++ unresolvedList env s ks
end

/-! ### Does `to_string(node)` succeed? (output/xml_serializer.rs `render_output`) -/

def fcIsOk {ε α : Type} : Except ε α → Bool
  | .ok _ => true
  | .error _ => false

mutual
  /-- The ways `to_string` fails on a tree: `MissingPrefix` for an element in no namespace where
      a default namespace is in scope (checked right after the push, /repo a32c6f4),
      `MissingPrefix` from `element_fullname` (start
      tag, and again on the end tag with the same stack) / `attribute_fullname`, and
      `NamespaceInProcessingInstruction`.  `StartTagOpen` pushes the element's declarations,
      `EndTag` pops them; text, comments, declarations never fail. -/
  def writableTree (env : Env) (s : FStack) : Tree → Bool
    | .node v ks =>
      match v with
      | .element name =>
        let t := Tree.node v ks
        let s' := s.push t.nsDecls
        !(env.nsOfName name == Env.noNamespace && s'.hasDefaultNamespace) &&
          fcIsOk (s'.elementFullname env name) &&
          (t.attrs.map (·.1)).all (fun a => fcIsOk (s'.attributeFullname env a)) &&
          writableList env s' ks
      | .pi target _ => (env.namespaceStr (env.nsOfName target)).isEmpty && writableList env s ks
      | _ => writableList env s ks
  def writableList (env : Env) (s : FStack) : List Tree → Bool
    | [] => true
    | k :: ks => writableTree env s k && writableList env s ks
end

mutual
  /-- The subtrees from the node `h` up to the root of this tree (`h`'s subtree first): indextree
      `ancestors` with the subtrees instead of the handles. -/
  def HTree.pathTo (h : Nat) : HTree → Option (List HTree)
    | .node h' v ks =>
      if h' = h then some [.node h' v ks]
      else match HTree.pathToList h ks with
        | some l => some (l ++ [.node h' v ks])
        | none => none
  def HTree.pathToList (h : Nat) : List HTree → Option (List HTree)
    | [] => none
    | k :: ks =>
      match HTree.pathTo h k with
      | some l => some l
      | none => HTree.pathToList h ks
end

namespace Forest

/-- The subtrees of `ancestors(h)`, nearest (the node itself) first, root last; `[]` for a handle
    that is not live. -/
def pathTo (f : Forest) (h : Nat) : List HTree :=
  (f.roots.findSome? (HTree.pathTo h)).getD []

/-- The erased subtrees of `ancestors(h)`, nearest (the node itself) first. -/
def chain (f : Forest) (h : Nat) : List Tree := (f.pathTo h).map HTree.erase

/-- `namespaces_in_scope(node)` (in yield order) = `prefixes_in_scope(node)` as a list. -/
def prefixesInScope (f : Forest) (h : Nat) : List (Nat × Nat) :=
  namespacesInScopeChain (f.chain h)

/-- `unresolved_namespaces(node)`. -/
def unresolvedNamespaces (env : Env) (f : Forest) (h : Nat) : List Nat :=
  match f.get? h with
  | some t => unresolvedTree env (FStack.new []) t.erase
  | none => []

/-- `inherited_prefixes(node)`: the prefixes in scope at the parent, restricted to the namespaces
    that are unresolved inside the node (`if let Some(parent) = self.parent(node)` = the path
    to the node has a second element).  (The Rust value is a hash map: this list, in
    `namespace_traverse` order, is one enumeration of it.) -/
def inheritedPrefixes (env : Env) (f : Forest) (h : Nat) : List (Nat × Nat) :=
  let prefixes := match f.pathTo h with
    | _ :: p :: rest => namespacesInScopeChain ((p :: rest).map HTree.erase)
    | _ => []
  let unresolved := f.unresolvedNamespaces env h
  prefixes.filter (fun pn => unresolved.contains pn.2)

/-- `to_string(node).is_ok()`: `XmlSerializer::new` starts the name stack from
    `namespaces_in_scope(node)`. -/
def serialises (env : Env) (f : Forest) (h : Nat) : Bool :=
  match f.get? h with
  | some t => writableTree env (FStack.new (f.prefixesInScope h)) t.erase
  | none => false

/-- The loop of `clone_with_prefixes` over the inherited prefixes, in the iteration order `order`:
    `if namespaces.contains_key(prefix) { continue }; namespaces.insert(prefix, ns)`. -/
def addPrefixes (f : Forest) (clone : Nat) : List (Nat × Nat) → Forest × Res
  | [] => (f, .ok)
  | (p, ns) :: rest =>
    if (f.mapGetNode .namespaces clone p).isSome then addPrefixes f clone rest
    else
      match f.mapInsert .namespaces clone (.namespace p ns) with
      | (f', .ok) => addPrefixes f' clone rest
      | (f', r) => (f', r)

/-- `clone_with_prefixes(node)`; `order` = the iteration order of the hash map returned by
    `inherited_prefixes(node)` (computed before cloning). `none` = panic. -/
def cloneWithPrefixes (f : Forest) (node : Nat) (order : List (Nat × Nat)) : Forest × Option Nat :=
  match f.cloneNode node with
  | (f1, some c) =>
    if f1.isElement c then
      match f1.addPrefixes c order with
      | (f2, .ok) => (f2, some c)
      | (f2, _) => (f2, none)
    else (f1, some c)
  | (f1, none) => (f1, none)

end Forest

/-! ### `Xot::clone()` -/

/-- What the model knows of one `Xot`: the arena (forest + consolidation flag) and the three
    interning tables.  Every field of `struct Xot` is owned data (`Gen.xotFields`, read off
    xotdata.rs on every run), so the derived `Clone` is a deep copy: the same value again. -/
structure Store where
  forest : Forest := {}
  env : Env := {}
  deriving Inhabited

/-- `Xot::clone()`. -/
def Store.clone (s : Store) : Store := s

end XotModel
