/-
  XotModel.Model.Normalizer — the `*_with_normalizer` serialisation entry points.

  * `normEscapers N`     : entity.rs `serialize_text` / `serialize_attribute` / `serialize_cdata` with a
                           caller-supplied `Normalizer` (`let normalized_content = normalizer.normalize(content)`,
                           then the escaping loop over the RESULT); `xmlEscapers` is the `NoopNormalizer` instance.
                           `serializeXmlStringWith (normEscapers N)` = `Xot::serialize_xml_string_with_normalizer`,
                           `serializeXmlWriteWith (normEscapers N)` = `serialize_xml_write_with_normalizer`,
                           `tokensWith (normEscapers N)` = `Xot::tokens(.., normalizer)`.
  * `Tree.mapText N`     : the tree with `N` applied to what the serialisers normalise: text node values and
                           attribute values (harness: `map_tree_fullwidth`).
  * `renderHtmlN N` …    : output/html5_serializer.rs `Html5Serializer<N>::render_output` with the normalizer
    `serializeHtmlStringN` threaded where the Rust threads it (`serialize_text_html`, `serialize_attribute_html`,
                           `serialize_text_no_escape`, `serialize_text`, `serialize_cdata`, `serialize_attribute`,
                           also on the namespace URI of an `xmlns` declaration); the boolean-attribute test looks at
                           the value as stored (`value.to_ascii_lowercase()`, not normalised), `Pretty` at the tree.
                           serialize.rs `Html5::serialize_write_with_normalizer` / `serialize_string_with_normalizer`.
                           `Model/Html5.lean` is the `N = id` instance (`Lemmas/NormalizerHtml.lean`).
  * `fullwidthNorm`      : a concrete normalizer (the harness's `FullwidthNormalizer`): the fullwidth forms of the
                           five markup characters become the ASCII ones, as NFKC / NFKD do.
-/
import XotModel.Model.XmlDecl
import XotModel.Model.Html5

namespace XotModel
open Gen

/-! ### entity.rs with a normalizer -/

/-- `serialize_attribute(content, normalizer)`. -/
def serializeAttributeN (N : Str → Str) (s : Str) : Str := serializeAttribute (N s)
/-- `serialize_text(content, normalizer, unescaped_gt)`. -/
def serializeTextN (N : Str → Str) (unescapedGt : Bool) (s : Str) : Str := serializeText unescapedGt (N s)
/-- `serialize_cdata(content, normalizer)`. -/
def serializeCdataN (N : Str → Str) (s : Str) : Str := serializeCdata (N s)
/-- html5_serializer.rs `serialize_text_html(content, normalizer)`. -/
def serializeTextHtmlN (N : Str → Str) (s : Str) : Str := serializeTextHtml (N s)
/-- html5_serializer.rs `serialize_attribute_html(content, normalizer)`. -/
def serializeAttributeHtmlN (N : Str → Str) (s : Str) : Str := serializeAttributeHtml (N s)
/-- html5_serializer.rs `serialize_text_no_escape(content, normalizer)` = `normalizer.normalize(content)`. -/
def serializeTextNoEscapeN (N : Str → Str) (s : Str) : Str := N s

/-- The escaping functions of `XmlSerializer<N>` for the normalizer `N`. -/
def normEscapers (N : Str → Str) : Escapers := ⟨serializeAttributeN N, serializeTextN N, serializeCdataN N⟩

/-! ### The normalised tree -/

/-- `N` on the value of a text node / an attribute node; every other value is kept. -/
def Value.mapText (N : Str → Str) : Value → Value
  | .text s => .text (N s)
  | .attribute name v => .attribute name (N v)
  | v => v

/-- `N` applied to the text node values and the attribute values of a tree; nothing else changes. -/
def Tree.mapText (N : Str → Str) : Tree → Tree
  | .node v ks => .node (v.mapText N) (mapTextList N ks)
where
  mapTextList (N : Str → Str) : List Tree → List Tree
    | [] => []
    | k :: ks => Tree.mapText N k :: mapTextList N ks

/-- The event of the normalised tree that corresponds to an event of the tree. -/
def Output.mapText (N : Str → Str) : Output → Output
  | .text s => .text (N s)
  | .attribute name v => .attribute name (N v)
  | o => o

/-! ### Html5Serializer with a normalizer -/

/-- The `Text` arm of `Html5Serializer<N>::render_output`. -/
def htmlTextValueN (N : Str → Str) (c : HtmlCtx) (parent : Option Tree) (text : Str) : Str :=
  match parentElementName parent with
  | none => serializeTextN N false text
  | some pn =>
    if c.h.noEscape.matches c.env pn then serializeTextNoEscapeN N text
    else if c.cdata.contains pn then serializeCdataN N text
    else if c.h.isHtmlElement c.env pn then serializeTextHtmlN N text
    else serializeTextN N false text

/-- The value escaping of the `Attribute` arm. -/
def htmlAttrValueN (N : Str → Str) (c : HtmlCtx) (name : Nat) (value : Str) : Str :=
  if c.env.nsOfName name != Env.noNamespace then serializeAttributeN N value else serializeAttributeHtmlN N value

/-- `Html5Serializer<N>::render_output(node, output)`: `renderHtml` with the normalizer passed to every
    escaping call — character data, attribute values, the namespace URI of an injected or written `xmlns`
    declaration.  The boolean-attribute test (`htmlIsBooleanAttr`) compares the value as stored. -/
def renderHtmlN (N : Str → Str) (c : HtmlCtx) (s : HState) (node : Tree) (parent : Option Tree) :
    Output → Outcome XotError (HState × OutputToken)
  | .startTagOpen name =>
    let ns := c.env.nsOfName name
    let decls := htmlDeclarations node ns
    let frames := if decls.isEmpty then 0 else 1
    let s1 := s.stack.push decls
    if c.h.mustBeUnprefixed ns && !s1.hasEmptyPrefix ns then
      .ok (⟨s1.push [(Env.emptyPrefix, ns)], (frames + 1) :: s.frames⟩,
        ⟨false, fmt fmtHtmlStartTagOpenNs [c.env.localName name, serializeAttributeHtmlN N (c.env.namespaceStr ns)]⟩)
    else
      match s1.elementFullname c.env name with
      | .ok full => .ok (⟨s1, frames :: s.frames⟩, ⟨false, fmt fmtHtmlStartTagOpen [full]⟩)
      | .error e => .err e
  | .startTagClose => .ok (s, ⟨false, litHtmlTagClose⟩)
  | .endTag name =>
    if c.h.void.matches c.env name then .ok (s.endElement, ⟨false, litHtmlVoidEndTag⟩)
    else
      match s.stack.elementFullname c.env name with
      | .ok full => .ok (s.endElement, ⟨false, fmt fmtHtmlEndTag [full]⟩)
      | .error e => .err e
  | .pfx p ns =>
    match node.value with
    | .element en =>
      if htmlPrefixHidden c node en p ns then .ok (s, ⟨false, litHtmlNoPrefix⟩)
      else if p == Env.emptyPrefix then
        .ok (s, ⟨true, fmt fmtHtmlXmlnsDefault [serializeAttributeHtmlN N (c.env.namespaceStr ns)]⟩)
      else
        .ok (s, ⟨true, fmt fmtHtmlXmlnsPrefix [c.env.prefixStr p, serializeAttributeHtmlN N (c.env.namespaceStr ns)]⟩)
    | _ => .panic  -- `self.xot.element(node).unwrap()`
  | .attribute name value =>
    match s.stack.attributeFullname c.env name with
    | .error e => .err e
    | .ok full =>
      match htmlIsBooleanAttr c s.stack name value with
      | .error e => .err e
      | .ok true => .ok (s, ⟨true, fmt fmtHtmlBooleanAttr [full]⟩)
      | .ok false => .ok (s, ⟨true, fmt fmtHtmlAttribute [full, htmlAttrValueN N c name value]⟩)
  | .text text => .ok (s, ⟨false, htmlTextValueN N c parent text⟩)
  | .comment text => .ok (s, ⟨false, fmt fmtHtmlComment [text]⟩)
  | .pi target data =>
    if !(c.env.namespaceStr (c.env.nsOfName target)).isEmpty then .err .namespaceInProcessingInstruction
    else match data with
      | some d =>
        if d.contains htmlPiForbidden then .err .processingInstructionGtInHtml
        else .ok (s, ⟨false, fmt fmtHtmlPiData [c.env.localName target, d]⟩)
      | none => .ok (s, ⟨false, fmt fmtHtmlPi [c.env.localName target]⟩)

/-- `render_output` for the node at `path` in `t`. -/
def renderHtmlAtN (N : Str → Str) (c : HtmlCtx) (t : Tree) (s : HState) (path : Path) (o : Output) :
    Outcome XotError (HState × OutputToken) :=
  match t.at? path with
  | some node => renderHtmlN N c s node (t.parentAt? path) o
  | none => .panic

/-- The rendered stream: `outputs.map(render_output)` up to the first failure. -/
def renderHtmlAllN (N : Str → Str) (c : HtmlCtx) (t : Tree) :
    HState → List (Path × Output) → Outcome XotError (List (Path × Output × OutputToken))
  | _, [] => .ok []
  | s, (p, o) :: rest =>
    match renderHtmlAtN N c t s p o with
    | .ok (s', tok) =>
      (match renderHtmlAllN N c t s' rest with
       | .ok l => .ok ((p, o, tok) :: l)
       | .err e => .err e
       | .panic => .panic)
    | .err e => .err e
    | .panic => .panic

/-- `Html5Serializer<N>::serialize(w, outputs)`. -/
def writeHtmlGoN (N : Str → Str) (c : HtmlCtx) (t : Tree) :
    HState → List (Path × Output) → Str × Outcome XotError Unit
  | _, [] => ([], .ok ())
  | s, (p, o) :: rest =>
    match renderHtmlAtN N c t s p o with
    | .ok (s', tok) =>
      let (w, r) := writeHtmlGoN N c t s' rest
      (htmlTokenBytes tok ++ w, r)
    | .err e => ([], .err e)
    | .panic => ([], .panic)

/-- `Html5Serializer<N>::serialize_pretty(w, outputs, suppress)` (`Pretty` never sees the normalizer). -/
def writeHtmlPrettyGoN (N : Str → Str) (c : HtmlCtx) (suppress : List Nat) (t : Tree) :
    PStack → HState → List (Path × Output) → Str × Outcome XotError Unit
  | _, _, [] => ([], .ok ())
  | ps, s, (p, o) :: rest =>
    let (ps', ind, nl) := prettifyHtmlAt c suppress t ps p o
    let pre := if ind > 0 then htmlIndentBytes ind else []
    match renderHtmlAtN N c t s p o with
    | .ok (s', tok) =>
      let (w, r) := writeHtmlPrettyGoN N c suppress t ps' s' rest
      (pre ++ htmlTokenBytes tok ++ (if nl then htmlNewline else []) ++ w, r)
    | .err e => (pre, .err e)
    | .panic => (pre, .panic)

/-- `xot.html5().serialize_write_with_normalizer(parameters, node, w, normalizer)`. -/
def serializeHtmlWriteN (N : Str → Str) (env : Env) (p : HtmlParams) (t : Tree) (start : Path) :
    Str × Outcome XotError Unit :=
  let c := htmlCtx env p
  let body := match p.indentation with
    | some suppress => writeHtmlPrettyGoN N c suppress t [] (htmlInitState c t start) (genOutputs t start)
    | none => writeHtmlGoN N c t (htmlInitState c t start) (genOutputs t start)
  (htmlDoctype ++ body.1, body.2)

/-! ### `serialize_write_with_normalizer` in front of a writer that can fail -/

/-- One `serialize_node(w, node, output)?` of `Html5Serializer<N>::serialize`. -/
def htmlStepCallsN (N : Str → Str) (c : HtmlCtx) (t : Tree) (s : HState) (po : Path × Output) :
    List Str × Outcome XotError HState :=
  match renderHtmlAtN N c t s po.1 po.2 with
  | .ok (s', tok) => (htmlTokenCalls tok, .ok s')
  | .err e => ([], .err e)
  | .panic => ([], .panic)

/-- One iteration of `Html5Serializer<N>::serialize_pretty`'s loop. -/
def htmlPrettyStepCallsN (N : Str → Str) (c : HtmlCtx) (suppress : List Nat) (t : Tree)
    (st : PStack × HState) (po : Path × Output) : List Str × Outcome XotError (PStack × HState) :=
  let (ps', ind, nl) := prettifyHtmlAt c suppress t st.1 po.1 po.2
  let pre : List Str := if ind > 0 then [htmlIndentBytes ind] else []
  match renderHtmlAtN N c t st.2 po.1 po.2 with
  | .ok (s', tok) => (pre ++ htmlTokenCalls tok ++ (if nl then [htmlNewline] else []), .ok (ps', s'))
  | .err e => (pre, .err e)
  | .panic => (pre, .panic)

/-- `xot.html5().serialize_write_with_normalizer(parameters, node, w, normalizer)` for any writer. -/
def serializeHtmlWriteNW (P : WriterPolicy) (N : Str → Str) (env : Env) (p : HtmlParams) (t : Tree)
    (start : Path) : Str × Outcome XotError Unit :=
  let c := htmlCtx env p
  match writeCalls P [] [htmlDoctype] with
  | .error b => (b, .err .io)
  | .ok h1 =>
    match p.indentation with
    | some suppress =>
      writeLoopW P (htmlPrettyStepCallsN N c suppress t) h1 ([], htmlInitState c t start) (genOutputs t start)
    | none => writeLoopW P (htmlStepCallsN N c t) h1 (htmlInitState c t start) (genOutputs t start)

/-- The calls it makes when none is refused, in order, and how it ends. -/
def serializeHtmlCallsN (N : Str → Str) (env : Env) (p : HtmlParams) (t : Tree) (start : Path) :
    List Str × Outcome XotError Unit :=
  let c := htmlCtx env p
  let body := match p.indentation with
    | some suppress =>
      callsLoop (htmlPrettyStepCallsN N c suppress t) ([], htmlInitState c t start) (genOutputs t start)
    | none => callsLoop (htmlStepCallsN N c t) (htmlInitState c t start) (genOutputs t start)
  ([htmlDoctype] ++ body.1, body.2)

/-- `xot.html5().serialize_string_with_normalizer(parameters, node, normalizer)`. -/
def serializeHtmlStringN (N : Str → Str) (env : Env) (p : HtmlParams) (t : Tree) (start : Path) :
    Outcome XotError Str :=
  bufferToString (serializeHtmlWriteN N env p t start)

/-! ### A concrete normalizer -/

/-- harness `fullwidth_map`: U+FF1C → `<`, U+FF06 → `&`, U+FF02 → `"`, U+FF1E → `>`, U+FF07 → `'`. -/
def fullwidthMap (c : Char) : Char :=
  if c == '\uff1c' then '<'
  else if c == '\uff06' then '&'
  else if c == '\uff02' then '"'
  else if c == '\uff1e' then '>'
  else if c == '\uff07' then '\''
  else c

/-- harness `FullwidthNormalizer::normalize`. -/
def fullwidthNorm (s : Str) : Str := s.map fullwidthMap

end XotModel
