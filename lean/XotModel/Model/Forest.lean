/-
  XotModel.Model.Forest — the store as a forest of handle-labelled ordered trees.

  A `Forest` holds every parentless tree of one `Xot`.  Handles are creation-order numbers
  (never reused; the arena's slot reuse is below this model, see DESIGN.md section 6).
  This file has the data structure and the indextree-level primitives with their list
  semantics (contract): lookup with context, `cut` (detach), raw insertion at the four
  positions, `spliceOut` (indextree `remove`: children take the node's place), `dropSubtree`
  (`remove_subtree`).  `Manip.lean` builds xot's functions on top, in the order the Rust
  performs their steps.
-/
import XotModel.Model.Tree

namespace XotModel

/-- A subtree whose nodes carry their handle. -/
inductive HTree where
  | node (h : Nat) (v : Value) (kids : List HTree)
  deriving Repr, Inhabited

namespace HTree

def handle : HTree → Nat | node h _ _ => h
def value : HTree → Value | node _ v _ => v
def kids : HTree → List HTree | node _ _ ks => ks

mutual
  /-- Forget the handles. -/
  def erase : HTree → Tree
    | node _ v ks => .node v (eraseList ks)
  def eraseList : List HTree → List Tree
    | [] => []
    | k :: ks => erase k :: eraseList ks
end

mutual
  /-- All handles, in document (pre-) order. -/
  def handles : HTree → List Nat
    | node h _ ks => h :: handlesList ks
  def handlesList : List HTree → List Nat
    | [] => []
    | k :: ks => handles k ++ handlesList ks
end

mutual
  /-- The subtree with handle `h`. -/
  def find? (h : Nat) : HTree → Option HTree
    | node h' v ks => if h' = h then some (node h' v ks) else findList? h ks
  def findList? (h : Nat) : List HTree → Option HTree
    | [] => none
    | k :: ks =>
      match find? h k with
      | some t => some t
      | none => findList? h ks
end

/-- Where a non-root node sits: its parent's handle, the siblings before it (in order),
    itself, the siblings after it. -/
structure Ctx where
  parent : Nat
  left : List HTree
  self : HTree
  right : List HTree
  deriving Inhabited

mutual
  /-- Context of `h` strictly below the given node. -/
  def ctxBelow (h : Nat) : HTree → Option Ctx
    | node p _ ks => ctxKids h p [] ks
  def ctxKids (h : Nat) (p : Nat) : List HTree → List HTree → Option Ctx
    | _, [] => none
    | left, k :: right =>
      if k.handle = h then some ⟨p, left, k, right⟩
      else match ctxBelow h k with
        | some c => some c
        | none => ctxKids h p (left ++ [k]) right
end

mutual
  /-- Replace the (non-root) node `h` by the list `f node` in its parent's child list. -/
  def replaceBelow (h : Nat) (f : HTree → List HTree) : HTree → HTree
    | node p v ks => node p v (replaceKids h f ks)
  def replaceKids (h : Nat) (f : HTree → List HTree) : List HTree → List HTree
    | [] => []
    | k :: ks =>
      if k.handle = h then f k ++ ks
      else replaceBelow h f k :: replaceKids h f ks
end

mutual
  /-- Apply `g` to the node `h` (root included). -/
  def mapAt (h : Nat) (g : HTree → HTree) : HTree → HTree
    | node h' v ks => if h' = h then g (node h' v ks) else node h' v (mapAtList h g ks)
  def mapAtList (h : Nat) (g : HTree → HTree) : List HTree → List HTree
    | [] => []
    | k :: ks => mapAt h g k :: mapAtList h g ks
end

mutual
  /-- Handles from the node `h` up to the root of this tree (`h` first): indextree `ancestors`. -/
  def ancestorsOf (h : Nat) : HTree → Option (List Nat)
    | node h' _ ks =>
      if h' = h then some [h']
      else match ancestorsOfList h ks with
        | some l => some (l ++ [h'])
        | none => none
  def ancestorsOfList (h : Nat) : List HTree → Option (List Nat)
    | [] => none
    | k :: ks =>
      match ancestorsOf h k with
      | some l => some l
      | none => ancestorsOfList h ks
end

def setValue (v : Value) : HTree → HTree | node h _ ks => node h v ks
def setKids (ks : List HTree) : HTree → HTree | node h v _ => node h v ks

end HTree

/-- The store. -/
structure Forest where
  /-- every parentless tree -/
  roots : List HTree := []
  /-- next fresh handle -/
  next : Nat := 0
  /-- `text_consolidation` -/
  consolidation : Bool := true
  /-- has consolidation ever been switched off? (ghost, for the invariant) -/
  everOff : Bool := false
  /-- set when an indextree primitive is used outside its list semantics (e.g. a node would get
      siblings without a parent); unreachable from live arguments, see `Props/C04`. -/
  corrupt : Bool := false
  deriving Inhabited

namespace Forest

def get? (f : Forest) (h : Nat) : Option HTree := HTree.findList? h f.roots

def isLive (f : Forest) (h : Nat) : Bool := (f.get? h).isSome

/-- `is_removed`: created earlier, not in the forest any more. -/
def isRemoved (f : Forest) (h : Nat) : Bool := h < f.next && !f.isLive h

def isRoot (f : Forest) (h : Nat) : Bool := f.roots.any (fun r => r.handle = h)

/-- Context of a non-root node. -/
def ctx? (f : Forest) (h : Nat) : Option HTree.Ctx :=
  f.roots.findSome? (HTree.ctxBelow h)

def parent? (f : Forest) (h : Nat) : Option Nat := (f.ctx? h).map (·.parent)

def value? (f : Forest) (h : Nat) : Option Value := (f.get? h).map (·.value)

/-- `ancestors(h)`: `h` first, root last. -/
def ancestors (f : Forest) (h : Nat) : List Nat :=
  (f.roots.findSome? (HTree.ancestorsOf h)).getD []

def allHandles (f : Forest) : List Nat := HTree.handlesList f.roots

/-- A fresh node (`arena.new_node`): a new root. -/
def newNode (f : Forest) (v : Value) : Forest × Nat :=
  ({ f with roots := f.roots ++ [.node f.next v []], next := f.next + 1 }, f.next)

/-- indextree `detach`: the subtree becomes a root (no-op for a root). Returns the forest
    without the subtree, and the subtree. -/
def cut (f : Forest) (h : Nat) : Forest × Option HTree :=
  match f.get? h with
  | none => (f, none)
  | some t =>
    if f.isRoot h then ({ f with roots := f.roots.filter (fun r => r.handle != h) }, some t)
    else ({ f with roots := f.roots.map (HTree.replaceBelow h (fun _ => [])) }, some t)

def addRoot (f : Forest) (t : HTree) : Forest := { f with roots := f.roots ++ [t] }

/-- `detach`. -/
def detachRaw (f : Forest) (h : Nat) : Forest :=
  match f.cut h with
  | (f', some t) => f'.addRoot t
  | (f', none) => f'

/-- `remove_subtree`. -/
def dropSubtree (f : Forest) (h : Nat) : Forest := (f.cut h).1

/-- indextree `remove`: the children take the node's place. For a parentless node with
    children the children would be parentless siblings: outside the forest model (`corrupt`),
    except that a single child simply becomes a root. -/
def spliceOut (f : Forest) (h : Nat) : Forest :=
  match f.get? h with
  | none => f
  | some t =>
    if f.isRoot h then
      let f' := { f with roots := f.roots.filter (fun r => r.handle != h) ++ t.kids }
      if t.kids.length ≤ 1 then f' else { f' with corrupt := true }
    else { f with roots := f.roots.map (HTree.replaceBelow h (fun n => n.kids)) }

/-- Put the (already cut) tree `t` after / before the non-root node `ref`. -/
def placeAfter (f : Forest) (ref : Nat) (t : HTree) : Forest :=
  { f with roots := f.roots.map (HTree.replaceBelow ref (fun r => [r, t])) }
def placeBefore (f : Forest) (ref : Nat) (t : HTree) : Forest :=
  { f with roots := f.roots.map (HTree.replaceBelow ref (fun r => [t, r])) }
/-- Put `t` as last / first child of `p`. -/
def placeLast (f : Forest) (p : Nat) (t : HTree) : Forest :=
  { f with roots := f.roots.map (HTree.mapAt p (fun n => n.setKids (n.kids ++ [t]))) }
def placeFirst (f : Forest) (p : Nat) (t : HTree) : Forest :=
  { f with roots := f.roots.map (HTree.mapAt p (fun n => n.setKids (t :: n.kids))) }

def setValue (f : Forest) (h : Nat) (v : Value) : Forest :=
  { f with roots := f.roots.map (HTree.mapAt h (HTree.setValue v)) }

/-! #### indextree `checked_*` with their failure conditions -/

/-- `parent.checked_append(child)`: `AppendSelf`, `AppendAncestor` → `false`. -/
def checkedAppend (f : Forest) (p c : Nat) : Forest × Bool :=
  if p = c || (f.ancestors p).contains c then (f, false)
  else match f.cut c with
    | (f', some t) => (f'.placeLast p t, true)
    | (f', none) => ({ f' with corrupt := true }, true)

/-- `parent.checked_prepend(child)`. -/
def checkedPrepend (f : Forest) (p c : Nat) : Forest × Bool :=
  if p = c || (f.ancestors p).contains c then (f, false)
  else match f.cut c with
    | (f', some t) => (f'.placeFirst p t, true)
    | (f', none) => ({ f' with corrupt := true }, true)

/-- `ref.checked_insert_after(new)`: only `InsertAfterSelf` is checked by indextree; inserting
    an ancestor of `ref`, or next to a parentless node, leaves the list semantics. -/
def checkedInsertAfter (f : Forest) (ref n : Nat) : Forest × Bool :=
  if ref = n then (f, false)
  else if (f.ancestors ref).contains n || f.isRoot ref then ({ f with corrupt := true }, true)
  else match f.cut n with
    | (f', some t) => (f'.placeAfter ref t, true)
    | (f', none) => ({ f' with corrupt := true }, true)

def checkedInsertBefore (f : Forest) (ref n : Nat) : Forest × Bool :=
  if ref = n then (f, false)
  else if (f.ancestors ref).contains n || f.isRoot ref then ({ f with corrupt := true }, true)
  else match f.cut n with
    | (f', some t) => (f'.placeBefore ref t, true)
    | (f', none) => ({ f' with corrupt := true }, true)

end Forest
end XotModel
