/-
  XotModel.Model.Parse — model of /repo/src/parse.rs: `DocumentBuilder`, `NameIdBuilder`,
  `Xot::_parse`, `SpanInfo` bookkeeping, the document / fragment epilogues.

  The arena is replaced by a zipper: the chain of open nodes (`cur` = `current_node_id`, then
  its ancestors up to the document node), every frame holding its already finished children,
  LAST CHILD FIRST (`rkids`).  A node is named by its path of raw child indices from the
  document node; an open frame is the (future) last child of its parent, so its index there is
  the number of children its parent already has.

  Rust `unwrap` / `expect` are an explicit `panic`; an `Err` carries the interning tables as
  they are at that moment (the Rust mutates `Xot` before failing).
-/
import XotModel.Model.ParseTypes

namespace XotModel

/-- `struct AttributeBuilder`. -/
structure AttributeBuilder where
  pfx : Str
  name : Str
  value : Str
  nameSpan : Span
  valueSpan : Span
  prefixSpan : Span
  deriving Repr, Inhabited

/-- `struct ElementBuilder`. -/
structure ElementBuilder where
  pfx : Str
  name : Str
  namespaces : List (Nat × Nat)
  attributes : List AttributeBuilder
  prefixSpan : Span
  span : Span
  deriving Repr, Inhabited

/-- `ElementBuilder::new`. -/
def ElementBuilder.new (pfx loc : StrSpan) : ElementBuilder :=
  { pfx := pfx.text, name := loc.text, namespaces := [], attributes := [],
    prefixSpan := pfx.span, span := Span.fromPrefixName pfx loc }

/-- An open node: its value and its finished children, last child first. -/
structure Frame where
  value : Value
  rkids : List Tree
  deriving Repr, Inhabited

/-- The finished node of a frame. -/
def Frame.close (f : Frame) : Tree := .node f.value f.rkids.reverse

/-- `NameIdBuilder.namespace_stack`, top of the stack first. -/
abbrev NsStack := List (List (Nat × Nat))

/-- `struct DocumentBuilder` + the `Xot` tables it mutates + `SpanInfo`. -/
structure Builder where
  env : Env
  /-- `current_node_id` -/
  cur : Frame
  /-- ancestors of the current node, nearest first; the last one is the document node -/
  parents : List Frame
  nsStack : NsStack
  /-- `element_builder` -/
  eb : Option ElementBuilder
  /-- `seen_ids` -/
  seenIds : List Str
  /-- `id_nodes` -/
  idNodes : List (Str × Path)
  spans : SpanMap
  /-- `open_prefixes`: the prefixes of the open elements as written in their start tags,
      innermost first -/
  openPrefixes : List Str
  deriving Repr, Inhabited

/-- Result of one builder step. -/
inductive Step (α : Type) where
  | ok (a : α)
  | err (e : ParseErr) (env : Env)
  | panic
  deriving Repr, Inhabited

/-- `DocumentBuilder::new` (+ `SpanInfo::new`): the namespace stack holds the base `xml`
    binding at the bottom and `("" ↦ no namespace)` above it. -/
def Builder.new (env : Env) : Builder :=
  { env := env, cur := ⟨.document, []⟩, parents := [],
    nsStack := [[(Env.emptyPrefix, Env.noNamespace)], [(Env.xmlPrefix, Env.xmlNamespace)]],
    eb := none, seenIds := [], idNodes := [], spans := [], openPrefixes := [] }

/-- Path of `current_node_id`. -/
def Builder.curPath (b : Builder) : Path := (b.parents.map (fun f => f.rkids.length)).reverse

/-- The whole tree under `builder.tree`: close every open frame. -/
def zipInto (t : Tree) : List Frame → Tree
  | [] => t
  | p :: rest => zipInto (.node p.value (t :: p.rkids).reverse) rest

def Builder.root (b : Builder) : Tree := zipInto b.cur.close b.parents

/-- `is_current_node_document`. -/
def Builder.isCurrentDocument (b : Builder) : Bool := b.cur.value.isDocument

/-! ### NameIdBuilder -/

/-- `ns.iter().rev().find_map(|(p, ns)| if *p == prefix_id …)` on one stack entry. -/
def findInDecls (p : Nat) (decls : List (Nat × Nat)) : Option Nat :=
  (decls.reverse.find? (fun d => d.1 == p)).map (fun d => d.2)

/-- `namespace_stack.iter().rev().find_map(…)`. -/
def lookupPrefix (stack : NsStack) (p : Nat) : Option Nat := stack.findSome? (findInDecls p)

/-- `NameIdBuilder::element_name_id` (with `name_id_with_prefix_id` inlined). -/
def elementNameId (env : Env) (stack : NsStack) (pfx name : Str) (prefixSpan : Span) :
    Step (Env × Nat) :=
  let r := env.internPrefix pfx
  match lookupPrefix stack r.2 with
  | some ns => .ok (r.1.internName name ns)
  | none => .err (.unknownPrefix pfx prefixSpan) r.1

/-- `NameIdBuilder::attribute_name_id`: an unprefixed attribute is in no namespace. -/
def attributeNameId (env : Env) (stack : NsStack) (pfx name : Str) (prefixSpan : Span) :
    Step (Env × Nat) :=
  let r := env.internPrefix pfx
  if r.2 == Env.emptyPrefix then .ok (r.1.internName name Env.noNamespace)
  else match lookupPrefix stack r.2 with
    | some ns => .ok (r.1.internName name ns)
    | none => .err (.unknownPrefix pfx prefixSpan) r.1

/-! ### DocumentBuilder -/

/-- `DocumentBuilder::element`. -/
def Builder.element (b : Builder) (pfx loc : StrSpan) : Builder :=
  { b with eb := some (ElementBuilder.new pfx loc) }

/-- The attribute name `DocumentBuilder::prefix` reports for a repeated declaration. -/
def declDisplayName (pfx : Str) : Str :=
  if pfx.isEmpty then ['x', 'm', 'l', 'n', 's'] else ['x', 'm', 'l', 'n', 's', ':'] ++ pfx

/-- The two `let reserved = …` of `DocumentBuilder::prefix` (on the written prefix and the DECODED
    URI): the prefix `xmlns` declared, another prefix than `xml` (the default namespace included)
    bound to the XML namespace name, anything bound to the xmlns namespace name; or a non-empty
    prefix other than `xml` bound to the empty URI (`xmlns:p=""`).  Rebinding `xml` to another URI
    (the empty one included) is NOT among them. -/
def reservedDecl (pfx uri : Str) : Bool :=
  (pfx == ['x', 'm', 'l', 'n', 's'] || (pfx != ['x', 'm', 'l'] && uri == xmlNamespaceUri) ||
    uri == xmlnsNamespaceUri) ||
  (!pfx.isEmpty && pfx != ['x', 'm', 'l'] && uri.isEmpty)

/-- `DocumentBuilder::prefix`: the URI is decoded like any attribute value (errors propagate),
    then the reserved / undeclaration test on the strings (`InvalidNamespaceDeclaration`, nothing
    interned yet), then the two registrations, then the `unwrap`, then the "declared twice" test. -/
def Builder.prefix (b : Builder) (pfx : Str) (uri : StrSpan) (nameSpan : Span) : Step Builder :=
  match parseContentGo true uri.start 0 uri.text with
  | .error e => .err (ParseErr.ofContent e) b.env
  | .ok u =>
    if reservedDecl pfx u then
      .err (.invalidNamespaceDeclaration (declDisplayName pfx) nameSpan) b.env
    else
    let r1 := b.env.internPrefix pfx
    let r2 := r1.1.internNamespace u
    match b.eb with
    | none => .panic
    | some eb =>
      if eb.namespaces.any (fun d => d.1 == r1.2) then
        .err (.duplicateAttribute (declDisplayName pfx) nameSpan) r2.1
      else
        .ok { b with env := r2.1, eb := some { eb with namespaces := eb.namespaces ++ [(r1.2, r2.2)] } }

/-- The attribute name carried by `DuplicateAttribute`. -/
def attrDisplayName (pfx loc : Str) : Str :=
  if pfx.isEmpty then loc else pfx ++ [':'] ++ loc

/-- `DocumentBuilder::attribute`. The duplicate test compares prefix and local name AS WRITTEN;
    the value is decoded, nothing else (xml:id normalisation happens in `open_element`, where the
    expanded name is known). -/
def Builder.attribute (b : Builder) (pfx loc value : StrSpan) : Step Builder :=
  match b.eb with
  | none => .panic
  | some eb =>
    if eb.attributes.any (fun ab => ab.pfx == pfx.text && ab.name == loc.text) then
      .err (.duplicateAttribute (attrDisplayName pfx.text loc.text) (Span.fromPrefixName pfx loc)) b.env
    else
      match parseContentGo true value.start 0 value.text with
      | .error e => .err (ParseErr.ofContent e) b.env
      | .ok v =>
        let ab : AttributeBuilder :=
          { pfx := pfx.text, name := loc.text, value := v,
            nameSpan := Span.fromPrefixName pfx loc, valueSpan := value.span, prefixSpan := pfx.span }
        .ok { b with eb := some { eb with attributes := eb.attributes ++ [ab] } }

/-- State of the attribute loop of `open_element`. -/
structure AttrLoop where
  env : Env
  seenIds : List Str
  idNodes : List (Str × Path)
  /-- `seen_name_ids` -/
  seenNames : List Nat
  /-- children of the new element so far, last first -/
  rkids : List Tree
  /-- `attribute_spans` -/
  aspans : List (Nat × Span × Span)
  deriving Repr, Inhabited

/-- `HashMap::insert` on `id_nodes`. -/
def insertId (m : List (Str × Path)) (v : Str) (p : Path) : List (Str × Path) :=
  (v, p) :: m.filter (fun e => e.1 != v)

/-- `attribute_builder.value = normalize_xml_id(&attribute_builder.value)` under
    `if name_id == self.xml_id_id`: it is the EXPANDED name that makes an attribute an xml:id,
    whatever prefix is bound to the XML namespace. -/
def xmlIdValue (nameId : Nat) (v : Str) : Str :=
  if nameId == Env.xmlIdName then normalizeXmlId v else v

/-- `for attribute_builder in element_builder.attributes { … }` of `open_element`: name
    resolution, duplicate test by expanded name, then (for the name id of xml:id) value
    normalisation, duplicate-ID test and the two index updates, then the attribute node. -/
def addAttributes (stack : NsStack) (node : Path) : AttrLoop → List AttributeBuilder → Step AttrLoop
  | st, [] => .ok st
  | st, ab :: rest =>
    match attributeNameId st.env stack ab.pfx ab.name ab.prefixSpan with
    | .panic => .panic
    | .err e env => .err e env
    | .ok (env1, nameId) =>
      if st.seenNames.contains nameId then
        .err (.duplicateAttribute (attrDisplayName ab.pfx ab.name) ab.nameSpan) env1
      else
      let value := xmlIdValue nameId ab.value
      if nameId == Env.xmlIdName && st.seenIds.contains value then
        .err (.duplicateId value ab.valueSpan) env1
      else
        let seen := if nameId == Env.xmlIdName then value :: st.seenIds else st.seenIds
        let ids := if nameId == Env.xmlIdName then insertId st.idNodes value node else st.idNodes
        addAttributes stack node
          { env := env1, seenIds := seen, idNodes := ids, seenNames := st.seenNames ++ [nameId],
            rkids := .node (.attribute nameId value) [] :: st.rkids,
            aspans := st.aspans ++ [(nameId, ab.nameSpan, ab.valueSpan)] } rest

/-- Namespace nodes for `element_builder.namespaces`, in order (result is last first). -/
def namespaceKids (decls : List (Nat × Nat)) : List Tree :=
  (decls.map (fun d => Tree.node (.namespace d.1 d.2) [])).reverse

/-- `DocumentBuilder::open_element` followed by the two `span_info` calls of `_parse`.
    Order in the Rust: `take().unwrap()`, push the declarations, resolve the element name (may
    fail: nothing else has happened), add the element node and make it current,
    `open_prefixes.push(element_builder.prefix)`, namespace nodes, attribute loop (may fail: the
    prefix is already pushed then, but a failing parse drops the builder). -/
def Builder.openElement (b : Builder) : Step Builder :=
  match b.eb with
  | none => .panic
  | some eb =>
    let stack := eb.namespaces :: b.nsStack
    match elementNameId b.env stack eb.pfx eb.name eb.prefixSpan with
    | .panic => .panic
    | .err e env => .err e env
    | .ok (env1, nameId) =>
      let node := b.curPath ++ [b.cur.rkids.length]
      match addAttributes stack node
          { env := env1, seenIds := b.seenIds, idNodes := b.idNodes, seenNames := [],
            rkids := namespaceKids eb.namespaces, aspans := [] } eb.attributes with
      | .panic => .panic
      | .err e env => .err e env
      | .ok st =>
        .ok { env := st.env, cur := ⟨.element nameId, st.rkids⟩, parents := b.cur :: b.parents,
              nsStack := stack, eb := none, seenIds := st.seenIds, idNodes := st.idNodes,
              spans := (b.spans.add ⟨node, .elementStart⟩ eb.span).addAttributeSpans node st.aspans,
              openPrefixes := eb.pfx :: b.openPrefixes }

/-- `consolidate_text` + `add(Value::Text)`: returns the path of the text node. -/
def Builder.addText (b : Builder) (content : Str) : Builder × Path :=
  match b.cur.rkids with
  | .node (.text s) ks :: more =>
    ({ b with cur := { b.cur with rkids := .node (.text (s ++ content)) ks :: more } },
     b.curPath ++ [more.length])
  | _ =>
    ({ b with cur := { b.cur with rkids := .node (.text content) [] :: b.cur.rkids } },
     b.curPath ++ [b.cur.rkids.length])

/-- `DocumentBuilder::add` for a leaf value. -/
def Builder.addLeaf (b : Builder) (v : Value) : Builder × Path :=
  ({ b with cur := { b.cur with rkids := .node v [] :: b.cur.rkids } },
   b.curPath ++ [b.cur.rkids.length])

/-- `DocumentBuilder::text` + `extend_text_span`. -/
def Builder.text (b : Builder) (t : StrSpan) : Step Builder :=
  match parseContentGo false t.start 0 t.text with
  | .error e => .err (ParseErr.ofContent e) b.env
  | .ok content =>
    let r := b.addText content
    .ok { r.1 with spans := r.1.spans.extendText r.2 t.span }

/-- `str::replace("\r\n", "\n")`. -/
def replaceCrLf : Str → Str
  | [] => []
  | [c] => [c]
  | c :: d :: rest =>
    if c = '\r' ∧ d = '\n' then '\n' :: replaceCrLf rest else c :: replaceCrLf (d :: rest)

/-- `str::replace('\r', "\n")`. -/
def replaceCr (s : Str) : Str := s.map (fun c => if c = '\r' then '\n' else c)

/-- The `Cdata` arm of `_parse`: an empty section is skipped entirely; otherwise
    `DocumentBuilder::cdata_text` (line ends normalised, nothing else decoded) + `extend_text_span`. -/
def Builder.cdata (b : Builder) (t : StrSpan) : Step Builder :=
  if t.text.isEmpty then .ok b
  else
    let r := b.addText (replaceCr (replaceCrLf t.text))
    .ok { r.1 with spans := r.1.spans.extendText r.2 t.span }

/-- The shared tail of `close_element` / `close_element_immediate`:
    `self.current_node_id = current_node.parent().expect("Cannot close document node")`. -/
def Builder.toParent (b : Builder) : Step Builder :=
  match b.parents with
  | [] => .panic
  | p :: rest => .ok { b with cur := { p with rkids := b.cur.close :: p.rkids }, parents := rest }

/-- Move to the parent, then `span_info.add(SpanInfoKey::ElementEnd(closed), end_span)`. -/
def Builder.leave (b : Builder) (node : Path) (endSpan : StrSpan) : Step Builder :=
  match b.toParent with
  | .ok b2 => .ok { b2 with spans := b2.spans.add ⟨node, .elementEnd⟩ endSpan.span }
  | r => r

/-- `DocumentBuilder::close_element_immediate` + the `ElementEnd` span: for an element both
    `name_id_builder.pop()` and `open_prefixes.pop()`. -/
def Builder.closeImmediate (b : Builder) (endSpan : StrSpan) : Step Builder :=
  let b1 := if b.cur.value.isElement then
      { b with nsStack := b.nsStack.tail, openPrefixes := b.openPrefixes.tail } else b
  b1.leave b.curPath endSpan

/-- `self.open_prefixes.last().map(|p| p.as_str()) == Some(prefix.as_str())`. -/
def samePrefix (openPrefixes : List Str) (pfx : Str) : Bool := openPrefixes.head? == some pfx

/-- `DocumentBuilder::close_element` + the `ElementEnd` span. The end tag has to repeat the name
    as it is written in the start tag: same name id AND same written prefix. -/
def Builder.closeElement (b : Builder) (pfx loc : StrSpan) (endSpan : StrSpan) : Step Builder :=
  match elementNameId b.env b.nsStack pfx.text loc.text pfx.span with
  | .panic => .panic
  | .err e env => .err e env
  | .ok (env1, nameId) =>
    -- an end tag without any open element (possible in a fragment)
    if b.parents.isEmpty then
      .err (.invalidCloseTag pfx.text loc.text (Span.fromPrefixName pfx loc)) env1
    else
    match b.cur.value with
    | .element n =>
      if n != nameId || !samePrefix b.openPrefixes pfx.text then
        .err (.invalidCloseTag pfx.text loc.text (Span.fromPrefixName pfx loc)) env1
      else
        ({ b with env := env1, nsStack := b.nsStack.tail, openPrefixes := b.openPrefixes.tail } : Builder).leave
          b.curPath endSpan
    | _ => ({ b with env := env1 } : Builder).leave b.curPath endSpan

/-- `content.replace("\r\n", "\n").replace('\r', "\n")`: line-end normalisation, as written in
    `cdata_text`, `comment` and `processing_instruction`. -/
def normalizeLineEnds (s : Str) : Str := replaceCr (replaceCrLf s)

/-- `DocumentBuilder::comment` (line ends normalised) + span (of the text as written). -/
def Builder.comment (b : Builder) (t : StrSpan) : Builder :=
  let r := b.addLeaf (.comment (normalizeLineEnds t.text))
  { r.1 with spans := r.1.spans.add ⟨r.2, .comment⟩ t.span }

/-- `DocumentBuilder::processing_instruction` + spans (`xot.add_name(target)` registers the
    target as a name in no namespace; line ends of the content are normalised). -/
def Builder.processingInstruction (b : Builder) (target : StrSpan) (content : Option StrSpan) : Builder :=
  let rn := b.env.internName target.text Env.noNamespace
  let r := ({ b with env := rn.1 } : Builder).addLeaf (.pi rn.2 (content.map (fun c => normalizeLineEnds c.text)))
  let spans1 := r.1.spans.add ⟨r.2, .piTarget⟩ target.span
  let spans2 := match content with
    | some c => spans1.add ⟨r.2, .piContent⟩ c.span
    | none => spans1
  { r.1 with spans := spans2 }

/-- The error of `check_qname`: `UnknownPrefix("", Span::new(prefix.start(), local.end()))`. -/
def qnameError (pfx loc : StrSpan) : ParseErr := .unknownPrefix [] ⟨pfx.start, loc.stop⟩

/-- One arm of the `match token` in `_parse`. `check_qname(&prefix, &local)?` comes first in the
    `Attribute`, `ElementStart` and `ElementEnd::Close` arms. -/
def Builder.step (b : Builder) : Token → Step Builder
  | .attribute pfx loc value _ =>
    if pfx.bareColon then .err (qnameError pfx loc) b.env
    else if pfx.text == ['x', 'm', 'l', 'n', 's'] then b.prefix loc.text value (Span.fromPrefixName pfx loc)
    else if pfx.text.isEmpty && loc.text == ['x', 'm', 'l', 'n', 's'] then
      b.prefix [] value (Span.fromPrefixName pfx loc)
    else b.attribute pfx loc value
  | .text t => b.text t
  | .cdata t _ => b.cdata t
  | .elementStart pfx loc _ =>
    if pfx.bareColon then .err (qnameError pfx loc) b.env
    else .ok (b.element pfx loc)
  | .elementEnd .open _ => b.openElement
  | .elementEnd (.close pfx loc) sp =>
    if pfx.bareColon then .err (qnameError pfx loc) b.env
    else b.closeElement pfx loc sp
  | .elementEnd .empty sp =>
    match b.openElement with
    | .ok b1 => b1.closeImmediate sp
    | r => r
  | .comment t _ => .ok (b.comment t)
  | .pi target content _ =>
    -- `target.as_str().eq_ignore_ascii_case("xml")`, before the builder is called
    if isReservedPiTarget target.text then .err (.invalidTarget target.text target.span) b.env
    else .ok (b.processingInstruction target content)
  | .declaration version _ _ _ =>
    if version.text != ['1', '.', '0'] then .err (.unsupportedVersion version.text version.span) b.env
    else .ok b
  | .dtdStart sp => .err (.dtdUnsupported sp.span) b.env
  | .dtdEnd sp => .err (.dtdUnsupported sp.span) b.env
  | .emptyDtd sp => .err (.dtdUnsupported sp.span) b.env
  | .entityDecl sp => .err (.dtdUnsupported sp.span) b.env

/-- The `loop` of `_parse`: `lexErr` is the position at which the tokenizer (external) gave up,
    if it did (`ParseError::XmlParser(e, position)`). -/
def Builder.run (b : Builder) : List Token → Option Nat → Step Builder
  | [], none =>
    -- the input ended inside a start tag
    match b.eb with
    | some eb => .err (.unclosedTag eb.span) b.env
    | none => .ok b
  | [], some pos => .err (.xmlParser pos) b.env
  | t :: ts, lexErr =>
    match b.step t with
    | .ok b1 => Builder.run b1 ts lexErr
    | r => r

/-- What a successful parse returns / leaves behind. -/
structure Parsed where
  tree : Tree
  /-- `id_nodes_map[document]` -/
  ids : List (Str × Path)
  spans : SpanMap
  env : Env
  deriving Repr, Inhabited

inductive BuildResult where
  | ok (p : Parsed)
  | err (e : ParseErr) (env : Env)
  | panic
  deriving Repr, Inhabited

/-- The `else` branch of both epilogues: `UnclosedTag(span_info.get(ElementStart(current)).unwrap())`. -/
def Builder.unclosed (b : Builder) : BuildResult :=
  match b.spans.get ⟨b.curPath, .elementStart⟩ with
  | some sp => .err (.unclosedTag sp) b.env
  | none => .panic

def Builder.parsed (b : Builder) : Parsed :=
  { tree := b.root, ids := b.idNodes, spans := b.spans, env := b.env }

/-- `for child in self.children(document_node) { … }` of `parse_with_span_info`: `i` is the raw
    index of the next child, `elems` the element children seen so far. (All children of a
    document node built by the parser are normal nodes, so `children` skips nothing.) -/
def topLevelScan (spans : SpanMap) : Nat → List Tree → List Nat → Outcome ParseErr (List Nat)
  | _, [], elems => .ok elems
  | i, k :: rest, elems =>
    match k.value with
    | .element _ => topLevelScan spans (i + 1) rest (elems ++ [i])
    | .text _ =>
      match spans.get ⟨[i], .text⟩ with
      | some sp => .err (.textAtTopLevel sp)
      | none => .panic
    | _ => topLevelScan spans (i + 1) rest elems

/-- Epilogue of `parse_with_span_info`. -/
def Builder.finishDocument (len : Nat) (b : Builder) : BuildResult :=
  if b.isCurrentDocument then
    match topLevelScan b.spans 0 b.root.kids [] with
    | .panic => .panic
    | .err e => .err e b.env
    | .ok elems =>
      match elems with
      | [] => .err (.noElementAtTopLevel len) b.env
      | [_] => .ok b.parsed
      | _ :: second :: _ =>
        match b.spans.get ⟨[second], .elementStart⟩ with
        | some sp => .err (.multipleElementsAtTopLevel sp) b.env
        | none => .panic
  else b.unclosed

/-- Epilogue of `parse_fragment_with_span_info`. -/
def Builder.finishFragment (b : Builder) : BuildResult :=
  if b.isCurrentDocument then .ok b.parsed else b.unclosed

/-- `parse_with_span_info` / `parse_fragment_with_span_info` on the tokens of a source text of
    `len` bytes, starting from the interning tables `env`. -/
def build (m : Mode) (len : Nat) (env : Env) (ts : List Token) (lexErr : Option Nat) : BuildResult :=
  match (Builder.new env).run ts lexErr with
  | .panic => .panic
  | .err e env' => .err e env'
  | .ok b =>
    match m with
    | .document => b.finishDocument len
    | .fragment => b.finishFragment

/-- `parse_bytes`: `decode(bytes, None)` is external (xhtmlchardet + encoding_rs) and total — it
    falls back to UTF-8 when no known encoding is found. The arguments are what the tokenizer made
    of the decoded text (length, tokens, tokenizer error). -/
def parseBytes (env : Env) (len : Nat) (ts : List Token) (lexErr : Option Nat) : BuildResult :=
  build .document len env ts lexErr

end XotModel
