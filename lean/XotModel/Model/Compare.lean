/-
  XotModel.Model.Compare — valueaccess.rs: deep_equal and its variants, shallow_equal*,
  string_value, text_content*, as written; plus the specification `canon`.

  A compared node is a subtree (`Tree`): every function below only looks at the node and what
  hangs under it (traverse, attributes, children, descendants). The driver picks the subtree
  out of a whole tree by path (`Tree.at?`), so a compared node may just as well be an attribute
  or namespace node (whose normal-filtered edge stream is empty).
-/
import XotModel.Model.Tree
import XotModel.Model.Env
import XotModel.Model.Names

namespace XotModel

/-- `NodeEdge` (the node is the subtree it roots). `stop` is `NodeEdge::End`. -/
inductive Edge where
  | start (n : Tree)
  | stop (n : Tree)
  deriving Repr, Inhabited

def Edge.node : Edge → Tree
  | .start n => n
  | .stop n => n

/-- indextree `traverse`: Start(n), the edges of every child in order, End(n); all nodes,
    namespace and attribute nodes included (`all_traverse`). -/
def allEdges : Tree → List Edge
  | .node v ks => .start (.node v ks) :: (allEdgesList ks ++ [.stop (.node v ks)])
where
  allEdgesList : List Tree → List Edge
    | [] => []
    | k :: ks => allEdges k ++ allEdgesList ks

/-- `normal_edge_filter`. -/
def normalEdge (e : Edge) : Bool := e.node.value.isNormal

/-- `Xot::traverse`: indextree traverse filtered to the edges of normal nodes. -/
def traverseEdges (t : Tree) : List Edge := (allEdges t).filter normalEdge

/-- A text comparison (`Fn(&str, &str) -> bool`) and a node filter (`Fn(Node) -> bool`). -/
abbrev TextCmp := Str → Str → Bool
abbrev NodeFilter := Tree → Bool

/-- `NodeMap::len` for attributes: `children().count()`. -/
def Tree.attrLen (t : Tree) : Nat := t.attributeNodes.length

/-- Body of the loop of `advanced_compare_attributes`: `if let Some(value_b) = value_b
    { text_compare(value_a, value_b) } else { false }`. -/
def cmpFound (cmp : TextCmp) (va : Str) (found : Option Str) : Bool :=
  match found with
  | some vb => cmp va vb
  | none => false

/-- `advanced_compare_attributes`: lengths, then every entry of `a` looked up in `b`. -/
def compareAttributes (cmp : TextCmp) (a b : Tree) : Bool :=
  if a.attrLen != b.attrLen then false
  else a.attrs.all fun kv => cmpFound cmp kv.2 (b.getAttribute kv.1)

/-- `advanced_compare_value`. -/
def compareValue (cmp : TextCmp) (a b : Tree) : Bool :=
  match a.value, b.value with
  | .document, .document => true
  | .element na, .element nb => na == nb && compareAttributes cmp a b
  | .text sa, .text sb => cmp sa sb
  | .comment sa, .comment sb => sa == sb
  | .pi ta da, .pi tb db =>
    if ta != tb then false
    else match da, db with
      | some ca, some cb => cmp ca cb
      | none, none => true
      | _, _ => false
  | .attribute na va, .attribute nb vb => na == nb && cmp va vb
  | .namespace pa na, .namespace pb nb => pa == pb && na == nb
  | _, _ => false

/-- The `for edge_pair in edges_a.by_ref().zip(edges_b.by_ref())` loop of `advanced_deep_equal`
    followed by the left-over test. `Zip::next` polls `a` first and then `b`:
    * `a` exhausted: `b` is not polled; afterwards `edges_b.next().is_some()` decides;
    * `b` exhausted: one edge of `a` has been taken and dropped; afterwards
      `edges_a.next().is_some()` looks at the edge after it. -/
def zipEdges (cmp : TextCmp) : List Edge → List Edge → Bool
  | [], rb => rb.isEmpty
  | _ :: ra, [] => ra.isEmpty
  | .start a :: ra, .start b :: rb =>
    if !compareValue cmp a b then false else zipEdges cmp ra rb
  | .stop _ :: ra, .stop _ :: rb => zipEdges cmp ra rb
  | _ :: _, _ :: _ => false

/-- `filter_edge` of `advanced_deep_equal`. -/
def filterEdge (filter : NodeFilter) (e : Edge) : Bool := filter e.node

/-- `advanced_deep_equal(a, b, filter, text_compare)`: attribute and namespace nodes are not part
    of a traversal and are compared directly (before any filtering); otherwise the zip of the two
    filtered edge streams. -/
def advancedDeepEqual (filter : NodeFilter) (cmp : TextCmp) (a b : Tree) : Bool :=
  if !a.value.isNormal || !b.value.isNormal then compareValue cmp a b
  else zipEdges cmp ((traverseEdges a).filter (filterEdge filter)) ((traverseEdges b).filter (filterEdge filter))

/-- `|a, b| a == b`. -/
def strEq : TextCmp := fun a b => a == b

/-- `deep_equal`. -/
def deepEqual (a b : Tree) : Bool := advancedDeepEqual (fun _ => true) strEq a b

/-- The loop of `deep_equal_children` over `children(a)` against the iterator `children(b)`. -/
def deepEqualChildrenLoop : List Tree → List Tree → Bool
  | [], bs => bs.isEmpty
  | _ :: _, [] => false
  | a :: as, b :: bs => if !deepEqual a b then false else deepEqualChildrenLoop as bs

/-- `deep_equal_children`. -/
def deepEqualChildren (a b : Tree) : Bool := deepEqualChildrenLoop a.normalKids b.normalKids

/-- The filter of `deep_equal_xpath`: `is_element(node) || is_text(node)`. -/
def xpathFilter : NodeFilter := fun n => n.value.isElement || n.value.isText

/-- `deep_equal_xpath`. -/
def deepEqualXpath (cmp : TextCmp) (a b : Tree) : Bool :=
  match a.value, b.value with
  | .element _, .element _ => advancedDeepEqual xpathFilter cmp a b
  | .document, .document => advancedDeepEqual xpathFilter cmp a b
  | _, _ => compareValue cmp a b

/-- `usize` arithmetic of a release build without overflow checks (64-bit target). -/
def usizeModulus : Nat := 2 ^ 64
def usizeWrap (n : Nat) : Nat := n % usizeModulus

/-- First loop of `shallow_equal_ignore_attributes` over `a_attributes.iter()`:
    `none` = the early `return false`, `some n` = `compare_attributes_count` (a `usize`
    incremented with `+= 1`; the harness is built with `overflow-checks = false`). -/
def shallowCountLoop (ignore : List Nat) (b : Tree) : List (Nat × Str) → Nat → Option Nat
  | [], count => some count
  | (key, va) :: rest, count =>
    if ignore.contains key then shallowCountLoop ignore b rest count
    else if some va != b.getAttribute key then none
    else shallowCountLoop ignore b rest (usizeWrap (count + 1))

/-- `b_attributes.keys().filter(|key| !ignore_attributes.contains(key)).count()`. -/
def shallowCompareCount (ignore : List Nat) (b : Tree) : Nat :=
  ((b.attrs.map (·.1)).filter fun key => !ignore.contains key).length

/-- `shallow_equal_ignore_attributes`. -/
def shallowEqualIgnoreAttributes (a b : Tree) (ignore : List Nat) : Bool :=
  match a.value, b.value with
  | .element na, .element nb =>
    if na != nb then false
    else match shallowCountLoop ignore b a.attrs 0 with
      | none => false
      | some count => count == shallowCompareCount ignore b
  | _, _ => compareValue strEq a b

/-- `shallow_equal`. -/
def shallowEqual (a b : Tree) : Bool := shallowEqualIgnoreAttributes a b []

/-- indextree `descendants`: the node and everything below it, pre-order, all categories. -/
def allDescendants : Tree → List Tree
  | .node v ks => .node v ks :: allDescendantsList ks
where
  allDescendantsList : List Tree → List Tree
    | [] => []
    | k :: ks => allDescendants k ++ allDescendantsList ks

/-- `Xot::descendants`: filtered to normal nodes. -/
def descendants (t : Tree) : List Tree := (allDescendants t).filter fun n => n.value.isNormal

/-- `text_str`. -/
def Tree.textStr (t : Tree) : Option Str :=
  match t.value with
  | .text s => some s
  | _ => none

/-- `descendants_to_string`. -/
def descendantsToString (t : Tree) : Str := ((descendants t).filterMap Tree.textStr).flatten

/-- `string_value`. -/
def stringValue (env : Env) (t : Tree) : Str :=
  match t.value with
  | .document => descendantsToString t
  | .element _ => descendantsToString t
  | .text s => s
  | .pi _ d => d.getD []
  | .comment s => s
  | .attribute _ v => v
  | .namespace _ ns => env.namespaceStr ns

/-- `text_content`: `first_child`, then `next_sibling(child).is_some()` (the raw next sibling
    exists and has the category of `child`, i.e. is normal), then `text(child)`. -/
def textContent (t : Tree) : Option Str :=
  match t.normalKids with
  | [] => none
  | c :: rest =>
    match rest with
    | d :: _ => if c.value.category == d.value.category then none else c.textStr
    | [] => c.textStr

/-- `text_content_str`. -/
def textContentStr (t : Tree) : Option Str :=
  if t.normalKids.isEmpty then some [] else textContent t

/-! ### Specification: the canonical form -/

/-- Canonical value of a node. A name id stands for its expanded name (local name,
    namespace URI): interning is one-to-one (C08). Attributes: the attribute children as a
    finite map, represented by the list sorted by name. -/
inductive CValue where
  | document
  | element (name : Nat) (attrs : List (Nat × Str))
  | text (s : Str)
  | comment (s : Str)
  | pi (target : Nat) (data : Option Str)
  | attribute (name : Nat) (value : Str)
  | namespace (pfx : Nat) (ns : Nat)
  deriving Repr, DecidableEq, Inhabited

/-- Canonical form: value + canonical forms of the normal children, in order. Namespace
    declarations and prefixes do not occur in it. -/
inductive Canon where
  | node (v : CValue) (kids : List Canon)
  deriving Repr, Inhabited

def Canon.value : Canon → CValue | .node v _ => v
def Canon.kids : Canon → List Canon | .node _ ks => ks

/-- Insertion into a list sorted by key (before the first larger-or-equal key). -/
def insertAttr (x : Nat × Str) : List (Nat × Str) → List (Nat × Str)
  | [] => [x]
  | y :: ys => if x.1 ≤ y.1 then x :: y :: ys else y :: insertAttr x ys

def sortAttrs : List (Nat × Str) → List (Nat × Str)
  | [] => []
  | x :: xs => insertAttr x (sortAttrs xs)

/-- All attribute children (wherever they stand), as (name, value). -/
def attrPairs : List Tree → List (Nat × Str)
  | [] => []
  | k :: ks =>
    match k.value with
    | .attribute n v => (n, v) :: attrPairs ks
    | _ => attrPairs ks

def cvalue (v : Value) (kids : List Tree) : CValue :=
  match v with
  | .document => .document
  | .element n => .element n (sortAttrs (attrPairs kids))
  | .text s => .text s
  | .comment s => .comment s
  | .pi t d => .pi t d
  | .attribute n s => .attribute n s
  | .namespace p n => .namespace p n

/-- Canonical value with the listed attribute names disregarded (the specification of
    `shallow_equal_ignore_attributes`). -/
def cvalueIgnoring (ignore : List Nat) (v : Value) (kids : List Tree) : CValue :=
  match v with
  | .element n => .element n (sortAttrs ((attrPairs kids).filter fun kv => !ignore.contains kv.1))
  | _ => cvalue v kids

/-- The canonical form of a subtree. -/
def canon : Tree → Canon
  | .node v ks => .node (cvalue v ks) (canonList ks)
where
  canonList : List Tree → List Canon
    | [] => []
    | k :: ks => if k.value.isNormal then canon k :: canonList ks else canonList ks

/-- Concatenated text of a canonical tree, in document order. -/
def Canon.text : Canon → Str
  | .node v ks =>
    match v with
    | .text s => s
    | .document => textList ks
    | .element _ _ => textList ks
    | _ => []
where
  textList : List Canon → Str
    | [] => []
    | k :: ks => Canon.text k ++ textList ks

/-! ### Specification with a text comparison and with discarded nodes -/

/-- Finite maps related pointwise by `cmp`: same size, and every entry of the first has an entry
    of the same name in the second with a `cmp`-related value. -/
def attrsRel (cmp : TextCmp) (a b : List (Nat × Str)) : Bool :=
  a.length == b.length && a.all fun kv => cmpFound cmp kv.2 (b.lookup kv.1)

/-- Canonical values related up to `cmp` on text, attribute values and PI data. -/
def CValue.rel (cmp : TextCmp) : CValue → CValue → Bool
  | .document, .document => true
  | .element n a, .element m b => n == m && attrsRel cmp a b
  | .text s, .text t => cmp s t
  | .comment s, .comment t => s == t
  | .pi t d, .pi t' d' =>
    t == t' && (match d, d' with
      | some x, some y => cmp x y
      | none, none => true
      | _, _ => false)
  | .attribute n v, .attribute m w => n == m && cmp v w
  | .namespace p n, .namespace q m => p == q && n == m
  | _, _ => false

mutual
/-- Canonical forms related up to `cmp`: values related, children related pairwise. -/
def Canon.rel (cmp : TextCmp) : Canon → Canon → Bool
  | .node v ks, .node w js => CValue.rel cmp v w && Canon.relList cmp ks js
def Canon.relList (cmp : TextCmp) : List Canon → List Canon → Bool
  | [], [] => true
  | [], _ :: _ => false
  | _ :: _, [] => false
  | x :: xs, y :: ys => Canon.rel cmp x y && Canon.relList cmp xs ys
end

mutual
/-- Discard, below the root, every normal node whose value fails `keep`. -/
def discard (keep : Value → Bool) : Tree → Tree
  | .node v ks => .node v (discardList keep ks)
def discardList (keep : Value → Bool) : List Tree → List Tree
  | [] => []
  | k :: ks =>
    if k.value.isNormal && !keep k.value then discardList keep ks
    else discard keep k :: discardList keep ks
end

/-- What `deep_equal_xpath` keeps below the compared nodes: elements and text. -/
def xpathKeep (v : Value) : Bool := v.isElement || v.isText

/-! ### Structural validity (the part of `StructValid` the comparison functions depend on) -/

/-- Children come as namespaces, then attributes, then normal nodes: after skipping the leading
    namespace nodes and then the attribute nodes, only normal nodes remain. -/
def orderedKids (ks : List Tree) : Bool :=
  ((ks.dropWhile (fun k => k.value.category == .namespace)).dropWhile
    (fun k => k.value.category == .attribute)).all (fun k => k.value.isNormal)

/-- No two attribute children with the same name. -/
def attrNamesNodup (ks : List Tree) : Bool := decide ((attrPairs ks).map (·.1)).Nodup

/-- Every node below (and including) `t`: children well ordered, attribute names unique,
    attribute / namespace nodes are leaves. -/
def Tree.valid : Tree → Bool
  | .node v ks => orderedKids ks && attrNamesNodup ks && (v.isNormal || ks.isEmpty) && validList ks
where
  validList : List Tree → Bool
    | [] => true
    | k :: ks => Tree.valid k && validList ks

/-- `valid`, and moreover every node that is not kept (attribute / namespace node, or a normal
    node failing `keep`) is a leaf. `validRootFor` exempts the root from the leaf condition. -/
def Tree.validFor (keep : Value → Bool) : Tree → Bool
  | .node v ks =>
    orderedKids ks && attrNamesNodup ks && ((v.isNormal && keep v) || ks.isEmpty) && validForList keep ks
where
  validForList (keep : Value → Bool) : List Tree → Bool
    | [] => true
    | k :: ks => Tree.validFor keep k && validForList keep ks

def Tree.validRootFor (keep : Value → Bool) (t : Tree) : Bool :=
  orderedKids t.kids && attrNamesNodup t.kids && t.kids.all (Tree.validFor keep)

/-- Text, comment and PI nodes are leaves, everywhere below (and including) `t`. -/
def Tree.contentLeaves : Tree → Bool
  | .node v ks =>
    (match v with
      | .text _ => ks.isEmpty
      | .comment _ => ks.isEmpty
      | .pi _ _ => ks.isEmpty
      | _ => true) && leavesList ks
where
  leavesList : List Tree → Bool
    | [] => true
    | k :: ks => Tree.contentLeaves k && leavesList ks

end XotModel
