/-
  XotModel.Model.Basic — shared vocabulary of the model (core Lean only, no imports).
-/
namespace XotModel

/-- Strings are character lists everywhere in the model (Rust `str` = sequence of `char`). -/
abbrev Str := List Char

/-- UTF-8 length of a character, as `char::len_utf8`. -/
def utf8Len (c : Char) : Nat :=
  if c.toNat < 0x80 then 1 else if c.toNat < 0x800 then 2 else if c.toNat < 0x10000 then 3 else 4

/-- UTF-8 length of a string (`str::len`). -/
def strLen : Str → Nat
  | [] => 0
  | c :: cs => utf8Len c + strLen cs

/-- `char::from_u32`: `none` for surrogates and values above 0x10FFFF. -/
def charOfNat? (n : Nat) : Option Char :=
  if h : n.isValidChar then some (Char.ofNatAux n h) else none

/-- Outcome of a modelled call: value, a refusal (`Err(kind)`), or a Rust panic. -/
inductive Outcome (ε α : Type) where
  | ok (a : α)
  | err (e : ε)
  | panic
  deriving Repr, DecidableEq

end XotModel
