/-
  XotModel.Model.FmapEntry — `get`, `get_mut` and the entry API of the mutable node map
  (nodemap/core.rs `get` / `get_mut` / `entry`, nodemap/entry.rs), as the compositions of
  `get_node` / `insert` / `remove` that the Rust performs, `unwrap`s included.

  Every function is "obtain the mutable view (`attributes_mut(e)` / `namespaces_mut(e)`: panics
  on a non-element), then call": the returned `Res` is `.panic` where the Rust would panic.
  A `&mut V` handed back to the caller is modelled by a second step that writes through it.
-/
import XotModel.Model.Manip

namespace XotModel
namespace Forest

/-- `get(key)`: `get_node(key)?` then `A::value`; here the whole entry value. -/
def mapGet (f : Forest) (k : MapKind) (e key : Nat) : Option Value :=
  (f.mapGetNode k e key).map (·.value)

/-- `get_mut(key)` and a write of the payload of `new` through the reference
    (`if let Some(v) = m.get_mut(key) { *v = … }`); `false` = `None`. -/
def mapGetMutSet (f : Forest) (k : MapKind) (e key : Nat) (new : Value) : Forest × Res × Bool :=
  if !f.isElement e then (f, .panic, false) else
  match f.mapGetNode k e key with
  | some n => (f.setValue n.handle (entryUpdate n.value new), .ok, true)
  | none => (f, .ok, false)

/-- `Entry`. -/
inductive MapEntry where
  | occupied (key : Nat)
  | vacant (key : Nat)
  deriving Repr, DecidableEq, Inhabited

/-- `entry(key)`: `match self.get(key)`. -/
def mapEntry (f : Forest) (k : MapKind) (e key : Nat) : MapEntry :=
  match f.mapGet k e key with
  | some _ => .occupied key
  | none => .vacant key

/-- `OccupiedEntry::get_mut` / `into_mut` / `get`: `self.map.get_mut(self.key).unwrap()`. -/
def occGetMut (f : Forest) (k : MapKind) (e key : Nat) : Res :=
  match f.mapGetNode k e key with
  | some _ => .ok
  | none => .panic

/-- `OccupiedEntry::insert(value)`: `self.map.insert(self.key, value).unwrap()`
    (`insert` returns `Some(old)` exactly when `get_node` found the key). -/
def occInsert (f : Forest) (k : MapKind) (e : Nat) (entry : Value) : Forest × Res :=
  let existed := (f.mapGetNode k e (entryKey entry)).isSome
  let (f1, r) := f.mapInsert k e entry
  match r with
  | .ok => if existed then (f1, .ok) else (f1, .panic)
  | r => (f1, r)

/-- `OccupiedEntry::remove()`: `self.map.remove(self.key).unwrap()`. -/
def occRemove (f : Forest) (k : MapKind) (e key : Nat) : Forest × Res :=
  let existed := (f.mapGetNode k e key).isSome
  let (f1, r) := f.mapRemove k e key
  match r with
  | .ok => if existed then (f1, .ok) else (f1, .panic)
  | r => (f1, r)

/-- `VacantEntry::insert(value)`: `self.map.insert(self.key, value);
    self.map.get_mut(self.key).unwrap()`. -/
def vacInsert (f : Forest) (k : MapKind) (e : Nat) (entry : Value) : Forest × Res :=
  let (f1, r) := f.mapInsert k e entry
  match r with
  | .ok => (f1, f1.occGetMut k e (entryKey entry))
  | r => (f1, r)

/-- `…_mut(e).entry(key).or_insert(default)` (also `or_insert_with`); `default` is the entry
    value `A::create(key, default)`. -/
def entryOrInsert (f : Forest) (k : MapKind) (e : Nat) (default : Value) : Forest × Res :=
  if !f.isElement e then (f, .panic) else
  match f.mapEntry k e (entryKey default) with
  | .occupied key => (f, f.occGetMut k e key)
  | .vacant _ => f.vacInsert k e default

/-- `…_mut(e).entry(key).or_insert_with(call)` (entry.rs `Entry::or_insert_with`):
    `Occupied(entry) => entry.into_mut()`, `Vacant(entry) => entry.insert(call())` — the closure
    runs for a vacant entry only.  `call ()` is the entry value `A::create(key, call())`; the `Bool`
    says whether the closure ran. -/
def entryOrInsertWith (f : Forest) (k : MapKind) (e key : Nat) (call : Unit → Value) :
    Forest × Res × Bool :=
  if !f.isElement e then (f, .panic, false) else
  match f.mapEntry k e key with
  | .occupied key => (f, f.occGetMut k e key, false)
  | .vacant _ =>
    let r := f.vacInsert k e (call ())
    (r.1, r.2, true)

/-- `if let Entry::Occupied(o) = …_mut(e).entry(key) { *o.into_mut() = new; }`
    (`OccupiedEntry::into_mut`: `self.map.get_mut(self.key).unwrap()`, and a write of the payload
    of `new` through the reference, whose lifetime is the map's); `false` = the entry was vacant. -/
def occupiedIntoMutSet (f : Forest) (k : MapKind) (e key : Nat) (new : Value) : Forest × Res × Bool :=
  if !f.isElement e then (f, .panic, false) else
  match f.mapEntry k e key with
  | .occupied key =>
    (match f.mapGetNode k e key with
     | some n => (f.setValue n.handle (entryUpdate n.value new), .ok, true)
     | none => (f, .panic, true))
  | .vacant _ => (f, .ok, false)

/-- `attributes_mut(e).entry(name).or_default()`: `String::default()` is the empty string
    (`NamespaceId` has no `Default`, so there is no namespace version). -/
def entryOrDefault (f : Forest) (e name : Nat) : Forest × Res :=
  f.entryOrInsert .attributes e (.attribute name [])

/-- `…_mut(e).entry(key).and_modify(g)`: on an occupied entry `g(entry.get_mut())`; returns the
    entry for chaining. -/
def entryAndModify (f : Forest) (k : MapKind) (e key : Nat) (g : Value → Value) :
    Forest × Res × MapEntry :=
  if !f.isElement e then (f, .panic, .vacant key) else
  match f.mapEntry k e key with
  | .occupied key =>
    (match f.mapGetNode k e key with
     | some n => (f.setValue n.handle (entryUpdate n.value (g n.value)), .ok, .occupied key)
     | none => (f, .panic, .occupied key))
  | .vacant key => (f, .ok, .vacant key)

/-- `…_mut(e).entry(key).and_modify(g).or_insert(default)`. -/
def entryAndModifyOrInsert (f : Forest) (k : MapKind) (e : Nat) (default : Value)
    (g : Value → Value) : Forest × Res :=
  match f.entryAndModify k e (entryKey default) g with
  | (f1, .ok, .occupied key) => (f1, f1.occGetMut k e key)
  | (f1, .ok, .vacant _) => f1.vacInsert k e default
  | (f1, r, _) => (f1, r)

/-- `match …_mut(e).entry(key) { Occupied(mut o) => { o.insert(v); } Vacant(va) => { va.insert(v); } }`. -/
def entryInsert (f : Forest) (k : MapKind) (e : Nat) (entry : Value) : Forest × Res :=
  if !f.isElement e then (f, .panic) else
  match f.mapEntry k e (entryKey entry) with
  | .occupied _ => f.occInsert k e entry
  | .vacant _ => f.vacInsert k e entry

/-- `if let Occupied(o) = …_mut(e).entry(key) { o.remove(); }`. -/
def entryRemove (f : Forest) (k : MapKind) (e key : Nat) : Forest × Res :=
  if !f.isElement e then (f, .panic) else
  match f.mapEntry k e key with
  | .occupied key => f.occRemove k e key
  | .vacant _ => (f, .ok)

end Forest
end XotModel
