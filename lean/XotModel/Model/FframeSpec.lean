/-
  XotModel.Model.FframeSpec — the GENERAL child-list frame of the extended calls (C05, C11).

  `Forest.XCall.writtenParents f c` (a list, so membership is decidable): for every constructor of `Forest.XCall`
  the handles whose CHILD LIST (all children: namespace, attribute and normal) or own VALUE the call, met in the
  forest `f`, may change — read off the model functions (Model/Manip.lean, Manip2.lean, FatomSpec2.lean,
  FcloneModel.lean):

    * a move (append / prepend / insert_after / insert_before / any_append / append of an entry node): the old
      parent and the new parent of the moved node, and the TEXT children of both (consolidation merges the text
      nodes that meet at the gap left and at the place of arrival: one of a merged pair changes its value, the
      other one is removed);
    * detach / remove / element_wrap: the parent of the node (and its text children);  replace: the parents of both;
      element_unwrap: the parent (and its text children), the node itself and its text children;
    * the setters: the node itself;  text_content_mut().set(): the node and its children;
    * a map update: the element and its children that are entries of that kind (an insertion overwrites an entry's
      value, a removal removes one);
    * create_missing_prefixes / deduplicate_namespaces / remove_insignificant_whitespace: every node of the subtree;
    * node creation, set_text_consolidation, clone_node, clone_with_prefixes: nothing (only NEW handles are written).

  `removedHandles f c`: the handles inside a subtree the call removes (remove, the replaced node of replace; the
  unwrapped element itself).  `movedNodes f c`: the nodes whose PARENT the call changes.

  `XCall.framed`: the constructors for which `C05_frame_general` (Props/C05.lean) is proved.

  `sharpTouches` / `mixOkSharp`: the side condition of `C11_histories_interleaved_sharp` (Props/C11.lean).

  (Specification only: nothing here is executed by the driver.  No existing definition is changed.)
-/
import XotModel.Model.FhistSpec
import XotModel.Model.FmapMixSpec

namespace XotModel
namespace Forest

/-- The handles of the children of `p`, in order (all children: namespace, attribute, normal). -/
def kidHandles (f : Forest) (p : Nat) : List Nat :=
  match f.get? p with
  | some t => t.kids.map (·.handle)
  | none => []

/-- The handles of the text children of `p`. -/
def textKidHandles (f : Forest) (p : Nat) : List Nat :=
  match f.get? p with
  | some t => (t.kids.filter (fun k => k.value.isText)).map (·.handle)
  | none => []

/-- A child list that is edited, with the text nodes in it that consolidation may merge. -/
def siteW (f : Forest) : Option Nat → List Nat
  | none => []
  | some p => p :: f.textKidHandles p

/-- Every handle of the subtree at `n`. -/
def subtreeHandles (f : Forest) (n : Nat) : List Nat :=
  match f.get? n with
  | some t => HTree.handles t
  | none => []

/-- The entry nodes of kind `k` of the element `e`. -/
def entryHandles (f : Forest) (k : MapKind) (e : Nat) : List Nat :=
  match f.get? e with
  | some t => (t.kids.filter (fun c => k.matches c.value)).map (·.handle)
  | none => []

/-- The children of `n` that are not normal (its namespace and attribute nodes). -/
def abnormalKidHandles (f : Forest) (n : Nat) : List Nat :=
  match f.get? n with
  | some t => (t.kids.filter (fun c => !c.value.isNormal)).map (·.handle)
  | none => []

/-- The moved node itself when it is a text node (it may be merged with the text node it arrives next to). -/
def textSelf (f : Forest) (c : Nat) : List Nat := if f.isText c then [c] else []

/-- **The handles whose child list or own value the call may change.** -/
def XCall.writtenParents (f : Forest) : XCall → List Nat
  | .call (.append p c) | .call (.prepend p c) | .call (.anyAppend p c) | .call (.appendEntryNode _ p c) =>
    f.siteW (f.parent? c) ++ f.siteW (some p) ++ f.textSelf c
  | .call (.insertAfter r c) | .call (.insertBefore r c) =>
    f.siteW (f.parent? c) ++ f.siteW (f.parent? r) ++ f.textSelf c
  | .call (.detach n) | .call (.remove n) | .call (.elementWrap n _) => f.siteW (f.parent? n)
  | .call (.replace a b) => f.siteW (f.parent? a) ++ f.siteW (f.parent? b) ++ f.textSelf b
  | .call (.elementUnwrap n) => n :: f.textKidHandles n ++ f.siteW (f.parent? n)
  | .call (.cloneNode _) => []
  | .call (.mapInsert k e _) | .call (.mapRemove k e _) | .call (.mapClear k e) => e :: f.entryHandles k e
  | .call (.setElementName n _) | .call (.setText n _) | .call (.setComment n _) | .call (.setPiData n _) => [n]
  | .call (.textContentSet n _) => n :: f.kidHandles n
  | .newNode _ => []
  | .setConsolidation _ => []
  | .removeInsignificantWhitespace n | .createMissingPrefixes n | .deduplicateNamespaces n => f.subtreeHandles n
  | .cloneWithPrefixes _ _ => []

/-- **The handles inside a subtree the call removes.** -/
def XCall.removedHandles (f : Forest) : XCall → List Nat
  | .call (.remove n) => f.subtreeHandles n
  | .call (.replace a _) => f.subtreeHandles a
  | .call (.elementUnwrap n) => n :: f.abnormalKidHandles n
  | _ => []

/-- **The nodes whose parent the call changes.** -/
def XCall.movedNodes (f : Forest) : XCall → List Nat
  | .call (.append _ c) | .call (.prepend _ c) | .call (.anyAppend _ c) | .call (.appendEntryNode _ _ c)
  | .call (.insertAfter _ c) | .call (.insertBefore _ c) | .call (.replace _ c) => [c]
  | .call (.detach n) | .call (.elementWrap n _) => [n]
  | .call (.elementUnwrap n) => f.kidHandles n
  | _ => []

/-- **The handles of the subtree the call moves** (the moved node first).  The nodes strictly inside keep value,
    children and parent too, but `C05_frame_general` is proved for the nodes OUTSIDE the moved subtree only. -/
def XCall.movedSubtree (f : Forest) : XCall → List Nat
  | .call (.append _ c) | .call (.prepend _ c) | .call (.anyAppend _ c) | .call (.appendEntryNode _ _ c)
  | .call (.insertAfter _ c) | .call (.insertBefore _ c) | .call (.replace _ c) => f.subtreeHandles c
  | .call (.detach n) | .call (.elementWrap n _) => f.subtreeHandles n
  | .call (.elementUnwrap n) => f.subtreeHandles n
  | _ => []

/-- The constructors inside the domain of `C05_frame_general`: append, prepend, insert_after, insert_before, detach,
    remove, replace, element_wrap, element_unwrap, clone_node, clone_with_prefixes, map insert, map remove,
    text_content_mut().set(), the four value setters, node creation and `set_text_consolidation`.  LEFT OUT (not
    proved in the general `get?`-of-the-node form): any_append, append of an entry node, map clear,
    remove_insignificant_whitespace, create_missing_prefixes, deduplicate_namespaces. -/
def XCall.framed : XCall → Bool
  | .call (.append _ _) | .call (.prepend _ _) | .call (.insertAfter _ _) | .call (.insertBefore _ _)
  | .call (.detach _) | .call (.remove _) | .call (.replace _ _) | .call (.elementWrap _ _) | .call (.elementUnwrap _)
  | .call (.cloneNode _)
  | .call (.mapInsert _ _ _) | .call (.mapRemove _ _ _) | .call (.textContentSet _ _) => true
  | .call (.setElementName _ _) | .call (.setText _ _) | .call (.setComment _ _) | .call (.setPiData _ _) => true
  | .newNode _ => true
  | .setConsolidation _ => true
  | .cloneWithPrefixes _ _ => true
  | _ => false

end Forest

namespace Fmap
open Forest (MapKind)

/-- The call answered an error. -/
def _root_.XotModel.Res.isErr : Res → Bool
  | .err _ => true
  | _ => false

/-- **Can the step change the views of `x`?** — the sharp reading.  A call (ANY extended call) on live arguments
    that answers an error has changed nothing (`C06_atomic_ext`): it touches nothing.  For a call of the framed domain that answers
    `ok` and whose node arguments are live: the tracked element or one of its children (its entry nodes are among them) is in `writtenParents`, inside a
    removed subtree or inside the moved subtree.  Otherwise the coarse `touchesEntries`. -/
def sharpTouches (s : PStore) (x : Nat) : PCall → Bool
  | .parse _ _ => !s.forest.isLive x
  | .api c =>
    if c.args.all (fun a => s.forest.isLive a) && (c.run s.store).2.isErr then false
    else if c.framed && decide ((c.run s.store).2 = .ok) && c.args.all (fun a => s.forest.isLive a) then
      !s.forest.isLive x || (x :: s.forest.kidHandles x).any (fun a =>
        decide (a ∈ c.writtenParents s.forest ++ c.removedHandles s.forest ++ c.movedSubtree s.forest))
    else touchesEntries s.forest x (.api c)

/-- `mixOk` with `sharpTouches` in the place of `touchesEntries`. -/
def mixOkSharp (T : List Nat) : PStore → List MixStep → Prop
  | _, [] => True
  | s, .map op :: rest =>
    op.ok s.forest = true ∧ ((∃ x ∈ op.elems, x ∈ T) → ∀ y ∈ op.elems, y ∈ T) ∧
      mixOkSharp T (MixStep.run s (.map op)) rest
  | s, .other c :: rest =>
    c.wellKinded ∧ (∀ x ∈ T, sharpTouches s x c = false) ∧ mixOkSharp T (MixStep.run s (.other c)) rest

instance mixOkSharp.dec (T : List Nat) : ∀ (steps : List MixStep) (s : PStore), Decidable (mixOkSharp T s steps)
  | [], _ => isTrue trivial
  | .map op :: rest, s =>
    have := mixOkSharp.dec T rest (MixStep.run s (.map op))
    (inferInstance : Decidable (op.ok s.forest = true ∧ ((∃ x ∈ op.elems, x ∈ T) → ∀ y ∈ op.elems, y ∈ T) ∧
      mixOkSharp T (MixStep.run s (.map op)) rest))
  | .other c :: rest, s =>
    have := mixOkSharp.dec T rest (MixStep.run s (.other c))
    (inferInstance : Decidable (c.wellKinded ∧ (∀ x ∈ T, sharpTouches s x c = false) ∧
      mixOkSharp T (MixStep.run s (.other c)) rest))

end Fmap
end XotModel
