/-
  XotModel.Model.FspecSpec — the SPECIFICATION of C05: what every manipulation call must do to
  the forest, seen as plain ordered trees.

  Written without reference to `Manip.lean` / `Manip2.lean` (xot's statement order): it uses the
  `Forest` / `HTree` data type and its lookups (`get?`, `ctx?`, `parent?`) only.  Everything is
  phrased through ONE notion: a *site* is a child list (that of a node, or the list of
  parentless trees), and an edit applies a function on lists to one site (`Forest.editAt`).

    move   = drop the subtree from its child list, insert it into the destination child
             list, then (consolidation on) merge every maximal run of adjacent text nodes in
             the two touched child lists into one node carrying the concatenated data;
    remove = drop + merge; detach = drop + new parentless tree + merge;
    unwrap = the wrapper is replaced by its normal children, in order, + merge;
    wrap   = the node is replaced by a new element whose only child it is;
    replace = the replacing subtree leaves its place and takes the place of the replaced one.

  Which handle survives a merge is a parameter (`Keep`): the property text says the *earlier*
  node; xot keeps the node that was already there and destroys the one it moves
  (`Keep.resident`).  `Forest.content` forgets handles, so that statements can be made up to
  the identity of the merged node.
-/
import XotModel.Model.Forest

namespace XotModel

/-! ### Decidable equality of (handle-free and handle-carrying) trees, for closed examples -/

mutual
  def Tree.decEq : (a b : Tree) → Decidable (a = b)
    | .node v ks, .node v' ks' =>
      if hv : v = v' then
        match Tree.decEqList ks ks' with
        | isTrue h => isTrue (by rw [hv, h])
        | isFalse h => isFalse (by intro e; cases e; exact h rfl)
      else isFalse (by intro e; cases e; exact hv rfl)
  def Tree.decEqList : (a b : List Tree) → Decidable (a = b)
    | [], [] => isTrue rfl
    | [], _ :: _ => isFalse (by simp)
    | _ :: _, [] => isFalse (by simp)
    | a :: as, b :: bs =>
      match Tree.decEq a b, Tree.decEqList as bs with
      | isTrue h1, isTrue h2 => isTrue (by rw [h1, h2])
      | isFalse h1, _ => isFalse (by intro e; cases e; exact h1 rfl)
      | _, isFalse h2 => isFalse (by intro e; cases e; exact h2 rfl)
end
instance : DecidableEq Tree := Tree.decEq

mutual
  def HTree.decEq : (a b : HTree) → Decidable (a = b)
    | .node h v ks, .node h' v' ks' =>
      if hh : h = h' then
        if hv : v = v' then
          match HTree.decEqList ks ks' with
          | isTrue e => isTrue (by rw [hh, hv, e])
          | isFalse e => isFalse (by intro x; cases x; exact e rfl)
        else isFalse (by intro x; cases x; exact hv rfl)
      else isFalse (by intro x; cases x; exact hh rfl)
  def HTree.decEqList : (a b : List HTree) → Decidable (a = b)
    | [], [] => isTrue rfl
    | [], _ :: _ => isFalse (by simp)
    | _ :: _, [] => isFalse (by simp)
    | a :: as, b :: bs =>
      match HTree.decEq a b, HTree.decEqList as bs with
      | isTrue h1, isTrue h2 => isTrue (by rw [h1, h2])
      | isFalse h1, _ => isFalse (by intro e; cases e; exact h1 rfl)
      | _, isFalse h2 => isFalse (by intro e; cases e; exact h2 rfl)
end
instance : DecidableEq HTree := HTree.decEq
instance : DecidableEq Forest := fun a b =>
  if h : a.roots = b.roots ∧ a.next = b.next ∧ a.consolidation = b.consolidation ∧
      a.everOff = b.everOff ∧ a.corrupt = b.corrupt then
    isTrue (by cases a; cases b; simp at h; simp [h])
  else isFalse (by intro e; subst e; simp at h)

/-- Where a moved subtree is to go. -/
inductive Dest where
  | lastChildOf (p : Nat)
  | firstNormalChildOf (p : Nat)
  | after (r : Nat)
  | before (r : Nat)
  deriving Repr, DecidableEq, Inhabited

/-- Survivor rule of a merge: `keep a b = true` — the run `… a b …` (handles) keeps `a`'s identity. -/
abbrev Keep := Nat → Nat → Bool

/-- The earlier node survives (the rule in the property text). -/
def Keep.earlier : Keep := fun _ _ => true
/-- The node that was there before survives, the moved node `n` never does (what xot does). -/
def Keep.resident (n : Nat) : Keep := fun a _ => a != n

namespace Spec

/-! ### Functions on one child list -/

/-- The list without the child `n`. -/
def dropTop (n : Nat) : List HTree → List HTree
  | [] => []
  | k :: ks => if k.handle = n then dropTop n ks else k :: dropTop n ks

/-- Replace the first child with handle `h` by the list `F child`. -/
def replaceTop (h : Nat) (F : HTree → List HTree) : List HTree → List HTree
  | [] => []
  | k :: ks => if k.handle = h then F k ++ ks else k :: replaceTop h F ks

/-- `t` as the last child. -/
def insertLast (t : HTree) (ks : List HTree) : List HTree := ks ++ [t]

/-- `t` as the first normal child: after the namespace and attribute nodes. -/
def insertFirstNormal (t : HTree) : List HTree → List HTree
  | [] => [t]
  | k :: ks => if k.value.isNormal then t :: k :: ks else k :: insertFirstNormal t ks

/-- `t` directly after / before the child `r`. -/
def insertAfterTop (r : Nat) (t : HTree) : List HTree → List HTree := replaceTop r (fun k => [k, t])
def insertBeforeTop (r : Nat) (t : HTree) : List HTree → List HTree := replaceTop r (fun k => [t, k])

/-- Two adjacent text nodes as one: the concatenated data, under the handle the rule selects. -/
def join (keep : Keep) (a b : HTree) (x y : Str) : HTree :=
  if keep a.handle b.handle then a.setValue (.text (x ++ y)) else b.setValue (.text (x ++ y))

/-- Merge every maximal run of adjacent text nodes (`cur` is the node under construction). -/
def mergeInto (keep : Keep) (cur : HTree) : List HTree → List HTree
  | [] => [cur]
  | b :: rest =>
    match cur.value, b.value with
    | .text x, .text y => mergeInto keep (join keep cur b x y) rest
    | _, _ => cur :: mergeInto keep b rest

def mergeRuns (keep : Keep) : List HTree → List HTree
  | [] => []
  | a :: rest => mergeInto keep a rest

end Spec

namespace HTree
/-- Apply `g` to the child list of the node `s`. -/
def editAt (s : Nat) (g : List HTree → List HTree) : HTree → HTree :=
  mapAt s (fun n => n.setKids (g n.kids))
end HTree

namespace Forest

/-- The erased view: the trees of the store, in order, handles forgotten. -/
def content (f : Forest) : List Tree := HTree.eraseList f.roots

/-- Apply `g` to one site: the child list of `p`, or the list of parentless trees. -/
def editAt (f : Forest) (s : Option Nat) (g : List HTree → List HTree) : Forest :=
  match s with
  | none => { f with roots := g f.roots }
  | some p => { f with roots := f.roots.map (HTree.editAt p g) }

/-- Merge text runs in the child list of a node (parentless trees are not siblings). -/
def mergeAt (f : Forest) (keep : Keep) (s : Option Nat) : Forest :=
  match s with
  | none => f
  | some p => if f.consolidation then f.editAt (some p) (Spec.mergeRuns keep) else f

/-- The raw children of a live node. -/
def kidsOf (f : Forest) (p : Nat) : List HTree :=
  match f.get? p with
  | some t => t.kids
  | none => []

end Forest

/-! ### String values (for C05's "the concatenated character data of every ancestor") -/

/-- The character data a node contributes itself. -/
def Value.textStr : Value → Str
  | .text s => s
  | _ => []

namespace HTree
mutual
  /-- The string value of a node: the character data of all text nodes in its subtree, in order. -/
  def text : HTree → Str
    | node _ v ks => v.textStr ++ textList ks
  def textList : List HTree → Str
    | [] => []
    | k :: ks => text k ++ textList ks
end

mutual
  /-- (handle, string value) of every node that is not a text node, in document order. -/
  def strValues : HTree → List (Nat × Str)
    | node h v ks => (if v.isText then [] else [(h, text (node h v ks))]) ++ strValuesList ks
  def strValuesList : List HTree → List (Nat × Str)
    | [] => []
    | k :: ks => strValues k ++ strValuesList ks
end
end HTree

/-- The string value of every non-text node of the store. -/
def Forest.strValues (f : Forest) : List (Nat × Str) := HTree.strValuesList f.roots

namespace Dest
open Spec

/-- The node whose child list receives the subtree. -/
def site (f : Forest) : Dest → Option Nat
  | lastChildOf p => if f.isLive p then some p else none
  | firstNormalChildOf p => if f.isLive p then some p else none
  | after r => f.parent? r
  | before r => f.parent? r

/-- Does `n` already sit at this place? -/
def occupiedBy (f : Forest) (n : Nat) : Dest → Bool
  | lastChildOf p => ((f.kidsOf p).getLast?.map (·.handle)) == some n
  | firstNormalChildOf p => (((f.kidsOf p).dropWhile (fun k => !k.value.isNormal)).head?.map (·.handle)) == some n
  | after r =>
    match f.ctx? r with
    | some c => (c.right.head?.map (·.handle)) == some n
    | none => false
  | before r =>
    match f.ctx? r with
    | some c => (c.left.getLast?.map (·.handle)) == some n
    | none => false

/-- The insertion, as a function on the destination child list. -/
def insert (t : HTree) : Dest → List HTree → List HTree
  | lastChildOf _ => insertLast t
  | firstNormalChildOf _ => insertFirstNormal t
  | after r => insertAfterTop r t
  | before r => insertBeforeTop r t

end Dest

namespace Spec

/-- **Move** the subtree `n` to `dest`. -/
def specMove (keep : Keep) (dest : Dest) (n : Nat) (f : Forest) : Forest :=
  if dest.occupiedBy f n then f else
  match f.get? n, dest.site f with
  | some t, some q =>
    let old := f.parent? n
    let cut := f.editAt old (dropTop n)
    let grafted := cut.editAt (some q) (dest.insert t)
    (grafted.mergeAt keep old).mergeAt keep (some q)
  | _, _ => f

/-- **Remove**: exactly the subtree disappears; the neighbours it separated are merged. -/
def specRemove (keep : Keep) (n : Nat) (f : Forest) : Forest :=
  let old := f.parent? n
  (f.editAt old (dropTop n)).mergeAt keep old

/-- **Detach**: the subtree becomes a parentless tree of its own. -/
def specDetach (keep : Keep) (n : Nat) (f : Forest) : Forest :=
  match f.get? n with
  | none => f
  | some t =>
    let old := f.parent? n
    (((f.editAt old (dropTop n)).editAt none (insertLast t))).mergeAt keep old

/-- **Unwrap** an element that has a parent: its normal children take its place, in order; its
    attribute and namespace nodes disappear with it. -/
def specUnwrap (keep : Keep) (n : Nat) (f : Forest) : Forest :=
  let old := f.parent? n
  (f.editAt old (replaceTop n (fun w => w.kids.filter (fun k => k.value.isNormal)))).mergeAt keep old

/-- **Wrap**: exactly one new element (handle `f.next`) appears, at the place of `n`, with `n` as
    its only child. A parentless `n` yields a parentless wrapper (listed last). -/
def specWrap (n name : Nat) (f : Forest) : Forest :=
  let w (t : HTree) : HTree := .node f.next (.element name) [t]
  match f.get? n with
  | none => f
  | some t =>
    match f.parent? n with
    | some p => { f.editAt (some p) (replaceTop n (fun k => [w k])) with next := f.next + 1 }
    | none => { (f.editAt none (dropTop n)).editAt none (insertLast (w t)) with next := f.next + 1 }

/-- **Replace** `old` (which has a parent) by the subtree `new`: `new` leaves its place, `old`'s
    subtree disappears, `new` stands where `old` stood. -/
def specReplace (keep : Keep) (old new : Nat) (f : Forest) : Forest :=
  match f.get? new, f.parent? old with
  | some t, some q =>
    let from_ := f.parent? new
    let cut := f.editAt from_ (dropTop new)
    let put := cut.editAt (some q) (replaceTop old (fun _ => [t]))
    (put.mergeAt keep from_).mergeAt keep (some q)
  | _, _ => f

end Spec
end XotModel
