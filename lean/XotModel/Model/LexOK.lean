/-
  XotModel.Model.LexOK — the lexical side conditions under which the canonical spelling of a
  token list (`renderTokens`, Model/TokenRender.lean) is read back by the reference tokenizer
  (`Model/Lex.lean`, the model of xmlparser 0.13.6) as the same token list:

      LexOK frag ts = true  →  lex (renderTokens ts) = (ts re-positioned, no error)
                                                         (Lemmas/LexCanon*.lean)

  The file has two parts:
    1. the character classes of `xmlparser/src/xmlchar.rs` (`isXmlSpace`, `isXmlChar`,
       `isNameStart`, `isNameChar`) — shared with the tokenizer model, which imports this file;
    2. `LexOK : Bool → List Token → Bool` (the flag is `true` for fragment mode) =
       per-token conditions (`Token.lexOK`) + bracketing / adjacency conditions (`lexNest`).
  Only what the tokenizer needs is demanded; nothing about namespaces, matching tag names,
  attribute uniqueness, references (those belong to the builder, Model/Parse.lean).
-/
import XotModel.Model.TokenRender

namespace XotModel

/-! ### xmlchar.rs -/

/-- `XmlByteExt::is_xml_space`: one of blank, tab, LF, CR. -/
def isXmlSpace (c : Char) : Bool := c == ' ' || c == '\t' || c == '\n' || c == '\r'

/-- `XmlCharExt::is_xml_char` (surrogates cannot occur in a Rust `char`, nor in a Lean `Char`). -/
def isXmlChar (c : Char) : Bool :=
  if c.toNat < 0x20 then isXmlSpace c else !(c.toNat == 0xFFFF || c.toNat == 0xFFFE)

/-- The non-ASCII part of `is_xml_name_start`. -/
def nameStartRange (n : Nat) : Bool :=
     (0xC0 ≤ n && n ≤ 0xD6) || (0xD8 ≤ n && n ≤ 0xF6) || (0xF8 ≤ n && n ≤ 0x2FF)
  || (0x370 ≤ n && n ≤ 0x37D) || (0x37F ≤ n && n ≤ 0x1FFF) || (0x200C ≤ n && n ≤ 0x200D)
  || (0x2070 ≤ n && n ≤ 0x218F) || (0x2C00 ≤ n && n ≤ 0x2FEF) || (0x3001 ≤ n && n ≤ 0xD7FF)
  || (0xF900 ≤ n && n ≤ 0xFDCF) || (0xFDF0 ≤ n && n ≤ 0xFFFD) || (0x10000 ≤ n && n ≤ 0xEFFFF)

/-- `XmlCharExt::is_xml_name_start` (`:` counts, as in the XML 1.0 grammar). -/
def isNameStart (c : Char) : Bool :=
  let n := c.toNat
  if n ≤ 128 then (65 ≤ n && n ≤ 90) || (97 ≤ n && n ≤ 122) || n == 58 || n == 95
  else nameStartRange n

/-- `XmlCharExt::is_xml_name` (ASCII part = `XmlByteExt::is_xml_name`: letters, digits,
    `:` `_` `-` `.`). -/
def isNameChar (c : Char) : Bool :=
  let n := c.toNat
  if n ≤ 128 then
    (65 ≤ n && n ≤ 90) || (97 ≤ n && n ≤ 122) || (48 ≤ n && n ≤ 57)
      || n == 58 || n == 95 || n == 45 || n == 46
  else n == 0xB7 || nameStartRange n || (0x300 ≤ n && n ≤ 0x36F) || (0x203F ≤ n && n ≤ 0x2040)

/-- `str::contains(pat)` for a string pattern. -/
def hasInfix (pat : Str) : Str → Bool
  | [] => pat.isEmpty
  | c :: cs => pat.isPrefixOf (c :: cs) || hasInfix pat cs

/-! ### Per-token conditions -/

/-- A prefix or local name as `consume_qname` reads it back: name characters only, no colon,
    the first one a name-start character. (The empty string passes: an absent prefix.) -/
def ncNameOK (s : Str) : Bool :=
  s.all (fun c => isNameChar c && c != ':') && (match s with | [] => true | c :: _ => isNameStart c)

/-- `prefix:local` as `consume_qname` reads it back: the local part is not empty. -/
def qnameOK (p l : Str) : Bool := ncNameOK p && ncNameOK l && !l.isEmpty

/-- A PI target as `consume_name` reads it back (colons allowed). -/
def nameOK (s : Str) : Bool :=
  match s with
  | [] => false
  | c :: cs => isNameStart c && cs.all isNameChar

/-- The per-token side conditions. -/
def Token.lexOK : Token → Bool
  | .elementStart p l _ => qnameOK p.text l.text
  | .attribute p l v _ =>
      qnameOK p.text l.text && v.text.all (fun c => isXmlChar c && c != '"' && c != '<')
  | .elementEnd .open _ => true
  | .elementEnd .empty _ => true
  | .elementEnd (.close p l) _ => qnameOK p.text l.text
  | .text t =>
      !t.text.isEmpty && t.text.all (fun c => isXmlChar c && c != '<')
        && !hasInfix [']', ']', '>'] t.text
  | .cdata t _ => t.text.all isXmlChar && !hasInfix [']', ']', '>'] t.text
  | .comment t _ =>
      t.text.all isXmlChar && !hasInfix ['-', '-'] t.text && t.text.getLast? != some '-'
  | .pi t none _ => nameOK t.text
  | .pi t (some c) _ =>
      nameOK t.text && t.text != ['x', 'm', 'l']
        && !c.text.isEmpty && !(c.text.head?.any isXmlSpace)
        && c.text.all isXmlChar && !hasInfix ['?', '>'] c.text
  | .declaration _ _ _ _ => false
  | .dtdStart _ => false
  | .emptyDtd _ => false
  | .entityDecl _ => false
  | .dtdEnd _ => false

/-! ### Bracketing and adjacency -/

/-- Where the tokenizer stands between two tokens (its `state` and `depth`, as far as they
    matter for canonical token lists). -/
inductive LexCtx where
  /-- document mode, before the root element (`Declaration` / `AfterDeclaration` / `AfterDtd`) -/
  | prolog
  /-- inside a start tag (`Attributes`); `depth` open elements around it -/
  | inTag (depth : Nat)
  /-- element content (`Elements`) with `depth` open elements; fragment top level = `content 0` -/
  | content (depth : Nat)
  /-- document mode, after the root element (`AfterElements`) -/
  | after
  deriving Repr, DecidableEq, Inhabited

/-- The context after an end tag / an empty-element tag that leaves `depth` elements open. -/
def LexCtx.closed (frag : Bool) (depth : Nat) : LexCtx :=
  if depth == 0 && !frag then .after else .content depth

/-- Bracketing and adjacency: which token kinds may follow each other.
    * prolog / after the root (document mode): comments and PIs only; the root's start tag ends
      the prolog;
    * inside a start tag: attributes, then `>` or `/>`;
    * element content: everything except attributes / `>` / `/>`; no two text tokens in a row;
      an end tag at depth 0 (fragment mode only) leaves the depth at 0.
    The list may stop anywhere (the tokenizer does not complain about open elements or an
    unfinished start tag at the end of input). -/
def lexNest (frag : Bool) : LexCtx → List Token → Bool
  | _, [] => true
  | .prolog, .comment _ _ :: rest => lexNest frag .prolog rest
  | .prolog, .pi _ _ _ :: rest => lexNest frag .prolog rest
  | .prolog, .elementStart _ _ _ :: rest => lexNest frag (.inTag 0) rest
  | .prolog, _ :: _ => false
  | .inTag d, .attribute _ _ _ _ :: rest => lexNest frag (.inTag d) rest
  | .inTag d, .elementEnd .open _ :: rest => lexNest frag (.content (d + 1)) rest
  | .inTag d, .elementEnd .empty _ :: rest => lexNest frag (LexCtx.closed frag d) rest
  | .inTag _, _ :: _ => false
  | .content _, .text _ :: .text _ :: _ => false
  | .content d, .text _ :: rest => lexNest frag (.content d) rest
  | .content d, .cdata _ _ :: rest => lexNest frag (.content d) rest
  | .content d, .comment _ _ :: rest => lexNest frag (.content d) rest
  | .content d, .pi _ _ _ :: rest => lexNest frag (.content d) rest
  | .content d, .elementStart _ _ _ :: rest => lexNest frag (.inTag d) rest
  | .content d, .elementEnd (.close _ _) _ :: rest => lexNest frag (LexCtx.closed frag (d - 1)) rest
  | .content _, _ :: _ => false
  | .after, .comment _ _ :: rest => lexNest frag .after rest
  | .after, .pi _ _ _ :: rest => lexNest frag .after rest
  | .after, _ :: _ => false

/-- The context in which the tokenizer starts. -/
def LexCtx.init (frag : Bool) : LexCtx := if frag then .content 0 else .prolog

/-- The lexical side conditions on a token list (`frag = true`: `parse_fragment`,
    `frag = false`: `parse`). -/
def LexOK (frag : Bool) (ts : List Token) : Bool :=
  ts.all Token.lexOK && lexNest frag (LexCtx.init frag) ts

end XotModel
