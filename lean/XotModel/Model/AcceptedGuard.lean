/-
  XotModel.Model.AcceptedGuard — specification side (NOT a model of Rust code): the two decidable
  guards, on the TREE, under which "whatever the parser accepts serialises and reparses to the same
  tree" is proved (Props/C03.lean, C03_accepted_*).  They live here so that the driver can evaluate
  them (request `accguard`, suite `build`).

  * `NoReservedDecls env t`: the guard that delimits the known findings
    `C03:xml-prefix-rebound-accepted` / `C03:not-representable-xml-prefix-rebound`: no namespace node
    binds the prefix `xml` (to whatever URI: `xmlns:xml="zzz"`, `xmlns:xml=""`, and the permitted but
    never serialised `xmlns:xml="http://www.w3.org/XML/1998/namespace"`).  Everything else Namespaces
    in XML reserves (the prefix `xmlns`, other prefixes for the XML namespace name, the xmlns
    namespace name, `xmlns:p=""`) is rejected by the parser since /repo 5298f5f, d87cde0.
  * `PlainPiTargets env t`: every processing-instruction target is an NCName (no colon) — what
    `Representable` (Model/SerTokens.lean) asks and the tokenizer does NOT check.  The target `xml`
    in any letter case is rejected by the parser since /repo dd2a136.
-/
import XotModel.Model.SerTokens

namespace XotModel

/-- A namespace declaration the parser accepts and `Representable` admits: not of the prefix `xml`. -/
def declAllowed (_env : Env) (p _ns : Nat) : Bool := p != Env.xmlPrefix

def noReservedDecl (env : Env) (v : Value) (_ : List Tree) : Bool :=
  match v with
  | .namespace p ns => declAllowed env p ns
  | _ => true

/-- No namespace node of the tree declares the prefix `xml`. -/
def NoReservedDecls (env : Env) (t : Tree) : Bool := t.allNodes (noReservedDecl env)

def plainPiTarget (env : Env) (v : Value) (_ : List Tree) : Bool :=
  match v with
  | .pi target _ =>
    ncNameNE (env.localName target)
  | _ => true

/-- Every PI target is an NCName (no colon). -/
def PlainPiTargets (env : Env) (t : Tree) : Bool := t.allNodes (plainPiTarget env)

end XotModel
