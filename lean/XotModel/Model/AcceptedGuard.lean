/-
  XotModel.Model.AcceptedGuard — specification side (NOT a model of Rust code): the two decidable
  guards, on the TREE, under which "whatever the parser accepts serialises and reparses to the same
  tree" is proved (Props/C03.lean, C03_accepted_*).  They live here so that the driver can evaluate
  them (request `accguard`, suite `build`).

  * `NoReservedDecls env t`: the guard that delimits the known findings
    `C03:reserved-prefix-or-namespace-rebound-accepted` / `C03:prefixed-undeclaration-accepted`:
    no namespace node binds the prefix `xml` or `xmlns`, binds anything to the XML namespace name or
    to the xmlns namespace name, or binds a non-empty prefix to the empty namespace name.
  * `PlainPiTargets env t`: every processing-instruction target is an NCName other than `xml` in any
    letter case — what `Representable` (Model/SerTokens.lean) asks and the tokenizer does NOT check.
-/
import XotModel.Model.SerTokens

namespace XotModel

/-- A namespace declaration that Namespaces in XML 1.0 allows as far as reserved names and
    undeclaring go. -/
def declAllowed (env : Env) (p ns : Nat) : Bool :=
  p != Env.xmlPrefix && env.prefixStr p != xmlnsName &&
  ns != Env.xmlNamespace && env.namespaceStr ns != xmlnsNamespaceUri &&
  (p == Env.emptyPrefix || ns != Env.noNamespace)

def noReservedDecl (env : Env) (v : Value) (_ : List Tree) : Bool :=
  match v with
  | .namespace p ns => declAllowed env p ns
  | _ => true

/-- No namespace node of the tree is a reserved (re)binding or a prefixed undeclaration. -/
def NoReservedDecls (env : Env) (t : Tree) : Bool := t.allNodes (noReservedDecl env)

def plainPiTarget (env : Env) (v : Value) (_ : List Tree) : Bool :=
  match v with
  | .pi target _ =>
    ncNameNE (env.localName target) && (env.localName target).map asciiLowerChar != ['x', 'm', 'l']
  | _ => true

/-- Every PI target is an NCName other than `xml` (any letter case). -/
def PlainPiTargets (env : Env) (t : Tree) : Bool := t.allNodes (plainPiTarget env)

end XotModel
