/-
  XotModel.Model.AxesChildLists — the accessors of access.rs / nodemap/ that hand out the nodes of ONE raw
  child list, as lists of paths (the `take_while` / `skip_while` code of the crate, AS WRITTEN, over
  indextree's `children` = `Axes.allChildren`):

    all_children(node)                 `node.get().children(&self.arena)`            (access.rs, pub(crate))
    abnormal_children(node)            `…children.take_while(!is_normal)`            (access.rs, pub(crate))
    namespaces(node).nodes()           `NamespaceAdapter::children`:
                                       `all_children.take_while(= Namespace)`        (nodemap/namespace.rs)
    attributes(node).nodes()           `AttributeAdapter::children`:
                                       `all_children.skip_while(= Namespace).take_while(= Attribute)`
                                                                                     (nodemap/attribute.rs)
  (`attribute_nodes` — the same code text once more in access.rs — and `children` = `normal_children`
  are in Model/Axes.lean.)  `namespaceNodes` was stated in Lemmas/AxesValid.lean before; it lives here so
  that the driver (suite `axes`) can answer with it.
-/
import XotModel.Model.Axes

namespace XotModel
namespace Axes

/-- `all_children`, the nodes only. -/
def allChildrenPaths (t : Tree) (p : Path) : List Path := (allChildren t p).map (·.1)

/-- `abnormal_children`, the nodes only. -/
def abnormalChildrenPaths (t : Tree) (p : Path) : List Path := (abnormalChildren t p).map (·.1)

/-- `NamespaceAdapter::children` / the namespace nodes of `p` (`namespaces(node).nodes()`):
    `all_children.take_while(= Namespace)`. -/
def namespaceNodes (t : Tree) (p : Path) : List Path :=
  ((allChildren t p).takeWhile (fun x => itemCategory x == .namespace)).map (·.1)

/-- `AttributeAdapter::children` (`attributes(node).nodes()`):
    `all_children.skip_while(= Namespace).take_while(= Attribute)` — nodemap/attribute.rs repeats the
    code of `Xot::attribute_nodes`. -/
def attributesNodes (t : Tree) (p : Path) : List Path :=
  (((allChildren t p).dropWhile (fun x => itemCategory x == .namespace)).takeWhile
    (fun x => itemCategory x == .attribute)).map (·.1)

end Axes
end XotModel
