/-
  XotModel.Model.Manip2 — composite edits: replace, element_wrap, element_unwrap, clone_node,
  remove_insignificant_whitespace (manipulation.rs, unpretty.rs).
-/
import XotModel.Model.Manip

namespace XotModel
namespace Forest

/-- `has_document_parent`. -/
def hasDocumentParent (f : Forest) (h : Nat) : Bool :=
  match f.parent? h with
  | some p => f.isDocument p
  | none => false

/-- `is_document_element`. -/
def isDocumentElement (f : Forest) (h : Nat) : Bool :=
  f.hasDocumentParent h && f.isElement h

/-- `replace(replaced_node, replacing_node)`. -/
def replace (f : Forest) (replaced replacing : Nat) : Forest × Res :=
  if f.isDocument replaced then (f, .err .invalidOperation) else
  match f.parent? replaced with
  | none => (f, .err .invalidOperation)
  | some parent =>
    if !f.isNormalNode replaced then (f, .err .invalidOperation) else
    if !f.structureCheck (some parent) replacing then (f, .err .invalidOperation) else
    if (f.ancestors replacing).contains replaced then (f, .err .invalidOperation) else
    let previous := f.prevSibling replaced
    let next := f.nextSibling replaced
    if previous == some replacing || next == some replacing then f.remove replaced else
    let f1 := f.dropSubtree replaced
    match previous with
    | some p =>
      let (f2, r) := f1.insertAfter p replacing
      (match r with
       | .ok =>
         (match next with
          | some n => ((f2.removeConsolidate (f2.prevSibling n) (some n)).1, .ok)
          | none => (f2, .ok))
       | r => (f2, r))
    | none => f1.prepend parent replacing

/-- `element_wrap(node, name)`; returns the wrapper. -/
def elementWrap (f : Forest) (node name : Nat) : Forest × Res × Nat :=
  if f.isDocument node then (f, .err .invalidOperation, 0) else
  if !f.isNormalNode node then (f, .err .invalidOperation, 0) else
  if f.hasDocumentParent node && !f.isDocumentElement node then (f, .err .invalidOperation, 0) else
  match f.parent? node with
  | some parent =>
    let previous := f.prevSibling node
    let (f1, wrapper) := f.newElement name
    let f2 := f1.detachRaw node
    let (f3, r3) := f2.append wrapper node
    match r3 with
    | .ok =>
      let (f4, r4) :=
        match previous with
        | some p => f3.insertAfter p wrapper
        | none => f3.prepend parent wrapper
      (f4, r4, wrapper)
    | r => (f3, r, wrapper)
  | none =>
    let (f1, wrapper) := f.newElement name
    let (f2, r) := f1.append wrapper node
    (f2, r, wrapper)

/-- `remove_element(node)`: drop the attribute / namespace children, then splice the node out. -/
def removeElement (f : Forest) (node : Nat) : Forest :=
  match f.get? node with
  | none => f
  | some t =>
    let f1 := (t.kids.takeWhile (fun k => !k.value.isNormal)).foldl (fun acc k => acc.spliceOut k.handle) f
    f1.spliceOut node

/-- `element_unwrap(node)`. -/
def elementUnwrap (f : Forest) (node : Nat) : Forest × Res :=
  if !f.isElement node then (f, .err .invalidOperation) else
  match f.firstChild node with
  | none => f.remove node
  | some first =>
    if (f.parent? node).isNone then (f, .err .invalidOperation) else
    match f.lastChild node with
    | none => (f, .panic)
    | some last =>
      let f1 := f.removeElement node
      let prev := f1.prevSibling first
      let next := f1.nextSibling last
      let (f2, c) := f1.removeConsolidate prev (some first)
      if c then
        if first == last then ((f2.removeConsolidate prev next).1, .ok)
        else ((f2.removeConsolidate (some last) (f2.nextSibling last)).1, .ok)
      else ((f2.removeConsolidate (some last) (f2.nextSibling last)).1, .ok)

/-! ### clone_node: the edge replay, written as the structural recursion it amounts to -/

mutual
  /-- Replay the edges of the source subtree `src` under `current`: every node is re-created
      with `new_node(value.clone())` and added with `any_append(current, new).unwrap()`;
      an element becomes the new `current` for its children. Returns `none` on the `unwrap`
      panic. Document values are skipped. -/
  def cloneInto (f : Forest) (current : Nat) : HTree → Option Forest
    | .node _ v ks =>
      match v with
      | .document => cloneKids f current ks
      | _ =>
        let (f1, n) := f.newNode v
        match f1.anyAppend current n with
        | (f2, .ok, _) => cloneKids f2 (if v.isElement then n else current) ks
        | _ => none
  def cloneKids (f : Forest) (current : Nat) : List HTree → Option Forest
    | [] => some f
    | k :: ks =>
      match cloneInto f current k with
      | some f' => cloneKids f' current ks
      | none => none
end

/-- `clone_node(node)`; returns the clone's root (`none` outcome = panic). -/
def cloneNode (f : Forest) (node : Nat) : Forest × Option Nat :=
  match f.get? node with
  | none => (f, none)
  | some src =>
    match src.value with
    | .document =>
      let (f1, top) := f.newDocument
      (match cloneKids f1 top src.kids with
       | some f2 => (f2, some top)
       | none => (f1, none))
    | .element name =>
      let (f1, top) := f.newElement name
      (match cloneInto f1 top src with
       | some f2 =>
         (match f2.firstChild top with
          | some c => (f2.spliceOut top, some c)
          | none => (f2, none))
       | none => (f1, none))
    | v =>
      let (f1, n) := f.newNode v
      (f1, some n)

/-! ### remove_insignificant_whitespace (unpretty.rs) -/

/-- `is_whitespace`: XML whitespace only. -/
def isXmlWhitespace (s : Str) : Bool := s.all (fun c => c == ' ' || c == '\t' || c == '\r' || c == '\n')

def isSignificantText (t : HTree) : Bool :=
  match t.value with
  | .text s => !isXmlWhitespace s
  | _ => false

/-- `attributes.get(xml:space)` on an HTree node. -/
def xmlSpaceOf (t : HTree) : Option Str :=
  ((mapChildren .attributes t).findSome? fun c => match c.value with
    | .attribute n v => if n == 0 then some v else none
    | _ => none)

/-- `in_preserve_space(node)`: the nearest ancestor-or-self carrying `xml:space` decides. -/
def inPreserveSpace (f : Forest) (h : Nat) : Bool :=
  let rec go : List Nat → Bool
    | [] => false
    | a :: rest =>
      match f.get? a with
      | some t => (match xmlSpaceOf t with
          | some s => s == ['p','r','e','s','e','r','v','e']
          | none => go rest)
      | none => go rest
  go (f.ancestors h)

/-- `preceding_siblings(h)` / `following_siblings(h)` of xot: the raw siblings on that side
    including `h` itself, filtered to `h`'s category. -/
def precedingSiblings (f : Forest) (h : Nat) : List HTree :=
  match f.ctx? h with
  | none => (f.get? h).toList
  | some c => (c.self :: c.left.reverse).filter (fun k => k.value.category == c.self.value.category)

def followingSiblings (f : Forest) (h : Nat) : List HTree :=
  match f.ctx? h with
  | none => (f.get? h).toList
  | some c => (c.self :: c.right).filter (fun k => k.value.category == c.self.value.category)

/-- `is_insignificant_whitespace(node)`. -/
def isInsignificantWhitespace (f : Forest) (h : Nat) : Bool :=
  match f.textOf h with
  | none => false
  | some s =>
    if f.inPreserveSpace h then false
    else if !isXmlWhitespace s then false
    else
      let before := match f.prevSibling h with
        | some p => (f.precedingSiblings p).any isSignificantText
        | none => false
      if before then false else
      let after := match f.nextSibling h with
        | some n => (f.followingSiblings n).any isSignificantText
        | none => false
      !after

mutual
  /-- `descendants(node)`: pre-order, the node itself included, normal nodes only. -/
  def descendantsNormal : HTree → List Nat
    | .node h v ks => (if v.isNormal then [h] else []) ++ descendantsNormalList ks
  def descendantsNormalList : List HTree → List Nat
    | [] => []
    | k :: ks => descendantsNormal k ++ descendantsNormalList ks
end

/-- `remove_insignificant_whitespace(node)`: collect, then `remove` one by one. -/
def removeInsignificantWhitespace (f : Forest) (node : Nat) : Forest :=
  match f.get? node with
  | none => f
  | some t =>
    let toRemove := (descendantsNormal t).filter f.isInsignificantWhitespace
    -- `xot.text_consolidation = false` around the loop (the field is set directly, so this is
    -- not a `set_text_consolidation` call and `everOff` does not change)
    let f0 := { f with consolidation := false }
    let f1 := toRemove.foldl (fun acc n => (acc.remove n).1) f0
    { f1 with consolidation := f.consolidation }

end Forest
end XotModel
