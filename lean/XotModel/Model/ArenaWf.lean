/-
  XotModel.Model.ArenaWf — the pointer invariant of the arena as an executable check
  (`Arena.wf : Bool`), evaluated by the driver after every call of every correspondence history
  and compared there with an independent validator written against the real crate's public
  accessors.  The propositional form used by the proofs is `Arena.Rep` (`Lemmas/ArenaShape.lean`).

  Well-formed means:
  * every stamp lies in `-32767 ..= 32767`; a slot is removed (negative stamp) iff its data is
    `NextFree`;
  * the free list threaded from `first_free_slot` through the `NextFree` links ends in
    `last_free_slot`, has no repetition and holds exactly the removed slots;
  * for every live slot: the children chain from `first_child` along `next_sibling` consists of
    live slots, referred to by their current id, each with this slot as `parent` and with
    `previous_sibling` = its predecessor in the chain, ends in `last_child`, has no repetition;
    a slot with a parent occurs in that parent's chain; a parentless slot has no siblings;
  * the `parent` chain from every live slot ends within `count` steps (no cycle).
  Pointers stored in removed slots are unconstrained (indextree leaves them stale).
-/
import XotModel.Model.Arena

namespace XotModel
namespace Arena

/-- The current id of slot `i`. -/
def idAt (a : Arena) (i : Nat) : NodeId :=
  ⟨i + 1, match a.nodes[i]? with | some s => s.stamp | none => 0⟩

/-- Slot `i` exists and is not removed. -/
def liveAt (a : Arena) (i : Nat) : Bool :=
  match a.nodes[i]? with
  | some s => !s.isRemoved
  | none => false

/-- `id` is the current id of a live slot. -/
def isLiveId (a : Arena) (id : NodeId) : Bool :=
  decide (1 ≤ id.index1) && a.liveAt id.index0 && decide (a.idAt id.index0 = id)

/-- The free list as slot indices, `none` when the threading is broken. -/
def freeWalk (a : Arena) : Nat → Option Nat → Option (List Nat)
  | 0, cur => if cur.isNone then some [] else none
  | fuel + 1, cur =>
    match cur with
    | none => some []
    | some i =>
      match a.nodes[i]? with
      | some s =>
        match s.data with
        | .nextFree nx => (freeWalk a fuel nx).map (i :: ·)
        | .data _ => none
      | none => none

/-- The children of a slot as slot indices, following `next_sibling` from `cur`; `none` when a
    link is not the current id of a live slot, a `parent` / `previous_sibling` back link is wrong,
    or the chain does not end. -/
def kidsWalk (a : Arena) (parent : NodeId) : Nat → Option NodeId → Option NodeId → Option (List Nat)
  | 0, _, cur => if cur.isNone then some [] else none
  | fuel + 1, prev, cur =>
    match cur with
    | none => some []
    | some id =>
      if a.isLiveId id then
        match a.nodes[id.index0]? with
        | some s =>
          if s.parent = some parent ∧ s.prev = prev then
            (kidsWalk a parent fuel (some id) s.next).map (id.index0 :: ·)
          else none
        | none => none
      else none

/-- Does the `parent` chain end? -/
def parentWalkEnds (a : Arena) : Nat → Option NodeId → Bool
  | 0, cur => cur.isNone
  | fuel + 1, cur =>
    match cur with
    | none => true
    | some id =>
      match a.nodes[id.index0]? with
      | some s => parentWalkEnds a fuel s.parent
      | none => false

def slotOk (s : Slot) : Bool :=
  decide (-32767 ≤ s.stamp) && decide (s.stamp ≤ 32767) &&
  (s.isRemoved == match s.data with | .nextFree _ => true | .data _ => false)

/-- The checks on live slot `i`. -/
def liveSlotOk (a : Arena) (i : Nat) (s : Slot) : Bool :=
  let me := a.idAt i
  (match kidsWalk a me a.nodes.length none s.first with
   | some ks => ks.Nodup && (s.last == (ks.getLast?.map a.idAt))
   | none => false) &&
  (match s.parent with
   | none => s.prev.isNone && s.next.isNone
   | some p =>
     a.isLiveId p &&
     (match a.nodes[p.index0]? with
      | some ps =>
        (match kidsWalk a p a.nodes.length none ps.first with
         | some ks => ks.contains i
         | none => false)
      | none => false)) &&
  parentWalkEnds a a.nodes.length s.parent

/-- The invariant, executable. -/
def wf (a : Arena) : Bool :=
  a.nodes.all slotOk &&
  (match freeWalk a a.nodes.length a.firstFree with
   | some fl =>
     fl.Nodup && (a.lastFree == fl.getLast?) &&
     (List.range a.nodes.length).all (fun i => a.liveAt i != fl.contains i)
   | none => false) &&
  (List.range a.nodes.length).all (fun i =>
    match a.nodes[i]? with
    | some s => s.isRemoved || liveSlotOk a i s
    | none => false)

end Arena
end XotModel
