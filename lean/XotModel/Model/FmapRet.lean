/-
  XotModel.Model.FmapRet — histories of C11 with the values the calls RETURN.

  `Ret` is what a call of the attribute / namespace view hands back to its caller: nothing, an
  `Option<V>` (the old value of `insert` / `remove`, the value behind a returned `&V` / `&mut V`),
  an `Option<Node>` (`get_node`, the node returned by `append_*_node` / `any_append`), a `bool`,
  or a key.  `MapOp2.ret f op` is the value the update `op` returns when run in the state `f`,
  obtained the way the Rust obtains it (nodemap/core.rs, nodemap/entry.rs).

  `MapCall` embeds `MapOp2` and adds the remaining calls of nodemap/entry.rs
  (`or_insert_with`, `OccupiedEntry::into_mut` / `get_mut` / `get`, `Entry::key` /
  `OccupiedEntry::key` / `VacantEntry::key`) and the reads `get` / `get_node` / `contains_key`
  as history steps.  `MapCall.run` yields the new forest, the outcome and the returned value;
  `MapCall.spec` / `MapCall.specRet` are the reference: the family of insertion-ordered maps and
  what the reference map returns.

  Node handles are identities of the forest, not of an ordered map: where a call returns a
  node, `specRet` says WHICH one in terms of a `NodeView` (which node carries a key, and the
  handle the next `new_*_node` hands out): "the node that carried the key, if the reference map
  has the key; otherwise the node passed in".  In `C11_histories_returns` the node view is that
  of the state the call starts in; Model/FmapNodes.lean makes it part of the reference state
  (`RefState`), so that the reference runs on its own (`C11_histories_reference`).
-/
import XotModel.Model.FmapSpec2

namespace XotModel
namespace Fmap
open Forest (MapKind entryKey mapChildren MapEntry)

/-- What a call hands back. -/
inductive Ret where
  /-- `()` -/
  | unit
  /-- `Option<V>`, or the value behind a returned reference (`some`) -/
  | value (p : Option Payload)
  /-- `Option<Node>`; the `Node` of a `Result<Node, _>` that is `Ok` -/
  | node (n : Option Nat)
  | bool (b : Bool)
  /-- a `&K` -/
  | key (k : Nat)
  deriving Repr, DecidableEq, Inhabited

/-- `get(key).cloned()`: `A::value` of the node `get_node(key)` finds. -/
def getP (f : Forest) (k : MapKind) (e key : Nat) : Option Payload :=
  (f.mapGetNode k e key).map (fun c => payloadOf c.value)

/-- `get_node(key)` as a handle. -/
def getN (f : Forest) (k : MapKind) (e key : Nat) : Option Nat :=
  (f.mapGetNode k e key).map (·.handle)

/-- `entry(key)` is `Occupied`. -/
def _root_.XotModel.Forest.MapEntry.isOccupied : MapEntry → Bool
  | .occupied _ => true
  | .vacant _ => false

/-- The value the update returns when run in `f`.

    * `insert`: `A::update(node_value, value)` = `Some(old)` for the node `get_node` found, `None`
      after making a new node; `remove`: `Some(A::value(node).clone())` / `None`.
    * `get_mut` + assignment is `m.get_mut(key).map(|x| std::mem::replace(x, new))`: the value
      behind the reference before the write.
    * `or_insert` / `or_default` / `and_modify(..).or_insert`: both arms end in
      `self.map.get_mut(self.key).unwrap()` on the map as it then is: the value stored under the
      key afterwards.  `and_modify` alone hands the entry back: occupied or not.
    * `entryInsert` = `match entry { Occupied(mut o) => Some(o.insert(v)), Vacant(va) =>
      { va.insert(v); None } }`; `occupiedInsert` = `if let Occupied(mut o) = entry
      { Some(o.insert(v)) } else { None }` (`o.insert` = `self.map.insert(key, v).unwrap()`);
      `vacantInsert` = `if let Vacant(va) = entry { Some(va.insert(v).clone()) } else { None }`;
      `entryRemove` = `if let Occupied(o) = entry { Some(o.remove()) } else { None }`.
    * `set_attribute` … `remove_namespace`, `clear`, `detach`, `remove`: `()`.
    * `append_*_node` / `any_append`: the `Node` in the `Ok`; when the node argument is
      `get_node(e2, key)` and that is `None`, nothing is called. -/
def MapOp2.ret (f : Forest) : MapOp2 → Ret
  | .insert k e v => .value (getP f k e (entryKey v))
  | .remove k e key => .value (getP f k e key)
  | .clear _ _ => .unit
  | .getMutSet k e key _ => .value (getP f k e key)
  | .entryOrInsert k e d => .value (getP (f.entryOrInsert k e d).1 k e (entryKey d))
  | .entryOrDefault e name => .value (getP (f.entryOrDefault e name).1 .attributes e name)
  | .entryAndModify k e key g => .bool (f.entryAndModify k e key (liftP k g)).2.2.isOccupied
  | .entryAndModifyOrInsert k e d g =>
    .value (getP (f.entryAndModifyOrInsert k e d (liftP k g)).1 k e (entryKey d))
  | .entryInsert k e v =>
    (match f.mapEntry k e (entryKey v) with
     | .occupied key => .value (getP f k e key)
     | .vacant _ => .value none)
  | .occupiedInsert k e v =>
    (match f.mapEntry k e (entryKey v) with
     | .occupied key => .value (getP f k e key)
     | .vacant _ => .value none)
  | .vacantInsert k e v =>
    (match f.mapEntry k e (entryKey v) with
     | .occupied _ => .value none
     | .vacant key => .value (getP (f.vacantInsert k e v).1 k e key))
  | .entryRemove k e key =>
    (match f.mapEntry k e key with
     | .occupied key => .value (getP f k e key)
     | .vacant _ => .value none)
  | .setAttribute _ _ _ | .removeAttribute _ _ | .setNamespace _ _ _ | .removeNamespace _ _ => .unit
  | .appendNewNode k e v => .node (some ((f.newNode v).1.appendEntryNode k e (f.newNode v).2).2.2)
  | .appendDetachedNode k e nd _ => .node (some (f.appendEntryNode k e nd).2.2)
  | .appendOwnNode k e key =>
    .node ((f.mapGetNode k e key).map fun n => (f.appendEntryNode k e n.handle).2.2)
  | .appendAttachedNode k e e2 key =>
    .node ((f.mapGetNode k e2 key).map fun n => (f.appendEntryNode k e n.handle).2.2)
  | .anyAppend e (.new v) => .node (some ((f.newNode v).1.anyAppend e (f.newNode v).2).2.2)
  | .anyAppend e (.detached nd _) => .node (some (f.anyAppend e nd).2.2)
  | .anyAppend e (.entry k e2 key) =>
    .node ((f.mapGetNode k e2 key).map fun n => (f.anyAppend e n.handle).2.2)
  | .detachEntryNode _ _ _ | .removeEntryNode _ _ _ => .unit

/-! ### The history type with every call of nodemap/entry.rs -/

/-- One call on a view of an element: an update of `MapOp2`, one of the remaining calls of the
    entry API, or a read. -/
inductive MapCall where
  | base (op : MapOp2)
  /-- `…_mut(e).entry(key).or_insert_with(call)`; returns the `&mut V` -/
  | entryOrInsertWith (k : MapKind) (e key : Nat) (call : Unit → Value)
  /-- `if let Occupied(o) = …_mut(e).entry(key) { Some(std::mem::replace(o.into_mut(), new)) }
      else { None }` -/
  | occupiedIntoMutSet (k : MapKind) (e key : Nat) (new : Value)
  /-- the same through `OccupiedEntry::get_mut` (`if let Occupied(mut o) = …`) -/
  | occupiedGetMutSet (k : MapKind) (e key : Nat) (new : Value)
  /-- `*…_mut(e).entry(key).key()` (`Entry::key`, i.e. `OccupiedEntry::key` / `VacantEntry::key`) -/
  | peekKey (k : MapKind) (e key : Nat)
  /-- `if let Occupied(o) = …_mut(e).entry(key) { Some(o.get().clone()) } else { None }` -/
  | occupiedGet (k : MapKind) (e key : Nat)
  /-- `attributes(e).get(key).cloned()` / `namespaces(e).get(key).copied()` (read-only view) -/
  | get (k : MapKind) (e key : Nat)
  /-- `….get_node(key)` -/
  | getNode (k : MapKind) (e key : Nat)
  /-- `….contains_key(key)` -/
  | containsKey (k : MapKind) (e key : Nat)
  deriving Inhabited

/-- The side conditions of a call in the state `f` (the mutable view needs an element; the reads
    of the read-only view need nothing). -/
def MapCall.ok (f : Forest) : MapCall → Bool
  | .base op => op.ok f
  | .entryOrInsertWith k e key call =>
    f.isElement e && k.matches (call ()) && (entryKey (call ()) == key)
  | .occupiedIntoMutSet k e _ new | .occupiedGetMutSet k e _ new => f.isElement e && k.matches new
  | .peekKey _ e _ | .occupiedGet _ e _ => f.isElement e
  | .get _ _ _ | .getNode _ _ _ | .containsKey _ _ _ => true

/-- `if let Occupied(o) = entry(key) { Some(o.get().clone()) } else { None }`:
    `OccupiedEntry::get` is `self.map.get(self.key).unwrap()`. -/
def occupiedGetRun (f : Forest) (k : MapKind) (e key : Nat) : Forest × Res × Ret :=
  if !f.isElement e then (f, .panic, .unit) else
  match f.mapEntry k e key with
  | .occupied key' =>
    (match f.mapGet k e key' with
     | some v => (f, .ok, .value (some (payloadOf v)))
     | none => (f, .panic, .unit))
  | .vacant _ => (f, .ok, .value none)

/-- `*entry(key).key()`. -/
def peekKeyRun (f : Forest) (k : MapKind) (e key : Nat) : Forest × Res × Ret :=
  if !f.isElement e then (f, .panic, .unit) else
  match f.mapEntry k e key with
  | .occupied key' => (f, .ok, .key key')
  | .vacant key' => (f, .ok, .key key')

/-- The model's step: new forest, outcome, returned value. -/
def MapCall.run (f : Forest) : MapCall → Forest × Res × Ret
  | .base op => ((op.run f).1, (op.run f).2, op.ret f)
  | .entryOrInsertWith k e key call =>
    let r := f.entryOrInsertWith k e key call
    (r.1, r.2.1, .value (getP r.1 k e key))
  | .occupiedIntoMutSet k e key new | .occupiedGetMutSet k e key new =>
    let r := f.occupiedIntoMutSet k e key new
    (r.1, r.2.1, .value (if r.2.2 then getP f k e key else none))
  | .peekKey k e key => peekKeyRun f k e key
  | .occupiedGet k e key => occupiedGetRun f k e key
  | .get k e key => (f, .ok, .value (getP f k e key))
  | .getNode k e key => (f, .ok, .node (getN f k e key))
  | .containsKey k e key => (f, .ok, .bool (f.mapGetNode k e key).isSome)

/-! ### The reference -/

/-- The reference family after the call. -/
def MapCall.spec (F : Fam) : MapCall → Fam
  | .base op => specStep F op
  | .entryOrInsertWith k e _ call => F.upd e k (opOrInsert (call ()))
  | .occupiedIntoMutSet k e key new | .occupiedGetMutSet k e key new =>
    F.upd e k (fun m => omModify m key (fun _ => payloadOf new))
  | .peekKey _ _ _ | .occupiedGet _ _ _ | .get _ _ _ | .getNode _ _ _ | .containsKey _ _ _ => F

/-- What the reference side is told about node identities (they are the forest's, an ordered map
    has none): which node carries a key in the state the call starts in (`get_node`), and the
    handle the next `new_*_node` hands out. -/
structure NodeView where
  nodeOf : Nat → MapKind → Nat → Option Nat
  fresh : Nat

def nodeView (f : Forest) : NodeView := ⟨fun e k key => getN f k e key, f.next⟩

/-- The node an ordered map with node-carried entries returns for `insert_node`: the carrier of
    the key if the map has the key (that node takes the value and stays), else the node given. -/
def carrier (F : Fam) (V : NodeView) (k : MapKind) (e key given : Nat) : Option Nat :=
  if omContainsKey (F e k) key then V.nodeOf e k key else some given

/-- `append_*_node(e, get_node(e2, key))`: nothing without such a node; the node itself when it
    is `e`'s own; otherwise the carrier in `e`, or the node of `e2`, which moves. -/
def carrierOf (F : Fam) (V : NodeView) (k : MapKind) (e e2 key : Nat) : Option Nat :=
  if e2 = e then V.nodeOf e k key else
  match omGet (F e2 k) key with
  | none => none
  | some _ => if omContainsKey (F e k) key then V.nodeOf e k key else V.nodeOf e2 k key

/-- What the reference returns for an update of `MapOp2`, in the family `F`.  A returned
    `&mut V` is the value the reference map stores under the key after the update. -/
def specRet2 (F : Fam) (V : NodeView) : MapOp2 → Ret
  | .insert k e v | .entryInsert k e v | .occupiedInsert k e v => .value (omGet (F e k) (entryKey v))
  | .remove k e key | .entryRemove k e key | .getMutSet k e key _ => .value (omGet (F e k) key)
  | .clear _ _ | .setAttribute _ _ _ | .removeAttribute _ _ | .setNamespace _ _ _
  | .removeNamespace _ _ | .detachEntryNode _ _ _ | .removeEntryNode _ _ _ => .unit
  | .entryOrInsert k e d => .value (omGet (opOrInsert d (F e k)) (entryKey d))
  | .entryOrDefault e name =>
    .value (omGet (opOrInsert (.attribute name []) (F e .attributes)) name)
  | .entryAndModify k e key _ => .bool (omContainsKey (F e k) key)
  | .entryAndModifyOrInsert k e d g => .value (omGet (opModifyOrInsert k d g (F e k)) (entryKey d))
  | .vacantInsert k e v =>
    .value (if omContainsKey (F e k) (entryKey v) then none else some (payloadOf v))
  | .appendNewNode k e v => .node (carrier F V k e (entryKey v) V.fresh)
  | .appendDetachedNode k e nd v => .node (carrier F V k e (entryKey v) nd)
  | .appendOwnNode k e key => .node (V.nodeOf e k key)
  | .appendAttachedNode k e e2 key => .node (carrierOf F V k e e2 key)
  | .anyAppend e (.new v) =>
    (match kindOf? v with
     | some k => .node (carrier F V k e (entryKey v) V.fresh)
     | none => .unit)
  | .anyAppend e (.detached nd v) =>
    (match kindOf? v with
     | some k => .node (carrier F V k e (entryKey v) nd)
     | none => .unit)
  | .anyAppend e (.entry k e2 key) => .node (carrierOf F V k e e2 key)

/-- What the reference returns for a call. -/
def MapCall.specRet (F : Fam) (V : NodeView) : MapCall → Ret
  | .base op => specRet2 F V op
  | .entryOrInsertWith k e key call => .value (omGet (opOrInsert (call ()) (F e k)) key)
  | .occupiedIntoMutSet k e key _ | .occupiedGetMutSet k e key _ | .occupiedGet k e key
  | .get k e key => .value (omGet (F e k) key)
  | .peekKey _ _ key => .key key
  | .getNode k e key => .node (V.nodeOf e k key)
  | .containsKey k e key => .bool (omContainsKey (F e k) key)

/-! ### Histories -/

/-- Run a history: the final state, (outcome, returned value) of every step, and whether every
    step's side conditions held in the state it started from. -/
def runCalls : Forest → List MapCall → Forest × List (Res × Ret) × Bool
  | f, [] => (f, [], true)
  | f, c :: cs =>
    let r := c.run f
    let rest := runCalls r.1 cs
    (rest.1, (r.2.1, r.2.2) :: rest.2.1, c.ok f && rest.2.2)

/-- The states a history goes through (the start state first). -/
def traceCalls : Forest → List MapCall → List Forest
  | f, [] => [f]
  | f, c :: cs => f :: traceCalls (c.run f).1 cs

/-- The reference family after a history. -/
def specCalls (F : Fam) (cs : List MapCall) : Fam := cs.foldl MapCall.spec F

/-- What the reference returns along a history: the family evolves by `MapCall.spec`; the node
    view is that of the state each step starts in. -/
def specRets : Forest → Fam → List MapCall → List Ret
  | _, _, [] => []
  | f, F, c :: cs => c.specRet F (nodeView f) :: specRets (c.run f).1 (c.spec F) cs

end Fmap
end XotModel
