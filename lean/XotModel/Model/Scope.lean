/-
  XotModel.Model.Scope — namespace scope queries of `nameaccess.rs`, as written.

  A node is a tree plus a path; `Tree.ancestorsOrSelf` gives `xot.ancestors(node)` (the node
  itself first).  The queries are defined on that chain, then lifted to `Tree × Path`:

    is_prefix_defined, namespace_for_prefix, namespace_prefix / prefix_for_namespace (seen set;
    a repeated prefix is skipped; `non_empty` passes over the empty prefix), prefix_for_name
    (attribute node: non-empty prefix only; own no-namespace element name refused under a default
    namespace), full_name, name_ref / RefName::from_node, node_name,
    node_name_ref, unresolved_namespaces (FullnameSerializer stack starting EMPTY; a name is
    unresolved when `element_prefix` / `attribute_prefix` fails), inherited_prefixes,
    deduplicate_namespaces (as of /repo d434a2d: passes of `deduplicate_namespaces_pass` — traverse
    with the stack of kept declarations, `is_redundant_declaration`, `to_remove`, removal of
    namespace nodes — until a pass removes nothing).

  `namespaces_in_scope` / `namespace_traverse` itself lives in `Model/Names.lean`.
  The specification `scopeSpec` (nearest declaration wins) is at the end.
-/
import XotModel.Model.Names

namespace XotModel

/-- `NodeMap::contains_key` on the `(prefix, namespace)` view. -/
def containsKey (d : List (Nat × Nat)) (p : Nat) : Bool := d.any (fun kv => kv.1 == p)

/-! ### Queries over the ancestor-or-self chain (nearest first) -/

/-- `is_prefix_defined`: some ancestor-or-self declares the prefix (whatever it binds it to,
    `xmlns=""` included), or it is a base prefix. -/
def isPrefixDefinedChain : List Tree → Nat → Bool
  | [], p => containsKey basePrefixes p
  | a :: rest, p => if containsKey a.nsDecls p then true else isPrefixDefinedChain rest p

/-- `namespace_for_prefix`: first ancestor-or-self with a declaration of the prefix decides;
    only `xmlns=""` (the EMPTY prefix bound to the no-namespace id) gives `None`; then the base
    prefixes. -/
def namespaceForPrefixChain : List Tree → Nat → Option Nat
  | [], p => basePrefixes.lookup p
  | a :: rest, p =>
    match a.getNamespace p with
    | some ns => if ns == Env.noNamespace && p == Env.emptyPrefix then none else some ns
    | none => namespaceForPrefixChain rest p

/-- Outcome of one inner `for (key, value) in …` loop of `namespace_prefix`:
    the function returned, or the loop ran to its end with this `seen` set. -/
inductive PfnStep where
  | ret (r : Option Nat)
  | cont (seen : List Nat)
  deriving Repr, DecidableEq

/-- Inner loop of `namespace_prefix` over one declaration list: a prefix seen before is
    shadowed and skipped (`if !seen.insert(key) { continue; }`), otherwise it is recorded;
    `if non_empty && key == self.empty_prefix() { continue; }`; then
    `value == namespace → return Some(key)`. -/
def pfnDecls (ns : Nat) (nonEmpty : Bool) : List Nat → List (Nat × Nat) → PfnStep
  | seen, [] => .cont seen
  | seen, (k, v) :: rest =>
    if seen.contains k then pfnDecls ns nonEmpty seen rest
    else if nonEmpty && k == Env.emptyPrefix then pfnDecls ns nonEmpty (k :: seen) rest
    else if v == ns then .ret (some k)
    else pfnDecls ns nonEmpty (k :: seen) rest

/-- `namespace_prefix`: ancestors, then the base prefixes, then `None`. -/
def pfnChain (ns : Nat) (nonEmpty : Bool) : List Nat → List Tree → Option Nat
  | seen, [] =>
    match pfnDecls ns nonEmpty seen basePrefixes with
    | .ret r => r
    | .cont _ => none
  | seen, a :: rest =>
    match pfnDecls ns nonEmpty seen a.nsDecls with
    | .ret r => r
    | .cont seen' => pfnChain ns nonEmpty seen' rest

/-- `namespace_prefix(node, namespace, non_empty)` (private): a prefix for the namespace in node
    or ancestors; with `non_empty` the empty prefix is passed over (but still recorded as seen). -/
def namespacePrefixChain (chain : List Tree) (ns : Nat) (nonEmpty : Bool) : Option Nat :=
  pfnChain ns nonEmpty [] chain

/-- `prefix_for_namespace(node, namespace)` = `namespace_prefix(node, namespace, false)`. -/
def prefixForNamespaceChain (chain : List Tree) (ns : Nat) : Option Nat :=
  namespacePrefixChain chain ns false

def valueIsAttribute : Value → Bool
  | .attribute _ _ => true
  | _ => false

def valueElementName : Value → Option Nat
  | .element n => some n
  | _ => none

/-- `is_attribute_node(node)`; the node is the head of its ancestor-or-self chain. -/
def isAttributeNodeChain (chain : List Tree) : Bool :=
  (chain.head?.map (fun t => valueIsAttribute t.value)).getD false

/-- `self.element(node).map(|e| e.name())`. -/
def elementNameChain (chain : List Tree) : Option Nat :=
  chain.head?.bind (fun t => valueElementName t.value)

/-- `prefix_for_name(node, name)` (crate-private): the prefix to write `name` with in the scope of
    `node`.  A name in no namespace gets the empty prefix, except that the node's OWN ELEMENT name
    is refused (`MissingPrefix("")`) where `namespace_for_prefix(node, empty_prefix)` is `Some(_)`;
    a name in a namespace gets `namespace_prefix(node, namespace, is_attribute_node(node))`. -/
def prefixForNameChain (env : Env) (chain : List Tree) (name : Nat) : Except XotError Nat :=
  let ns := env.nsOfName name
  let isAttribute := isAttributeNodeChain chain
  if ns == Env.noNamespace then
    let isOwnElementName := elementNameChain chain == some name
    if isOwnElementName && (namespaceForPrefixChain chain Env.emptyPrefix).isSome then
      .error (.missingPrefix Env.noNamespace)
    else .ok Env.emptyPrefix
  else match namespacePrefixChain chain ns isAttribute with
    | some p => .ok p
    | none => .error (.missingPrefix ns)

/-- `full_name(node, name)`. -/
def fullNameChain (env : Env) (chain : List Tree) (name : Nat) : Except XotError Str :=
  let loc := env.localName name
  match prefixForNameChain env chain name with
  | .error e => .error e
  | .ok p =>
    let ps := env.prefixStr p
    if !ps.isEmpty then .ok (ps ++ [':'] ++ loc) else .ok loc

/-- `name_ref(name, context)` = `RefName::from_node`: the `prefix_id` stored in the `RefName`
    (`let prefix_id = xot.prefix_for_name(node, name_id)?;`). -/
def nameRefChain (env : Env) (chain : List Tree) (name : Nat) : Except XotError Nat :=
  prefixForNameChain env chain name

/-- `node_name`. -/
def nodeName : Value → Option Nat
  | .element n => some n
  | .pi target _ => some target
  | .attribute n _ => some n
  | _ => none

/-- `node_name_ref`: `Ok(None)`, `Ok(Some(name, prefix))` or the error of `name_ref`. -/
def nodeNameRefChain (env : Env) (chain : List Tree) : Except XotError (Option (Nat × Nat)) :=
  match chain.head? with
  | none => .ok none
  | some t =>
    match nodeName t.value with
    | none => .ok none
    | some name =>
      match nameRefChain env chain name with
      | .ok p => .ok (some (name, p))
      | .error e => .error e

/-! ### `xot.traverse(node)`: indextree's edge stream filtered by `normal_edge_filter` -/

/-- `NodeEdge`, carrying the absolute path of the node and its subtree. -/
inductive ScopeEdge where
  | start (path : Path) (t : Tree)
  | stop (path : Path) (t : Tree)
  deriving Repr

/-- `traverse`: Start, children in raw order, End; the filter looks at each edge's own node,
    so a non-normal node loses its two edges and nothing else. -/
def scopeTraverse (pre : Path) : Tree → List ScopeEdge
  | .node v ks =>
    if v.isNormal then
      .start pre (.node v ks) :: (go pre 0 ks ++ [.stop pre (.node v ks)])
    else go pre 0 ks
where
  go (pre : Path) (i : Nat) : List Tree → List ScopeEdge
    | [] => []
    | k :: ks => scopeTraverse (pre ++ [i]) k ++ go pre (i + 1) ks

/-- `has_namespace_declarations`. -/
def hasNamespaceDeclarations (t : Tree) : Bool := !t.nsDecls.isEmpty

/-! ### `unresolved_namespaces` -/

def exceptIsOk {ε α : Type} : Except ε α → Bool
  | .ok _ => true
  | .error _ => false

structure UnresolvedState where
  fs : FStack
  out : List Nat
  deriving Repr

def unresolvedStep (env : Env) (st : UnresolvedState) : ScopeEdge → UnresolvedState
  | .start _ t =>
    match t.value with
    | .element name =>
      let fs := st.fs.push t.nsDecls
      let out := if !exceptIsOk (fs.elementPrefix env name) then st.out ++ [env.nsOfName name] else st.out
      let out := (t.attrs.map (·.1)).foldl (fun out n =>
        if !exceptIsOk (fs.attributePrefix env n) then out ++ [env.nsOfName n] else out) out
      { fs := fs, out := out }
    | _ => st
  | .stop _ t =>
    if t.value.isElement then { st with fs := st.fs.pop (hasNamespaceDeclarations t) } else st

/-- `unresolved_namespaces(node)` for the subtree `sub` (the stack starts as `[[]]`:
    `FullnameSerializer::new(self, vec![])`; the XML namespace needs no binding). -/
def unresolvedNamespacesSub (env : Env) (sub : Tree) : List Nat :=
  ((scopeTraverse [] sub).foldl (unresolvedStep env) { fs := FStack.new [], out := [] }).out

/-! ### Whether `to_string(node)` finds a prefix for every name (xml_serializer.rs) -/

structure WritableState where
  fs : FStack
  ok : Bool
  deriving Repr

/-- `XmlSerializer::render_output` restricted to what can fail with `MissingPrefix`:
    `StartTagOpen` pushes the declarations and needs `element_fullname`, every `Attribute`
    needs `attribute_fullname`, `EndTag` pops. -/
def writableStep (env : Env) (st : WritableState) : ScopeEdge → WritableState
  | .start _ t =>
    match t.value with
    | .element name =>
      let fs := st.fs.push t.nsDecls
      -- a no-namespace element in the scope of a default namespace is refused (`MissingPrefix("")`)
      let okE := !(env.nsOfName name == Env.noNamespace && fs.hasDefaultNamespace) &&
        exceptIsOk (fs.elementFullname env name)
      let okA := (t.attrs.map (·.1)).all (fun n => exceptIsOk (fs.attributeFullname env n))
      { fs := fs, ok := st.ok && okE && okA }
    | _ => st
  | .stop _ t =>
    if t.value.isElement then { st with fs := st.fs.pop (hasNamespaceDeclarations t) } else st

/-- The serialiser's name stack starts from `namespaces_in_scope(node)` (`XmlSerializer::new`). -/
def namesWritableChain (env : Env) (chain : List Tree) (sub : Tree) : Bool :=
  ((scopeTraverse [] sub).foldl (writableStep env)
    { fs := FStack.new (namespacesInScopeChain chain), ok := true }).ok

/-! ### Lifting to `Tree × Path` -/

/-- `to_string(node)` does not fail with `MissingPrefix`. -/
def namesWritable (env : Env) (t : Tree) (path : Path) : Option Bool :=
  match t.ancestorsOrSelf path, t.at? path with
  | some chain, some sub => some (namesWritableChain env chain sub)
  | _, _ => none


def isPrefixDefined (t : Tree) (path : Path) (p : Nat) : Option Bool :=
  (t.ancestorsOrSelf path).map (isPrefixDefinedChain · p)

def namespaceForPrefix (t : Tree) (path : Path) (p : Nat) : Option (Option Nat) :=
  (t.ancestorsOrSelf path).map (namespaceForPrefixChain · p)

def namespacePrefix (t : Tree) (path : Path) (ns : Nat) (nonEmpty : Bool) : Option (Option Nat) :=
  (t.ancestorsOrSelf path).map (namespacePrefixChain · ns nonEmpty)

def prefixForNamespace (t : Tree) (path : Path) (ns : Nat) : Option (Option Nat) :=
  (t.ancestorsOrSelf path).map (prefixForNamespaceChain · ns)

def prefixForName (env : Env) (t : Tree) (path : Path) (name : Nat) : Option (Except XotError Nat) :=
  (t.ancestorsOrSelf path).map (prefixForNameChain env · name)

def fullName (env : Env) (t : Tree) (path : Path) (name : Nat) : Option (Except XotError Str) :=
  (t.ancestorsOrSelf path).map (fullNameChain env · name)

def nameRef (env : Env) (t : Tree) (path : Path) (name : Nat) : Option (Except XotError Nat) :=
  (t.ancestorsOrSelf path).map (nameRefChain env · name)

def nodeNameRef (env : Env) (t : Tree) (path : Path) : Option (Except XotError (Option (Nat × Nat))) :=
  (t.ancestorsOrSelf path).map (nodeNameRefChain env)

def unresolvedNamespaces (env : Env) (t : Tree) (path : Path) : Option (List Nat) :=
  (t.at? path).map (unresolvedNamespacesSub env)

/-- `inherited_prefixes`: the parent's in-scope bindings (none for a parentless node) whose
    namespace is among `unresolved_namespaces(node)`.  The Rust result is a hash map; its
    entries are listed here in `namespaces_in_scope` order. -/
def inheritedPrefixes (env : Env) (t : Tree) (path : Path) : Option (List (Nat × Nat)) :=
  match t.at? path with
  | none => none
  | some sub =>
    let prefixes : List (Nat × Nat) :=
      if path.isEmpty then [] else (namespacesInScope t path.dropLast).getD []
    let unresolved := unresolvedNamespacesSub env sub
    some (prefixes.filter (fun kv => unresolved.contains kv.2))

/-! ### `deduplicate_namespaces` (as of /repo d434a2d: passes until nothing is redundant) -/

mutual
/-- `descendants(node).any(f)`: all arena descendants, the node itself first, that are normal nodes. -/
def Tree.anyNormal (f : Tree → Bool) : Tree → Bool
  | .node v ks => (v.isNormal && f (.node v ks)) || Tree.anyNormalList f ks
def Tree.anyNormalList (f : Tree → Bool) : List Tree → Bool
  | [] => false
  | k :: ks => Tree.anyNormal f k || Tree.anyNormalList f ks
end

/-- `is_prefix_rebound(node, prefix, namespace)`: is the prefix declared for another namespace on
    the node or a descendant? -/
def isPrefixRebound (pfx ns : Nat) (node : Tree) : Bool :=
  node.anyNormal fun d => d.nsDecls.any fun kv => kv.1 == pfx && kv.2 != ns

/-- `has_attribute_in_namespace(node, namespace)`. -/
def hasAttributeInNamespace (env : Env) (ns : Nat) (node : Tree) : Bool :=
  node.anyNormal fun d => d.attrs.any fun kv => env.nsOfName kv.1 == ns

/-- The inner loop of `is_redundant_declaration` over the declarations kept on one open element:
    the extended `seen` list and whether the function returned `true`. -/
def redundantScan (env : Env) (node : Tree) (pfx ns : Nat) : List Nat → List (Nat × Nat) → List Nat × Bool
  | seen, [] => (seen, false)
  | seen, (kp, kn) :: rest =>
    -- only the nearest declaration of a prefix counts
    if seen.contains kp then redundantScan env node pfx ns seen rest
    else
      let seen := seen ++ [kp]
      if kn != ns then redundantScan env node pfx ns seen rest
      else if kp == pfx then (seen, true)
      else if isPrefixRebound kp ns node then redundantScan env node pfx ns seen rest
      else if kp == Env.emptyPrefix && hasAttributeInNamespace env ns node then
        redundantScan env node pfx ns seen rest
      else (seen, true)

/-- The outer loop (`kept_stack.iter().rev()`): the stack is given innermost element first. -/
def redundantStack (env : Env) (node : Tree) (pfx ns : Nat) : List Nat → List (List (Nat × Nat)) → Bool
  | _, [] => false
  | seen, d :: rest =>
    let r := redundantScan env node pfx ns seen d
    r.2 || redundantStack env node pfx ns r.1 rest

/-- `is_redundant_declaration(node, prefix, namespace, kept_stack)`; `keptStack` innermost first. -/
def isRedundantDeclaration (env : Env) (node : Tree) (keptStack : List (List (Nat × Nat)))
    (kv : Nat × Nat) : Bool :=
  -- an undeclaration (xmlns="") is never redundant
  if kv.2 == Env.noNamespace then false
  else redundantStack env node kv.1 kv.2 [] keptStack

structure DedupState where
  /-- `kept_stack`, innermost open element first -/
  kept : List (List (Nat × Nat))
  /-- `to_remove`: (node, prefix) -/
  toRemove : List (Path × Nat)
  deriving Repr

/-- One iteration of the traversal loop of `deduplicate_namespaces_pass`. -/
def dedupStep (env : Env) (st : DedupState) : ScopeEdge → DedupState
  | .start path t =>
    if t.value.isElement then
      { kept := t.nsDecls.filter (fun kv => !isRedundantDeclaration env t st.kept kv) :: st.kept,
        toRemove := st.toRemove ++
          (t.nsDecls.filter (isRedundantDeclaration env t st.kept)).map (fun kv => (path, kv.1)) }
    else st
  | .stop _ t =>
    if t.value.isElement then { st with kept := st.kept.tail } else st

/-- `MutableNamespaces::remove(prefix)` on a child list: the first namespace node (within the
    leading run of namespace nodes) with that key is removed with its subtree. -/
def removeNsKid (pfx : Nat) : List Tree → List Tree
  | [] => []
  | k :: ks =>
    match k.value with
    | .namespace p _ => if p == pfx then ks else k :: removeNsKid pfx ks
    | _ => k :: ks

def removeNsKidsOf (pfx : Nat) : Tree → Tree
  | .node v ks => .node v (removeNsKid pfx ks)

/-- Apply `f` to the subtree at `path` (identity if the path does not exist). -/
def scopeModifyAt (f : Tree → Tree) : Tree → Path → Tree
  | t, [] => f t
  | .node v ks, i :: p => .node v (ks.modify i (fun k => scopeModifyAt f k p))

/-- Third loop body: `namespaces_mut(node).remove(prefix)` for each prefix. -/
def removeNamespacesAt (t : Tree) (path : Path) (pfxs : List Nat) : Tree :=
  pfxs.foldl (fun t pfx => scopeModifyAt (removeNsKidsOf pfx) t path) t

def applyFixups (t : Tree) (fixupPrefixes : List (Path × List Nat)) : Tree :=
  fixupPrefixes.foldl (fun t fp => removeNamespacesAt t fp.1 fp.2) t

/-- `to_remove` of one pass started at `path` (subtree `sub`). -/
def dedupToRemove (env : Env) (path : Path) (sub : Tree) : List (Path × Nat) :=
  ((scopeTraverse path sub).foldl (dedupStep env) { kept := [], toRemove := [] }).toRemove

/-- `deduplicate_namespaces_pass(node)`: the tree afterwards and whether anything was removed.
    The Rust removes in traversal order through node handles; here nodes are PATHS of raw child
    indices, which a removal on an ancestor shifts, so the removals are carried out last first
    (an element comes before its descendants in `to_remove`; removals on different nodes commute). -/
def dedupPass (env : Env) (t : Tree) (path : Path) (sub : Tree) : Tree × Bool :=
  let toRemove := dedupToRemove env path sub
  (applyFixups t (toRemove.reverse.map fun r => (r.1, [r.2])), !toRemove.isEmpty)

/-- `while self.deduplicate_namespaces_pass(node) {}`; every pass that reports a removal has removed a
    namespace node, so `t.size + 1` rounds suffice (`dedupLoop_fuel_suffices`). -/
def dedupLoop (env : Env) (path : Path) : Nat → Tree → Tree
  | 0, t => t
  | fuel + 1, t =>
    match t.at? path with
    | none => t
    | some sub =>
      let r := dedupPass env t path sub
      if r.2 then dedupLoop env path fuel r.1 else r.1

/-- `deduplicate_namespaces(node)`; `none` only if the path does not exist. -/
def deduplicateNamespaces (env : Env) (t : Tree) (path : Path) : Option Tree :=
  match t.at? path with
  | none => none
  | some _ => some (dedupLoop env path (t.size + 1) t)

/-! ### Specification: nearest declaration wins -/

/-- The binding of prefix `p` seen from a node whose ancestor-or-self chain (nearest first) is
    given: the nearest element declaring `p` decides; `xmlns=""` (empty prefix bound to the
    no-namespace id) removes the default binding; above the root only `xml` is bound. -/
def scopeSpecChain : List Tree → Nat → Option Nat
  | [], p => if p == Env.xmlPrefix then some Env.xmlNamespace else none
  | a :: rest, p =>
    match a.nsDecls.lookup p with
    | some ns => if p == Env.emptyPrefix && ns == Env.noNamespace then none else some ns
    | none => scopeSpecChain rest p

def scopeSpec (t : Tree) (path : Path) (p : Nat) : Option Nat :=
  match t.ancestorsOrSelf path with
  | some chain => scopeSpecChain chain p
  | none => none

/-- Resolution of a reported prefix by the XML-Namespaces rule for the kind of name:
    an unprefixed element name takes the default namespace (or none), an unprefixed attribute
    name is in no namespace, a prefixed name takes the binding of its prefix. -/
def resolveQName (chain : List Tree) (isAttribute : Bool) (pfx : Nat) : Option Nat :=
  if pfx == Env.emptyPrefix then
    if isAttribute then some Env.noNamespace
    else some ((scopeSpecChain chain Env.emptyPrefix).getD Env.noNamespace)
  else scopeSpecChain chain pfx

end XotModel
