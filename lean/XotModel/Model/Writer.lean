/-
  XotModel.Model.Writer — a `std::io::Write` target that can fail.

  The Write-based entry points (`Xot::write`, `serialize_xml_write(_with_normalizer)`,
  `Html5::serialize_write(_with_normalizer)`) touch their writer only through `w.write_all(bytes)?`:
  a call is either accepted (the serialisation goes on) or answered `Err(io::Error)`, which `?` turns
  into `Err(Error::Io(..))` (`From<io::Error> for Error`) — the serialisation ends there.  Nothing
  else of the writer is observed, so a (deterministic) writer is, for these functions, the decision
  it takes at each call given the calls it has accepted so far:

  * `WriterPolicy`            : history of accepted calls → the bytes offered → `none` (accepted, all of
                                them) | `some k` (refused; `k` characters of this call got through before
                                the error — `0` for a writer that refuses the call as a whole).
  * `WriterPolicy.budget b`   : the harness's `FailingWriter { fail_at_call }`: `b = some k` accepts `k`
                                `write_all` calls and refuses every later one with nothing written;
                                `none` = `Vec<u8>` (never fails).
  * `writeCalls P hist cs`    : `w.write_all(c)?` for each `c` of `cs`, in order.
  * `writeLoopW P step`       : a `for item in items { … }` loop whose body makes the `write_all` calls
                                `(step s item).1` in order (each one `?`-propagated) and then continues
                                with the new state, returns `Err(e)` or panics as `(step s item).2` says.
  * `callsLoop step`          : the same loop in front of a writer that accepts everything: the calls it
                                makes, in order, and how it ends; `replayCalls P hist` replays such a trace
                                against a writer (`Lemmas/Writer.lean`: `writeLoopW = replayCalls ∘ callsLoop`).
  The result of a threaded function is `(bytes the writer accepted, outcome)`.
-/
import XotModel.Model.OutputTypes

namespace XotModel

/-- What the writer answers to `write_all(bytes)` after having accepted the calls `hist` (in order). -/
abbrev WriterPolicy := List Str → Str → Option Nat

/-- `Vec<u8>`, or any writer that never fails. -/
def WriterPolicy.unlimited : WriterPolicy := fun _ _ => none

/-- harness `FailingWriter { fail_at_call: k }`: the first `k` calls are accepted, every later one is
    refused with nothing written; `none`: no limit. -/
def WriterPolicy.budget : Option Nat → WriterPolicy
  | none => WriterPolicy.unlimited
  | some k => fun hist _ => if hist.length < k then none else some 0

/-- `w.write_all(c)?` for every `c` of `cs` in order: the history after the last call, or the bytes the
    writer holds when a call is refused. -/
def writeCalls (P : WriterPolicy) : List Str → List Str → Except Str (List Str)
  | hist, [] => .ok hist
  | hist, c :: cs =>
    match P hist c with
    | none => writeCalls P (hist ++ [c]) cs
    | some k => .error (hist.flatten ++ c.take k)

/-- A trace (the calls a function makes in front of a never-failing writer, and how it ends) replayed
    against the writer `P`: `Io` at the first refused call, else the trace's own end. -/
def replayCalls (P : WriterPolicy) (hist : List Str) (tr : List Str × Outcome XotError Unit) :
    Str × Outcome XotError Unit :=
  match writeCalls P hist tr.1 with
  | .ok h => (h.flatten, tr.2)
  | .error b => (b, .err .io)

/-- `for a in items { body }`, threaded through the writer: the body's `write_all` calls `(step s a).1`
    (each `?`-propagated: the first refusal ends the function with `Error::Io`), then its outcome. -/
def writeLoopW {σ α : Type} (P : WriterPolicy) (step : σ → α → List Str × Outcome XotError σ) :
    List Str → σ → List α → Str × Outcome XotError Unit
  | hist, _, [] => (hist.flatten, .ok ())
  | hist, s, a :: rest =>
    match writeCalls P hist (step s a).1 with
    | .error b => (b, .err .io)
    | .ok hist' =>
      match (step s a).2 with
      | .ok s' => writeLoopW P step hist' s' rest
      | .err e => (hist'.flatten, .err e)
      | .panic => (hist'.flatten, .panic)

/-- The same loop's trace: the calls it makes when none is refused, and how it ends. -/
def callsLoop {σ α : Type} (step : σ → α → List Str × Outcome XotError σ) :
    σ → List α → List Str × Outcome XotError Unit
  | _, [] => ([], .ok ())
  | s, a :: rest =>
    match (step s a).2 with
    | .ok s' => ((step s a).1 ++ (callsLoop step s' rest).1, (callsLoop step s' rest).2)
    | .err e => ((step s a).1, .err e)
    | .panic => ((step s a).1, .panic)

end XotModel
