/-
  XotModel.Model.Axes — access.rs / levelorder.rs: navigation, axes and traversals, AS WRITTEN.

  A node of a tree `t` is named by its `Path` (raw child indices from the root of `t`; the root
  of `t` is the root of the arena tree, i.e. it has no parent and no siblings).

  Two layers:
  * indextree's arena links and iterators, modelled BY CONTRACT as the obvious functions on
    paths (`parent`, `internal*` links, `allChildren`, `ancestors`, `arenaDescendants`,
    `arenaTraverse`, `arena{Following,Preceding}Siblings` — the last two include the start node);
  * xot's own code on top of them, statement by statement: the `take_while` / `skip_while`
    category filters, the category comparison of `next_sibling` / `previous_sibling`,
    `last_child` looking only at the raw last child, the `Following` and `ReversePreorder`
    iterator machines, `preceding`, `NodeEdge::next/previous`, `level_order`, `axis`.
  Loops that are not structurally recursive run on fuel (the node count of the tree); the
  fuel is shown to be adequate in `Lemmas/Axes*.lean`.
-/
import XotModel.Model.Tree

namespace XotModel
namespace Axes

/-- xot `NodeEdge` (`stop` = `End`). -/
inductive Edge where
  | start (p : Path)
  | stop (p : Path)
  deriving Repr, DecidableEq

/-- `NodeEdge::node`. -/
def Edge.node : Edge → Path
  | .start p => p
  | .stop p => p

def Edge.mapPath (f : Path → Path) : Edge → Edge
  | .start p => .start (f p)
  | .stop p => .stop (f p)

/-- levelorder.rs `LevelOrder` (`stop` = `End`). -/
inductive LevelOrder where
  | node (p : Path)
  | stop
  deriving Repr, DecidableEq

/-- access.rs `Axis`. -/
inductive Axis where
  | child | descendant | parent | ancestor | followingSibling | precedingSibling
  | following | preceding | attribute | self | descendantOrSelf | ancestorOrSelf
  deriving Repr, DecidableEq

/-- Errors of `document_element`. -/
inductive AxErr where
  | notDocument | noElementAtTopLevel
  deriving Repr, DecidableEq

/-! ## The arena (indextree), by contract -/

/-- The subtree at `p` (an invalid path reads as an empty document; callers pass valid paths). -/
def subAt (t : Tree) (p : Path) : Tree := (t.at? p).getD (.node .document [])

def valueAt (t : Tree) (p : Path) : Value := (subAt t p).value
def categoryAt (t : Tree) (p : Path) : Category := (valueAt t p).category
/-- `self.arena[node].get().is_normal()` -/
def isNormalAt (t : Tree) (p : Path) : Bool := (valueAt t p).isNormal

/-- A path split into (parent path, index among the raw children); `none` for the root. -/
def splitLast (p : Path) : Option (Path × Nat) :=
  match p.reverse with
  | [] => none
  | i :: r => some (r.reverse, i)

/-- `arena[node].parent()` -/
def parent (p : Path) : Option Path := (splitLast p).map (·.1)

/-- Child paths of `p` from raw index `i` on, each with its subtree (the iterator item: xot's
    closures read the value of the item through the arena). -/
def kidPaths (p : Path) : Nat → List Tree → List (Path × Tree)
  | _, [] => []
  | i, k :: ks => (p ++ [i], k) :: kidPaths p (i + 1) ks

def itemNormal (x : Path × Tree) : Bool := x.2.value.isNormal
def itemCategory (x : Path × Tree) : Category := x.2.value.category

/-- indextree `NodeId::children` = `all_children`. -/
def allChildren (t : Tree) (p : Path) : List (Path × Tree) := kidPaths p 0 (subAt t p).kids

/-- `arena[node].first_child()` = `internal_first_child`. -/
def internalFirstChild (t : Tree) (p : Path) : Option Path := (allChildren t p).head?.map (·.1)
/-- `arena[node].last_child()` = `internal_last_child`. -/
def internalLastChild (t : Tree) (p : Path) : Option Path := (allChildren t p).getLast?.map (·.1)

/-- `arena[node].next_sibling()` = `internal_next_sibling`. -/
def internalNextSibling (t : Tree) (p : Path) : Option Path :=
  match splitLast p with
  | none => none
  | some (q, i) => if i + 1 < (subAt t q).kids.length then some (q ++ [i + 1]) else none

/-- `arena[node].previous_sibling()` = `internal_previous_sibling`. -/
def internalPreviousSibling (p : Path) : Option Path :=
  match splitLast p with
  | none => none
  | some (q, i) => if i = 0 then none else some (q ++ [i - 1])

/-- indextree `ancestors` on the reversed path: the node itself, its parent, …, the root. -/
def ancestorsR : List Nat → List Path
  | [] => [[]]
  | i :: r => (i :: r).reverse :: ancestorsR r

/-- indextree `ancestors`: the node itself, its parent, …, the root. -/
def ancestors (p : Path) : List Path := ancestorsR p.reverse

mutual
  /-- Pre-order of all nodes of a tree, as paths relative to its root. -/
  def allPre : Tree → List Path
    | .node _ ks => [] :: allPreList 0 ks
  def allPreList : Nat → List Tree → List Path
    | _, [] => []
    | i, k :: ks => (allPre k).map (i :: ·) ++ allPreList (i + 1) ks
end

/-- indextree `descendants`: the node and everything below it, pre-order. -/
def arenaDescendants (t : Tree) (p : Path) : List Path := (allPre (subAt t p)).map (p ++ ·)

mutual
  /-- Start/End edges of a tree, relative paths. -/
  def rawEdges : Tree → List Edge
    | .node _ ks => .start [] :: (rawEdgesList 0 ks ++ [.stop []])
  def rawEdgesList : Nat → List Tree → List Edge
    | _, [] => []
    | i, k :: ks => (rawEdges k).map (Edge.mapPath (i :: ·)) ++ rawEdgesList (i + 1) ks
end

/-- indextree `traverse`. -/
def arenaTraverse (t : Tree) (p : Path) : List Edge :=
  (rawEdges (subAt t p)).map (Edge.mapPath (p ++ ·))
/-- indextree `reverse_traverse`: the same edges, last first. -/
def arenaReverseTraverse (t : Tree) (p : Path) : List Edge := (arenaTraverse t p).reverse

/-- indextree `following_siblings`: the node itself, then its later raw siblings. -/
def arenaFollowingSiblings (t : Tree) (p : Path) : List Path :=
  match splitLast p with
  | none => [p]
  | some (q, i) => (List.range' i ((subAt t q).kids.length - i)).map (fun j => q ++ [j])

/-- indextree `preceding_siblings`: the node itself, then its earlier raw siblings, nearest first. -/
def arenaPrecedingSiblings (p : Path) : List Path :=
  match splitLast p with
  | none => [p]
  | some (q, i) => (List.range (i + 1)).reverse.map (fun j => q ++ [j])

/-! ## access.rs -/

/-- `abnormal_children`: `children.take_while(!is_normal)` -/
def abnormalChildren (t : Tree) (p : Path) : List (Path × Tree) :=
  (allChildren t p).takeWhile (fun x => !itemNormal x)
/-- `normal_children`: `children.skip_while(!is_normal)` -/
def normalChildren (t : Tree) (p : Path) : List (Path × Tree) :=
  (allChildren t p).dropWhile (fun x => !itemNormal x)

/-- `attribute_nodes`: `all_children.skip_while(= Namespace).take_while(= Attribute)` -/
def attributeNodes (t : Tree) (p : Path) : List Path :=
  (((allChildren t p).dropWhile (fun x => itemCategory x == .namespace)).takeWhile
    (fun x => itemCategory x == .attribute)).map (·.1)

/-- `children` = `normal_children` -/
def children (t : Tree) (p : Path) : List Path := (normalChildren t p).map (·.1)

/-- `first_child`: `normal_children(node).next()` -/
def firstChild (t : Tree) (p : Path) : Option Path := (normalChildren t p).head?.map (·.1)

/-- `last_child`: the raw last child, if it is normal. -/
def lastChild (t : Tree) (p : Path) : Option Path :=
  match (allChildren t p).getLast? with
  | none => none
  | some x => if itemNormal x then some x.1 else none

/-- `next_sibling`: raw next sibling unless its category differs from the node's. -/
def nextSibling (t : Tree) (p : Path) : Option Path :=
  match internalNextSibling t p with
  | none => none
  | some s => if categoryAt t p != categoryAt t s then none else some s

/-- `previous_sibling`: raw previous sibling unless its category differs from the node's. -/
def previousSibling (t : Tree) (p : Path) : Option Path :=
  match internalPreviousSibling p with
  | none => none
  | some s => if categoryAt t p != categoryAt t s then none else some s

/-- `child_index`: `None` unless `parent(child) == Some(parent)`; position among normal children. -/
def childIndex (t : Tree) (par child : Path) : Option Nat :=
  if parent child != some par then none
  else (children t par).findIdx? (fun n => n == child)

/-- `std::iter::successors(first, |n| arena[*n].previous_sibling())`, collected (one unit of fuel
    per item). -/
def backwardSiblings : Nat → Option Path → List Path
  | 0, _ => []
  | _ + 1, none => []
  | fuel + 1, some n => n :: backwardSiblings fuel (internalPreviousSibling n)

/-- `reverse_children`: walk the sibling links backwards from the raw last child,
    `take_while(is_normal)`. -/
def reverseChildren (t : Tree) (p : Path) : List Path :=
  (backwardSiblings t.size (internalLastChild t p)).takeWhile (isNormalAt t)

/-- `descendants`: arena descendants filtered by `normal_filter`. -/
def descendants (t : Tree) (p : Path) : List Path := (arenaDescendants t p).filter (isNormalAt t)
/-- `all_descendants` -/
def allDescendants (t : Tree) (p : Path) : List Path := arenaDescendants t p

/-- `following_siblings`: arena following siblings (self included) of the node's category. -/
def followingSiblings (t : Tree) (p : Path) : List Path :=
  (arenaFollowingSiblings t p).filter (fun s => categoryAt t s == categoryAt t p)
/-- `preceding_siblings` -/
def precedingSiblings (t : Tree) (p : Path) : List Path :=
  (arenaPrecedingSiblings p).filter (fun s => categoryAt t s == categoryAt t p)

def edgeNormal (t : Tree) (e : Edge) : Bool := isNormalAt t e.node

/-- `traverse`: arena edges filtered by `normal_edge_filter`. -/
def traverse (t : Tree) (p : Path) : List Edge := (arenaTraverse t p).filter (edgeNormal t)
/-- `all_traverse` -/
def allTraverse (t : Tree) (p : Path) : List Edge := arenaTraverse t p
/-- `reverse_traverse` -/
def reverseTraverse (t : Tree) (p : Path) : List Edge :=
  (arenaReverseTraverse t p).filter (edgeNormal t)
/-- `reverse_all_traverse` -/
def reverseAllTraverse (t : Tree) (p : Path) : List Edge := arenaReverseTraverse t p

/-! ### `Following` -/

/-- The `while let Some(parent) = xot.parent(current)` loop of `Following::following`, on the
    reversed path of `current` (its tail is the reversed path of the parent). -/
def followingClimb (t : Tree) : List Nat → Option Path
  | [] => none
  | _ :: r =>
    match internalNextSibling t r.reverse with
    | some sibling => some sibling
    | none => followingClimb t r

/-- `Following::following(node, xot)`. -/
def followingStart (t : Tree) (p : Path) : Option Path :=
  match internalNextSibling t p with
  | some s => some s
  | none => followingClimb t p.reverse

/-- `Following::next`, collected (one unit of fuel per visited node). -/
def followingIter (t : Tree) (filter : Path → Bool) : Nat → Option Path → List Path
  | 0, _ => []
  | _ + 1, none => []
  | fuel + 1, some node =>
    let cur' := match internalFirstChild t node with
      | some c => some c
      | none => followingStart t node
    if !filter node then followingIter t filter fuel cur'
    else node :: followingIter t filter fuel cur'

/-- `following` -/
def following (t : Tree) (p : Path) : List Path :=
  followingIter t (isNormalAt t) t.size (followingStart t p)
/-- `all_following` -/
def allFollowing (t : Tree) (p : Path) : List Path :=
  followingIter t (fun _ => true) t.size (followingStart t p)

/-! ### `ReversePreorder` -/

mutual
  /-- `while let Some(last_child) = internal_last_child(node) { node = last_child }`, run from the
      root of a subtree: relative path of its rightmost deepest node. -/
  def rightmost : Tree → Path
    | .node _ ks => rightmostList 0 ks
  def rightmostList : Nat → List Tree → Path
    | _, [] => []
    | i, k :: ks => if ks.isEmpty then i :: rightmost k else rightmostList (i + 1) ks
end

/-- The successor computed in `ReversePreorder::next`. -/
def revPreStep (t : Tree) (current : Path) : Option Path :=
  match internalPreviousSibling current with
  | some node => some (node ++ rightmost (subAt t node))
  | none => parent current

/-- `ReversePreorder::next`, collected. -/
def revPreIter (t : Tree) (filter : Path → Bool) : Nat → Option Path → List Path
  | 0, _ => []
  | _ + 1, none => []
  | fuel + 1, some current =>
    if !filter current then revPreIter t filter fuel (revPreStep t current)
    else current :: revPreIter t filter fuel (revPreStep t current)

/-- `reverse_preorder` -/
def reversePreorder (t : Tree) (p : Path) : List Path :=
  revPreIter t (isNormalAt t) t.size (some p)
/-- `all_reverse_preorder` -/
def allReversePreorder (t : Tree) (p : Path) : List Path :=
  revPreIter t (fun _ => true) t.size (some p)

/-! ### `preceding` -/

/-- Inner loop `while let Some(current) = self.previous_sibling(current_sibling)`: reversed
    (filtered) descendant lists of the previous same-category siblings. -/
def precSiblingLoop (t : Tree) : Nat → Path → List Path
  | 0, _ => []
  | fuel + 1, currentSibling =>
    match previousSibling t currentSibling with
    | none => []
    | some current => (descendants t current).reverse ++ precSiblingLoop t fuel current

/-- Outer loop `while let Some(parent) = current_parent`, on the reversed path. -/
def precedingLoop (t : Tree) : List Nat → List Path
  | [] => precSiblingLoop t t.size []
  | i :: r => precSiblingLoop t t.size (i :: r).reverse ++ precedingLoop t r

/-- `preceding` -/
def preceding (t : Tree) (p : Path) : List Path := precedingLoop t p.reverse

/-! ### `NodeEdge::next` / `NodeEdge::previous` -/

def Edge.next (t : Tree) : Edge → Option Edge
  | .start current =>
    match firstChild t current with
    | some c => some (.start c)
    | none => some (.stop current)
  | .stop current =>
    match nextSibling t current with
    | some s => some (.start s)
    | none => (parent current).map .stop

def Edge.previous (t : Tree) : Edge → Option Edge
  | .stop current =>
    match lastChild t current with
    | some c => some (.stop c)
    | none => some (.start current)
  | .start current =>
    match previousSibling t current with
    | some s => some (.stop s)
    | none => (parent current).map .start

/-- The documented loop `while let Some(next) = current.next(&xot)`, first edge included. -/
def edgeWalk (step : Edge → Option Edge) : Nat → Edge → List Edge
  | 0, _ => []
  | fuel + 1, e =>
    match step e with
    | none => [e]
    | some e' => e :: edgeWalk step fuel e'

/-! ### levelorder.rs -/

/-- The `while let Some(node) = queue.pop_front()` loop and the final `End`. -/
def levelOrderLoop (t : Tree) : Nat → List Path → Path → List LevelOrder
  | 0, _, _ => []
  | _ + 1, [], _ => [.stop]
  | fuel + 1, node :: queue, lastNode =>
    (if parent lastNode != parent node then [LevelOrder.stop] else []) ++
      .node node :: levelOrderLoop t fuel (queue ++ children t node) node

/-- `level_order` -/
def levelOrder (t : Tree) (p : Path) : List LevelOrder := levelOrderLoop t (t.size + 1) [p] p

/-! ### `axis`, `root`, `top_element`, `document_element` -/

def axis (t : Tree) : Axis → Path → List Path
  | .child, p => children t p
  | .descendant, p => (descendants t p).drop 1
  | .parent, p => match parent p with | some q => [q] | none => []
  | .ancestor, p => match parent p with | some q => ancestors q | none => []
  | .followingSibling, p => (followingSiblings t p).drop 1
  | .precedingSibling, p => (precedingSiblings t p).drop 1
  | .following, p => following t p
  | .preceding, p => preceding t p
  | .self, p => [p]
  | .descendantOrSelf, p => descendants t p
  | .ancestorOrSelf, p => ancestors p
  | .attribute, p => attributeNodes t p

/-- `root`: `ancestors(node).last().unwrap()` -/
def root (p : Path) : Outcome AxErr Path :=
  match (ancestors p).getLast? with
  | some r => .ok r
  | none => .panic

/-- `document_element` -/
def documentElement (t : Tree) (p : Path) : Outcome AxErr Path :=
  if !(valueAt t p).isDocument then .err .notDocument
  else match (children t p).find? (fun c => (valueAt t c).isElement) with
    | some c => .ok c
    | none => .err .noElementAtTopLevel

/-- `top_element` (`document_element(node).unwrap_or(node)` on a document node). -/
def topElement (t : Tree) (p : Path) : Outcome AxErr Path :=
  if (valueAt t p).isDocument then
    match documentElement t p with
    | .ok c => .ok c
    | _ => .ok p
  else
    .ok ((ancestors p).foldl (fun top a => if (valueAt t a).isElement then a else top) p)

end Axes
end XotModel
