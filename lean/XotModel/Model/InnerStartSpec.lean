/-
  XotModel.Model.InnerStartSpec — specification side of the round trip for a start node INSIDE a
  tree (C01, C10, C12, C14): NOT a model of Rust code.

  `to_string(node)` for an element `node` that has ancestors writes, on the start tag, also the
  declarations in scope at the node that the node does not declare itself (`XmlSerializer::new`
  seeds the name stack with `namespaces_in_scope(node)`; `gen_edge_start` emits one `Prefix` output
  per such declaration, BEFORE the node's own declarations, in the order of
  `namespaces_in_scope`: nearest ancestor first, node order inside an ancestor).  Parsing the
  text gives a document whose document element is the start element with those declarations as
  namespace nodes in front of its own.

  `standalone t q` is that document, read off the tree:  `D [ e' ]`, `e'` = the element at `q`
  with one namespace node per inherited declaration put in front of its children.  The built-in
  binding `xml → XML namespace` (`base_prefixes`, in scope everywhere) is never a node and never
  written; it is the one in-scope pair left out.  (A binding of another prefix to the XML
  namespace is kept as a node: both serialisations write nothing for it.  Such a binding is
  outside the round-trip domain: the parser refuses to declare it.)
-/
import XotModel.Model.Output

namespace XotModel

/-- The built-in `xml` binding of `base_prefixes()`. -/
def isBaseXml (d : Nat × Nat) : Bool := d.1 == Env.xmlPrefix && d.2 == Env.xmlNamespace

/-- The in-scope declarations the start element `n` inherits: not declared by `n` itself
    (`extraPrefixes`, Model/Output.lean), and not the built-in `xml` binding. -/
def inheritedExtra (inScope : List (Nat × Nat)) (n : Tree) : List (Nat × Nat) :=
  inScope.filter (fun d => !n.declaresPrefix d.1 && !isBaseXml d)

/-- One childless namespace node per declaration. -/
def nsLeaves (ds : List (Nat × Nat)) : List Tree := ds.map (fun d => .node (.namespace d.1 d.2) [])

/-- The start element with the inherited declarations in front of its children (`none` for a node
    that is no element). -/
def standaloneElement (inScope : List (Nat × Nat)) : Tree → Option Tree
  | .node (.element name) ks =>
    some (.node (.element name) (nsLeaves (inheritedExtra inScope (.node (.element name) ks)) ++ ks))
  | _ => none

/-- The document `to_string(node at q)` parses back to: `D [ e' ]` (`none` for a path that does
    not exist or does not lead to an element). -/
def standalone (t : Tree) (q : Path) : Option Tree :=
  match t.at? q, namespacesInScope t q with
  | some n, some inScope => (standaloneElement inScope n).map (fun e => .node .document [e])
  | _, _ => none

end XotModel
