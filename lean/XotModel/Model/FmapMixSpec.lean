/-
  XotModel.Model.FmapMixSpec — map updates INTERLEAVED with every other call (C11).

  `MixStep` = a map update of `MapOp2` (Model/FmapSpec2.lean) addressed to some element, OR any step of the
  full histories `PCall` (Model/FparseHist.lean: the parse of an arbitrary text, or any extended API call
  `Forest.XCall` — append / insert / detach / remove / replace / wrap / unwrap / clone / setters / node creation /
  set_text_consolidation / remove_insignificant_whitespace / create_missing_prefixes / deduplicate_namespaces /
  clone_with_prefixes).  State: `PStore`.

  `touchesEntries f x c` (decidable): the step `c`, met in the forest `f`, names as a WRITTEN node argument
  (`Forest.XCall.writeArgs`) a node of the parentless tree of `f` that contains `x` (or `x` is not live).  A step
  that does not is guaranteed to leave both views of `x` alone.

  (Specification only: nothing here is executed by the driver.  No existing definition is changed.)
-/
import XotModel.Model.FmapSpec2
import XotModel.Model.FparseHist

namespace XotModel
namespace Fmap
open Forest (MapKind)

/-- One step of an interleaved history. -/
inductive MixStep where
  /-- an update of a view of an element (any of the 23 updates of `MapOp2`) -/
  | map (op : MapOp2)
  /-- any other step: a parse, or an extended API call -/
  | other (c : PCall)

/-- The elements whose views an update reads or writes: the element it is addressed to, and for the two moves
    of an attached entry node the element the node is taken from. -/
def MapOp2.elems : MapOp2 → List Nat
  | .appendAttachedNode _ e e2 _ => [e, e2]
  | .anyAppend e (.entry _ e2 _) => [e, e2]
  | op => [op.target]

/-- The state after a step, whatever it answered. -/
def MixStep.run (s : PStore) : MixStep → PStore
  | .map op => { s with forest := (op.run s.forest).1 }
  | .other c => s.step c

/-- An interleaved history. -/
def mixRun (s : PStore) (steps : List MixStep) : PStore := steps.foldl MixStep.run s

/-- The map updates of an interleaved history, in order. -/
def mapOpsOf : List MixStep → List MapOp2
  | [] => []
  | .map op :: rest => op :: mapOpsOf rest
  | .other _ :: rest => mapOpsOf rest

/-- The parentless tree of `f` that contains the node `x`. -/
def rootOf? (f : Forest) (x : Nat) : Option HTree := f.roots.find? (fun r => (HTree.handles r).contains x)

/-- **Can the step touch the entries of `x`?**  (Decidable over-approximation: a parse never does — it only adds a
    new parentless tree on fresh handles; an API call may when one of the node arguments it writes below is a
    node of the tree that holds `x`.) -/
def touchesEntries (f : Forest) (x : Nat) : PCall → Bool
  | .parse _ _ => !f.isLive x
  | .api c =>
    match rootOf? f x with
    | none => true
    | some r => c.writeArgs.any (fun a => (HTree.handles r).contains a)

/-- The side conditions of an interleaved history for the tracked elements `T`, each evaluated in the state the
    step starts from: a map update satisfies `MapOp2.ok`, and if it reads or writes a view of a tracked element
    every element it reads or writes is tracked (a move between a tracked and an untracked element would make
    the tracked view depend on the untracked one); another step is well-kinded (`PCall.wellKinded`: the one
    side condition of C04) and does not touch the entries of a tracked element. -/
def mixOk (T : List Nat) : PStore → List MixStep → Prop
  | _, [] => True
  | s, .map op :: rest =>
    op.ok s.forest = true ∧ ((∃ x ∈ op.elems, x ∈ T) → ∀ y ∈ op.elems, y ∈ T) ∧
      mixOk T (MixStep.run s (.map op)) rest
  | s, .other c :: rest =>
    c.wellKinded ∧ (∀ x ∈ T, touchesEntries s.forest x c = false) ∧ mixOk T (MixStep.run s (.other c)) rest

instance mixOk.dec (T : List Nat) : ∀ (steps : List MixStep) (s : PStore), Decidable (mixOk T s steps)
  | [], _ => isTrue trivial
  | .map op :: rest, s =>
    have := mixOk.dec T rest (MixStep.run s (.map op))
    (inferInstance : Decidable (op.ok s.forest = true ∧ ((∃ x ∈ op.elems, x ∈ T) → ∀ y ∈ op.elems, y ∈ T) ∧
      mixOk T (MixStep.run s (.map op)) rest))
  | .other c :: rest, s =>
    have := mixOk.dec T rest (MixStep.run s (.other c))
    (inferInstance : Decidable (c.wellKinded ∧ (∀ x ∈ T, touchesEntries s.forest x c = false) ∧
      mixOk T (MixStep.run s (.other c)) rest))

end Fmap
end XotModel
