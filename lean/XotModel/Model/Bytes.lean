/-
  XotModel.Model.Bytes — the byte path of `Xot::parse_bytes` (`/repo/src/encoding.rs`, as of /repo c3fcdf4):
      parse_bytes(bytes) = parse(&decode(bytes, None))
  Bytes are `List Nat` (every element < 256 when it comes from the driver; the functions are total
  on any list).

  Own code of xot, mirrored statement by statement:
      xmlDeclaration   `encoding::xml_declaration` (as of /repo c3fcdf4: byte order mark removed first, no
                       length limit, a non-ASCII byte before the first `>` means no declaration)
      encodingOf       `encoding::encoding(data, None)`
      decodeBytes      `encoding::decode(data, None)`
  External crates, modelled AS WRITTEN / AS SPECIFIED and compared with the real crates by the
  `bytes` correspondence suite on every run (not verified against their source):
      detectHead       `xhtmlchardet::detect` (2.2.0) on the head of at most 5 bytes xot hands it
                       (`detect_byte_order_mark` table, `normalise`, `endianify`, candidate order)
      forLabel         `encoding_rs::Encoding::for_label` (0.8.34; label table: Model/BytesLabels.lean)
      bomSniff         `Encoding::for_bom` as used by `Encoding::decode`
      decodeUtf8       the WHATWG UTF-8 decoder with replacement (one U+FFFD per maximal ill-formed
                       subpart), which `encoding_rs` implements
      decodeUtf16      `encoding_rs::utf_16::Utf16Decoder` with replacement
      win1252          the windows-1252 index of encoding_rs (`data.rs`), all 256 bytes mapped
      replacement / x-user-defined decoders of the Encoding Standard
  The 34 other legacy encodings `for_label` can answer are known by name only (`Enc.other`):
  `decodeBytes` answers `none` for them — OUTSIDE THE MODEL, not a failure of the real code.
-/
import XotModel.Model.BytesLabels
import XotModel.Model.ParseString

namespace XotModel.Bytes

abbrev Bytes := List Nat

/-! ### str helpers (Rust `str` methods on `List Char`) -/

/-- `char::is_ascii_whitespace`: U+0020, U+0009, U+000A, U+000C, U+000D. -/
def isAsciiWs (c : Char) : Bool :=
  c == ' ' || c == '\t' || c == '\n' || c == '\x0c' || c == '\r'

/-- `char::is_whitespace` (Unicode White_Space), what `str::trim_start` / `trim_end` remove.  On the
    ASCII strings `xml_declaration` works with: U+0009..U+000D and U+0020 (so also U+000B, which
    `is_ascii_whitespace` does not accept). -/
def isWhite (c : Char) : Bool :=
  let n := c.toNat
  (9 ≤ n && n ≤ 13) || n == 0x20 || n == 0x85 || n == 0xA0 || n == 0x1680 || (0x2000 ≤ n && n ≤ 0x200A) ||
    n == 0x2028 || n == 0x2029 || n == 0x202F || n == 0x205F || n == 0x3000

/-- `str::trim_start`. -/
def trimStart (s : Str) : Str := s.dropWhile isWhite

/-- `str::trim_end`. -/
def trimEnd (s : Str) : Str := (s.reverse.dropWhile isWhite).reverse

/-- `str::strip_prefix`. -/
def stripPrefix (p s : Str) : Option Str :=
  if p.isPrefixOf s then some (s.drop p.length) else none

/-- `str::strip_suffix`. -/
def stripSuffix (p s : Str) : Option Str :=
  if p.isSuffixOf s then some (s.take (s.length - p.length)) else none

/-- `str::split_once(c)`: around the first occurrence of `c`. -/
def splitOnce (c : Char) : Str → Option (Str × Str)
  | [] => none
  | x :: xs =>
    if x == c then some ([], xs) else
    match splitOnce c xs with
    | some (a, b) => some (x :: a, b)
    | none => none

/-- `str::replace(pat, rep)`, `pat` non-empty: non-overlapping matches from the left.  The counter
    skips the rest of a match just replaced. -/
def replaceGo (pat rep : Str) : Nat → Str → Str
  | _, [] => []
  | skip + 1, _ :: cs => replaceGo pat rep skip cs
  | 0, c :: cs =>
    if pat.isPrefixOf (c :: cs) then rep ++ replaceGo pat rep (pat.length - 1) cs
    else c :: replaceGo pat rep 0 cs

def replaceAll (pat rep s : Str) : Str := replaceGo pat rep 0 s

/-! ### `xml_declaration` (xot's own reader of the encoding pseudo-attribute) -/

/-- The first statement of `xml_declaration` (/repo 41ece46): a leading byte order mark is removed —
    UTF-8, then UTF-16 in either byte order (which also takes the first two bytes of the UCS-4 mark
    FF FE 00 00; the two zero bytes are skipped by the loop), then the two UCS-4 marks that begin
    with zero bytes — the tests in source order. -/
def stripDeclBom (data : Bytes) : Bytes :=
  if [0xEF, 0xBB, 0xBF].isPrefixOf data then data.drop 3
  else if [0xFF, 0xFE].isPrefixOf data || [0xFE, 0xFF].isPrefixOf data then data.drop 2
  else if [0, 0, 0xFE, 0xFF].isPrefixOf data || [0, 0, 0xFF, 0xFE].isPrefixOf data then data.drop 4
  else data

/-- The `for` loop (over ALL the bytes since /repo c3fcdf4): NUL bytes are skipped, a byte ≥ 0x80
    ends the function with `None`, ASCII bytes are collected as characters up to and including the
    first `>`. -/
def collectAscii : Bytes → Option Str
  | [] => some []
  | b :: bs =>
    if b == 0 then collectAscii bs
    else if b ≥ 0x80 then none
    else if b == 0x3E then some ['>']
    else match collectAscii bs with
      | some s => some (Char.ofNat b :: s)
      | none => none

def encodingWord : Str := ['e', 'n', 'c', 'o', 'd', 'i', 'n', 'g']

/-- The `while !rest.is_empty()` loop over the pseudo-attributes.  `fuel` only makes the recursion
    structural: every round removes at least the `=` and two quotes (`pseudoAttrs_fuel`: any fuel
    above the length gives the same answer). -/
def pseudoAttrs : Nat → Str → Option Str
  | 0, _ => none
  | fuel + 1, rest =>
    if rest.isEmpty then none else
    match splitOnce '=' rest with
    | none => none
    | some (name, after) =>
      match trimStart after with
      | [] => none
      | q :: after1 =>
        if q == '"' || q == '\'' then
          match splitOnce q after1 with
          | none => none
          | some (value, after2) =>
            if trimEnd name == encodingWord then some value
            else pseudoAttrs fuel (trimStart after2)
        else none

/-- `xml_declaration` after the `for` loop: what the collected ASCII string says. -/
def declFromAscii (ascii : Str) : Option Str :=
  match stripPrefix ['<', '?', 'x', 'm', 'l'] ascii with
  | none => none
  | some r1 =>
    match stripSuffix ['?', '>'] r1 with
    | none => none
    | some rest =>
      if !(rest.head?.any isAsciiWs) then none
      else pseudoAttrs (rest.length + 1) (trimStart rest)

/-- `xml_declaration(data)`. -/
def xmlDeclaration (data : Bytes) : Option Str :=
  match collectAscii (stripDeclBom data) with
  | none => none
  | some ascii => declFromAscii ascii

/-! ### `xhtmlchardet::detect` on a head of at most five bytes (external crate, as written) -/

inductive Flavour | ucs | utf | ebcdic | ascii | unknown
  deriving Repr, DecidableEq
inductive ByteOrder | bigEndian | littleEndian | unusual2143 | unusual3412 | notApplicable
  deriving Repr, DecidableEq
inductive Width | eight | sixteen | thirtyTwo
  deriving Repr, DecidableEq

structure Descriptor where
  flavour : Flavour
  width : Width
  order : ByteOrder
  deriving Repr, DecidableEq

/-- `detect_byte_order_mark`: the match arms in source order. -/
def detectByteOrderMark (a b c d : Nat) : Option Descriptor :=
  if a == 0x00 && b == 0x00 && c == 0xFE && d == 0xFF then some ⟨.ucs, .thirtyTwo, .bigEndian⟩
  else if a == 0xFF && b == 0xFE && c == 0x00 && d == 0x00 then some ⟨.ucs, .thirtyTwo, .littleEndian⟩
  else if a == 0x00 && b == 0x00 && c == 0xFF && d == 0xFE then some ⟨.ucs, .thirtyTwo, .unusual2143⟩
  else if a == 0xFE && b == 0xFF && c == 0x00 && d == 0x00 then some ⟨.ucs, .thirtyTwo, .unusual3412⟩
  else if a == 0xFE && b == 0xFF && (c > 0 || d > 0) then some ⟨.utf, .sixteen, .bigEndian⟩
  else if a == 0xFF && b == 0xFE && (c > 0 || d > 0) then some ⟨.utf, .sixteen, .littleEndian⟩
  else if a == 0xEF && b == 0xBB && c == 0xBF then some ⟨.utf, .eight, .notApplicable⟩
  else if a == 0x00 && b == 0x00 && c == 0x00 && d == 0x3C then some ⟨.unknown, .thirtyTwo, .bigEndian⟩
  else if a == 0x3C && b == 0x00 && c == 0x00 && d == 0x00 then some ⟨.unknown, .thirtyTwo, .littleEndian⟩
  else if a == 0x00 && b == 0x00 && c == 0x3C && d == 0x00 then some ⟨.unknown, .thirtyTwo, .unusual2143⟩
  else if a == 0x00 && b == 0x3C && c == 0x00 && d == 0x00 then some ⟨.unknown, .thirtyTwo, .unusual3412⟩
  else if a == 0x00 && b == 0x3C && c == 0x00 && d == 0x3F then some ⟨.unknown, .sixteen, .bigEndian⟩
  else if a == 0x3C && b == 0x00 && c == 0x3F && d == 0x00 then some ⟨.unknown, .sixteen, .littleEndian⟩
  else if a == 0x3C && b == 0x3F && c == 0x78 && d == 0x6D then some ⟨.ascii, .eight, .notApplicable⟩
  else if a == 0x4C && b == 0x6F && c == 0xA7 && d == 0x94 then some ⟨.ebcdic, .eight, .notApplicable⟩
  else none

/-- `normalise`: `to_lowercase` (the hint xot passes is ASCII: `Char.toLower`), then the three
    `replace` calls in source order. -/
def normalise (e : Str) : Str :=
  replaceAll ['s', 'h', 'i', 'f', 't', '-', 'j', 'i', 's'] ['s', 'h', 'i', 'f', 't', '_', 'j', 'i', 's']
    (replaceAll ['u', 't', 'f', '8'] ['u', 't', 'f', '-', '8']
      (replaceAll ['u', 's', '-', 'a', 's', 'c', 'i', 'i'] ['a', 's', 'c', 'i', 'i'] (e.map Char.toLower)))

/-- `endianify`: `utf-16` becomes `utf-16le` / `utf-16be` when the byte order is known. -/
def endianify (e : Str) (d : Option Descriptor) : Str :=
  if e == ['u', 't', 'f', '-', '1', '6'] then
    match (d.getD ⟨.ascii, .eight, .notApplicable⟩).order with
    | .littleEndian => ['u', 't', 'f', '-', '1', '6', 'l', 'e']
    | .bigEndian => ['u', 't', 'f', '-', '1', '6', 'b', 'e']
    | _ => e
  else e

/-- The `match possible_encoding` after the hint ("Include info from BOM detection"). -/
def bomLabel : Option Descriptor → Option Str
  | some ⟨.ucs, .thirtyTwo, .littleEndian⟩ => some ['u', 'c', 's', '-', '4', 'l', 'e']
  | some ⟨.ucs, .thirtyTwo, .bigEndian⟩ => some ['u', 'c', 's', '-', '4', 'b', 'e']
  | some ⟨.utf, .sixteen, .littleEndian⟩ => some ['u', 't', 'f', '-', '1', '6', 'l', 'e']
  | some ⟨.utf, .sixteen, .bigEndian⟩ => some ['u', 't', 'f', '-', '1', '6', 'b', 'e']
  | some ⟨.utf, .eight, _⟩ => some ['u', 't', 'f', '-', '8']
  | some ⟨.ebcdic, .eight, .notApplicable⟩ => some ['e', 'b', 'c', 'd', 'i', 'c']
  | _ => none

/-- `push_if_not_contains`. -/
def pushIfNotContains (v : List Str) (x : Str) : List Str := if v.contains x then v else v ++ [x]

/-- `detect(&mut Cursor::new(head), hint)` for the `head = &data[..min(5, len)]` of xot:
    * fewer than 4 bytes: `read_exact` fails, `Err` (`none`);
    * exactly 4 bytes: the second `read` returns `Ok(0)`, the EMPTY vector is returned at once (the
      byte order mark just recognised is dropped);
    * 5 bytes: `buf` = the fifth byte followed by 511 zero bytes.  `search("encoding=" / "charset=")`
      cannot find its nine- / eight-character needle in it (at most one non-zero byte), so the first
      candidate source is silent; then the hint, then the BOM information; if there is still no
      candidate and `buf` is well-formed UTF-8 (the fifth byte is < 0x80) the candidate `utf-8`.
    Longer heads are never passed by xot (`none`: not modelled). -/
def detectHead (head : Bytes) (hint : Option Str) : Option (List Str) :=
  match head with
  | [_, _, _, _] => some []
  | [a, b, c, d, e] =>
    let possible := detectByteOrderMark a b c d
    let c1 : List Str := match hint with
      | some h => pushIfNotContains [] (endianify (normalise h) possible)
      | none => []
    let c2 := match bomLabel possible with
      | some l => pushIfNotContains c1 l
      | none => c1
    some (if c2.isEmpty && e < 0x80 then [['u', 't', 'f', '-', '8']] else c2)
  | _ => none

/-! ### `Encoding::for_label` (external crate encoding_rs, as written) -/

/-- The white space `for_label` trims: TAB, LF, FF, CR, blank. -/
def isLabelWs (c : Char) : Bool :=
  c == '\t' || c == '\n' || c == '\x0c' || c == '\r' || c == ' '

/-- The characters `for_label` lets into a label, upper case folded; any other byte: `None`. -/
def labelChar? (c : Char) : Option Char :=
  let n := c.toNat
  if 65 ≤ n && n ≤ 90 then some (Char.ofNat (n + 32))
  else if (97 ≤ n && n ≤ 122) || (48 ≤ n && n ≤ 57) || c == '-' || c == '_' || c == ':' || c == '.' then some c
  else none

def labelChars : Str → Option Str
  | [] => some []
  | c :: cs =>
    match labelChar? c, labelChars cs with
    | some x, some xs => some (x :: xs)
    | _, _ => none

/-- `Encoding::for_label(label.as_bytes())`: the three loops (before / inside / after) and the search
    in the label table.  A non-ASCII character is a byte sequence ≥ 0x80: `None` like any other
    character outside the label alphabet. -/
def forLabel (label : Str) : Option Enc :=
  let l1 := label.dropWhile isLabelWs
  let body := l1.takeWhile (fun c => !isLabelWs c)
  let after := l1.dropWhile (fun c => !isLabelWs c)
  if body.isEmpty then none
  else if !(after.all isLabelWs) then none
  else match labelChars body with
    | none => none
    | some t => if t.length > longestLabelLength then none else lookupLabel t

/-- `encoding(data, None)`: xot reads the declaration itself, hands the detector the first five bytes
    with the declared label as the hint, takes the first candidate (`"UTF-8"` when there is none). -/
def encodingOf (data : Bytes) : Option Enc :=
  let declared := xmlDeclaration data
  match detectHead (data.take 5) declared with
  | none => none
  | some [] => forLabel ['U', 'T', 'F', '-', '8']
  | some (l :: _) => forLabel l

/-- What the hook `encoding_name` shows: `encoding(data, None).map(|e| e.name())`. -/
def encodingName (data : Bytes) : Option Str := (encodingOf data).map Enc.name

/-! ### The decoders of encoding_rs (external, as specified) -/

def replacementChar : Char := '\uFFFD'

/-- The UTF-8 decoder with replacement (Encoding Standard 8.1.1, = `String::from_utf8_lossy`): a lead
    byte fixes the number of continuation bytes and the range of the first one; a byte outside the
    range ends the sequence with ONE U+FFFD and is looked at again as a lead byte; the end of the
    input inside a sequence gives one U+FFFD. -/
def decodeUtf8 : Bytes → Str
  | [] => []
  | b0 :: rest =>
    if b0 < 0x80 then Char.ofNat b0 :: decodeUtf8 rest
    else if 0xC2 ≤ b0 && b0 ≤ 0xDF then
      match rest with
      | [] => [replacementChar]
      | b1 :: r1 =>
        if 0x80 ≤ b1 && b1 ≤ 0xBF then Char.ofNat ((b0 - 0xC0) * 64 + (b1 - 0x80)) :: decodeUtf8 r1
        else replacementChar :: decodeUtf8 (b1 :: r1)
    else if 0xE0 ≤ b0 && b0 ≤ 0xEF then
      match rest with
      | [] => [replacementChar]
      | b1 :: r1 =>
        if (if b0 == 0xE0 then 0xA0 else 0x80) ≤ b1 && b1 ≤ (if b0 == 0xED then 0x9F else 0xBF) then
          match r1 with
          | [] => [replacementChar]
          | b2 :: r2 =>
            if 0x80 ≤ b2 && b2 ≤ 0xBF then
              Char.ofNat ((b0 - 0xE0) * 4096 + (b1 - 0x80) * 64 + (b2 - 0x80)) :: decodeUtf8 r2
            else replacementChar :: decodeUtf8 (b2 :: r2)
        else replacementChar :: decodeUtf8 (b1 :: r1)
    else if 0xF0 ≤ b0 && b0 ≤ 0xF4 then
      match rest with
      | [] => [replacementChar]
      | b1 :: r1 =>
        if (if b0 == 0xF0 then 0x90 else 0x80) ≤ b1 && b1 ≤ (if b0 == 0xF4 then 0x8F else 0xBF) then
          match r1 with
          | [] => [replacementChar]
          | b2 :: r2 =>
            if 0x80 ≤ b2 && b2 ≤ 0xBF then
              match r2 with
              | [] => [replacementChar]
              | b3 :: r3 =>
                if 0x80 ≤ b3 && b3 ≤ 0xBF then
                  Char.ofNat ((b0 - 0xF0) * 262144 + (b1 - 0x80) * 4096 + (b2 - 0x80) * 64 + (b3 - 0x80))
                    :: decodeUtf8 r3
                else replacementChar :: decodeUtf8 (b3 :: r3)
            else replacementChar :: decodeUtf8 (b2 :: r2)
        else replacementChar :: decodeUtf8 (b1 :: r1)
    else replacementChar :: decodeUtf8 rest

def isHighSurrogate (u : Nat) : Bool := 0xD800 ≤ u && u ≤ 0xDBFF
def isLowSurrogate (u : Nat) : Bool := 0xDC00 ≤ u && u ≤ 0xDFFF

/-- `Utf16Decoder` with replacement; `lead` = the pending high surrogate.  A high surrogate not
    followed by a low one gives U+FFFD and the following unit is looked at again; a low surrogate
    on its own gives U+FFFD; at the end of the input a pending high surrogate, a single left-over
    byte, or both together give ONE U+FFFD. -/
def decodeUtf16Go (be : Bool) : Option Nat → Bytes → Str
  | lead, [] => if lead.isSome then [replacementChar] else []
  | _, [_] => [replacementChar]
  | lead, x :: y :: rest =>
    let u := if be then x * 256 + y else y * 256 + x
    match lead with
    | none =>
      if isHighSurrogate u then decodeUtf16Go be (some u) rest
      else if isLowSurrogate u then replacementChar :: decodeUtf16Go be none rest
      else Char.ofNat u :: decodeUtf16Go be none rest
    | some h =>
      if isHighSurrogate u then replacementChar :: decodeUtf16Go be (some u) rest
      else if isLowSurrogate u then
        Char.ofNat (0x10000 + (h - 0xD800) * 0x400 + (u - 0xDC00)) :: decodeUtf16Go be none rest
      else replacementChar :: Char.ofNat u :: decodeUtf16Go be none rest

def decodeUtf16 (be : Bool) (bs : Bytes) : Str := decodeUtf16Go be none bs

/-- Bytes 0x80..0x9F of the windows-1252 index (`data.rs`, `windows_1252[0..32]`). -/
def win1252High : List Nat :=
  [0x20AC, 0x0081, 0x201A, 0x0192, 0x201E, 0x2026, 0x2020, 0x2021, 0x02C6, 0x2030, 0x0160, 0x2039, 0x0152,
   0x008D, 0x017D, 0x008F, 0x0090, 0x2018, 0x2019, 0x201C, 0x201D, 0x2022, 0x2013, 0x2014, 0x02DC, 0x2122,
   0x0161, 0x203A, 0x0153, 0x009D, 0x017E, 0x0178]

/-- windows-1252: ASCII and 0xA0..0xFF are the code point itself, 0x80..0x9F by the table. -/
def win1252 (b : Nat) : Char :=
  if 0x80 ≤ b && b < 0xA0 then Char.ofNat (win1252High.getD (b - 0x80) 0xFFFD) else Char.ofNat b

/-- x-user-defined: 0x80..0xFF are U+F780..U+F7FF. -/
def userDefined (b : Nat) : Char := if b < 0x80 then Char.ofNat b else Char.ofNat (0xF780 + (b - 0x80))

/-- `decode_without_bom_handling` with replacement; `none` = an encoding known by name only. -/
def decodeWith : Enc → Bytes → Option Str
  | .utf8, bs => some (decodeUtf8 bs)
  | .utf16le, bs => some (decodeUtf16 false bs)
  | .utf16be, bs => some (decodeUtf16 true bs)
  | .windows1252, bs => some (bs.map win1252)
  | .replacement, bs => some (if bs.isEmpty then [] else [replacementChar])
  | .xUserDefined, bs => some (bs.map userDefined)
  | .other _, _ => none

/-- `Encoding::for_bom` (three `starts_with` tests). -/
def bomSniff (data : Bytes) : Option (Enc × Bytes) :=
  if [0xEF, 0xBB, 0xBF].isPrefixOf data then some (.utf8, data.drop 3)
  else if [0xFF, 0xFE].isPrefixOf data then some (.utf16le, data.drop 2)
  else if [0xFE, 0xFF].isPrefixOf data then some (.utf16be, data.drop 2)
  else none

/-- `Encoding::decode`: a UTF-8 / UTF-16 byte order mark overrides the encoding and is removed. -/
def decodeSniffed (enc : Enc) (data : Bytes) : Option Str :=
  match bomSniff data with
  | some (e, rest) => decodeWith e rest
  | none => decodeWith enc data

/-- `decode(data, None)`: UTF-8 when no (known) encoding could be determined.  Total in the real code
    (since /repo f576658); `none` here only for the encodings outside the model. -/
def decodeBytes (data : Bytes) : Option Str :=
  decodeSniffed ((encodingOf data).getD .utf8) data

/-- `Xot::parse_bytes` (`m = .document`; the mode is a parameter only for symmetry). -/
def parseBytes (m : Mode) (env : Env) (data : Bytes) : Option BuildResult :=
  (decodeBytes data).map (parseString m env)

end XotModel.Bytes
