import XotModel.Props.C12
open XotModel.Props
#print axioms C12_total
#print axioms C12_fresh
#print axioms C12_frame
#print axioms C12_frame_get
#print axioms C12_equal
#print axioms C12_equal_strict
#print axioms C12_locality
#print axioms C12_independent
#print axioms C12_prefixes_frame
#print axioms C12_prefixes_non_element
#print axioms C12_prefixes_total
#print axioms C12_prefixes
#print axioms C12_store
#print axioms C12_store_fields
#print axioms C12_serialises_is_to_string
#print axioms C12_clone_roundtrip
#print axioms C12_clone_roundtrip_strict
#print axioms C12_clone_roundtrip_source
#print axioms C12_sepB_of_inv
#print axioms C12_locality_call
#print axioms C12_locality_cloneNode
#print axioms C12_locality_call_root
#print axioms C12_locality_step
#print axioms C12_locality_all
#print axioms C12_locality_ops
#print axioms C12_independent_all
