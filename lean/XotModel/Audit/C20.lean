import XotModel.Props.C20
open XotModel.Props
#print axioms C20_good_of_inv
#print axioms C20_fixed_element
#print axioms C20_routeOk_of_spec
#print axioms C20_fixed
#print axioms C20_topdown
#print axioms C20_bottomup
#print axioms C20_rtl
#print axioms C20_routes_agree
#print axioms C20_routes_compose
#print axioms C20_inv_preserved
#print axioms C20_fixed_init
#print axioms C20_any_order
#print axioms C20_any_order_conv
#print axioms C20_any_order_content
#print axioms C20_orders_agree
#print axioms C20_orders_agree_at
#print axioms C20_every_construction
#print axioms C20_every_clean_construction
#print axioms C20_spec_preserves_inv
#print axioms C20_inv_along
#print axioms C20_moveOk_is_the_check
#print axioms C20_illformed_move_refused
#print axioms C20_wellformed_move_ok
#print axioms C20_refusal_exact
#print axioms C20_init_inv
#print axioms C20_progC_constructs
