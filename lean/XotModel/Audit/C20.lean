import XotModel.Props.C20
open XotModel.Props
#print axioms C20_good_of_inv
#print axioms C20_fixed_element
#print axioms C20_routeOk_of_spec
#print axioms C20_fixed
#print axioms C20_topdown
#print axioms C20_bottomup
#print axioms C20_rtl
#print axioms C20_routes_agree
#print axioms C20_routes_compose
#print axioms C20_inv_preserved
#print axioms C20_fixed_init
#print axioms C20_any_order_partial
#print axioms C20_any_order_content_partial
#print axioms C20_orders_agree_partial
#print axioms C20_orders_agree_at_partial
#print axioms C20_every_construction_partial
#print axioms C20_every_clean_construction_partial
#print axioms C20_moveOk_is_the_check
#print axioms C20_illformed_move_refused
#print axioms C20_ok_move_wellformed
#print axioms C20_illformed_program_refused_partial
#print axioms invAlong_of_bool
