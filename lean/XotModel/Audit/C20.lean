import XotModel.Props.C20
open XotModel.Props
#print axioms C20_good_of_inv
#print axioms C20_fixed_element
#print axioms C20_routeOk_of_spec
#print axioms C20_fixed
#print axioms C20_topdown
#print axioms C20_bottomup
#print axioms C20_rtl
#print axioms C20_routes_agree
#print axioms C20_routes_compose
#print axioms C20_inv_preserved
#print axioms C20_fixed_init
