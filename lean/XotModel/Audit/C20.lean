import XotModel.Props.C20
open XotModel.Props
#print axioms C20_good_of_inv
#print axioms C20_fixed_element
#print axioms C20_fixed
#print axioms C20_fixed_init
