import XotModel.Props.C18
open XotModel.Props
#print axioms C18_whitespaceChars
#print axioms C18_isXmlWhitespace
#print axioms C18_spec_whitespace
#print axioms C18_preserveKeyword
#print axioms C18_position
#print axioms C18_exact
#print axioms C18_exact_members
#print axioms C18_frame
#print axioms C18_idem
#print axioms C18_safe
#print axioms C18_safe_separated
#print axioms C18_reachable_step_full
#print axioms C18_reachable_position_full
#print axioms C18_reachable_exact_full
#print axioms C18_reachable_exact_members_full
#print axioms C18_reachable_frame_full
#print axioms C18_reachable_idem_full
#print axioms C18_reachable_safe_full
#print axioms C18_reachable_safe_separated_full
#print axioms c18Calls_wellKinded
#print axioms c18Roots
#print axioms c18Pos
