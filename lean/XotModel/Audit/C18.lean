import XotModel.Props.C18
open XotModel.Props
#print axioms C18_whitespaceChars
#print axioms C18_isXmlWhitespace
#print axioms C18_spec_whitespace
#print axioms C18_preserveKeyword
#print axioms C18_position
#print axioms C18_exact
#print axioms C18_exact_members
#print axioms C18_frame
#print axioms C18_idem
#print axioms C18_safe
#print axioms C18_safe_separated
