import XotModel.Props.C07
open XotModel.Props
#print axioms C07_docLt_iff_lt
#print axioms C07_allPre
#print axioms C07_pre
#print axioms C07_descendants
#print axioms C07_axis_descendant
#print axioms C07_axis_descendant_abnormal
#print axioms C07_following
#print axioms C07_preceding
#print axioms C07_axis_ancestor
#print axioms C07_partition
#print axioms C07_partition_disjoint
#print axioms C07_partition_abnormal
#print axioms C07_order
#print axioms C07_root
