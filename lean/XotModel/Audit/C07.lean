import XotModel.Props.C07
open XotModel.Props
#print axioms C07_root
