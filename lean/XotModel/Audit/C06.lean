import XotModel.Props.C06
open XotModel.Props
#print axioms C06_append_refused
#print axioms C06_prepend_refused
#print axioms C06_insertAfter_refused
#print axioms C06_insertBefore_refused
#print axioms C06_append_same_position
#print axioms C06_replace_refused_document
#print axioms C06_wrap_refused_abnormal
#print axioms C06_unwrap_refused_parentless
