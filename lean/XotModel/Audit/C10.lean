import XotModel.Props.C10
open XotModel.Props
#print axioms C10_stack_base
#print axioms C10_stack_base_inScope
#print axioms C10_stack_invariant
#print axioms C10_stack_push
#print axioms C10_stack_pop
#print axioms C10_resolve_lookup
#print axioms C10_sound_prefix
#print axioms C10_sound
#print axioms C10_sound_refused
#print axioms C10_sound_attribute
#print axioms C10_error_element
#print axioms C10_error_attribute
#print axioms C10_stack_traversal
#print axioms C10_sound_tree
#print axioms C10_sound_tree_endtag
#print axioms C10_sound_tree_attribute
#print axioms C10_repair_element
#print axioms C10_repair_refused
#print axioms C10_repair_frame
#print axioms C10_repair_writable
#print axioms C10_repair_fresh_prefixes
#print axioms C10_repair_idem
