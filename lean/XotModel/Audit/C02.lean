import XotModel.Props.C02
open XotModel.Props
#print axioms C02_content
#print axioms C02_content_at
#print axioms C02_xmlid_partial
#print axioms C02_xmlid_false
#print axioms C02_cdata_line_ends_false
#print axioms C02_namespace_uri_false
#print axioms C02_local_xmlns_false
#print axioms C02_empty_cdata_false
#print axioms C02_merge
#print axioms C02_scope_nearest
#print axioms C02_scope_base
#print axioms C02_scope_unprefixed_attribute
