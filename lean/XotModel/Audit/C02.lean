import XotModel.Props.C02
open XotModel.Props
#print axioms C02_content
#print axioms C02_content_at
#print axioms C02_xmlid
#print axioms C02_cdata_line_ends
#print axioms C02_empty_cdata
#print axioms C02_namespace_uri
#print axioms C02_local_xmlns
#print axioms C02_merge
#print axioms C02_scope_nearest
#print axioms C02_scope_base
#print axioms C02_scope_unprefixed_attribute
#print axioms C02_scope_invariant
#print axioms C02_scope_strings
#print axioms C02_scope_element
#print axioms C02_scope_attribute
#print axioms C02_spelled_fragment
#print axioms C02_spelled_document
#print axioms C02_fragment_spelled
#print axioms C02_envBase_fresh
#print axioms C02_envBaseNs_fresh
#print axioms C02_spelled_ns_fragment
#print axioms C02_spelled_ns_document
#print axioms C02_fragment_spelled_ns
#print axioms C02_endtag_as_written
#print axioms C02_positions_irrelevant
#print axioms C02_positions_irrelevant_ok
