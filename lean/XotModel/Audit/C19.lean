import XotModel.Props.C19
open XotModel.Props
#print axioms C19_xhtml_const_defect
#print axioms C19_xhtml_const_actual
#print axioms C19_mathml_const
#print axioms C19_svg_const
#print axioms C19_ns_distinct
#print axioms C19_doctype_const
#print axioms C19_tables_lowercase
#print axioms C19_void_table
#print axioms C19_no_escape_table
#print axioms C19_tables_consistent
#print axioms C19_tables_nodup
