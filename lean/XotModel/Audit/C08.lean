import XotModel.Props.C08
open XotModel.Props
#print axioms C08_inv_reachable
#print axioms C08_table
#print axioms C08_bounded
#print axioms C08_stable
#print axioms C08_names
#print axioms C08_builtins
#print axioms C08_clone
#print axioms C08_wraps
#print axioms C08_full_false
#print axioms C08_wraps_names
#print axioms C08_wraps_prefixes
#print axioms C08_wraps_namespaces
#print axioms C08_bulk_is_history
#print axioms C08_parse_bridge
#print axioms C08_parse_registrations
#print axioms C08_parse_registrations_inv
#print axioms C08_parse_tree
#print axioms C08_parse_places
#print axioms C08_parse_capacity_needed
#print axioms C08_parse_history
#print axioms C08_parse_history_tree
#print axioms C08_html5
