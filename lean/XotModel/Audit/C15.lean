import XotModel.Props.C15
open XotModel.Props
#print axioms C15_subset
#print axioms C15_same_nodes
#print axioms C15_frame
#print axioms C15_idem_false
#print axioms C15_serialises_false
#print axioms C15_recursive_form
#print axioms C15_serialises_partial
