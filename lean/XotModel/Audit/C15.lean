import XotModel.Props.C15
open XotModel.Props
#print axioms C15_subset
#print axioms C15_same_nodes
#print axioms C15_frame
#print axioms C15_keeps_undeclarations
#print axioms C15_keeps_undeclarations_at
#print axioms C15_keeps_undeclarations_unique_needed
#print axioms C15_terminates
#print axioms C15_pass_false
#print axioms C15_fuel_suffices
#print axioms C15_idem
#print axioms C15_recursive_form
#print axioms C15_serialises
#print axioms C15_serialises_root
#print axioms C15_serialises_call_node
#print axioms C15_serialises_inside
#print axioms C15_serialises_inside_only_elements_needed
#print axioms C15_serialises_everywhere
#print axioms C15_serialises_unique_needed
#print axioms C15_representable
#print axioms C15_representable_fragment
#print axioms C15_reparses_deep_equal
#print axioms C15_roundtrip
#print axioms C15_roundtrip_text
#print axioms C15_reachable_dedup
#print axioms C15_reachable_dedup_full
