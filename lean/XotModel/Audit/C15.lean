import XotModel.Props.C15
open XotModel.Props
#print axioms C15_subset
#print axioms C15_same_nodes
#print axioms C15_frame
#print axioms C15_idem_false
#print axioms C15_serialises_false
#print axioms C15_recursive_form
#print axioms C15_serialises_partial
#print axioms C15_recursive_form_inner
#print axioms C15_serialises_partial_inner
#print axioms C15_keeps_undeclarations
#print axioms C15_keeps_undeclarations_at
#print axioms C15_keeps_undeclarations_unique_needed
#print axioms C15_idem_partial
#print axioms C15_idem_partial_tree
#print axioms C15_idem_partial_noShadowing
#print axioms C15_idem_needs_noRebind
#print axioms C15_idem_needs_noFlag
#print axioms C15_representable
#print axioms C15_representable_fragment
#print axioms C15_reparses_deep_equal
#print axioms C15_roundtrip_partial
#print axioms C15_roundtrip_partial_text
#print axioms C15_rt_witness_noShadowing
