import XotModel.Props.C16
open XotModel.Props
#print axioms C16_literals
#print axioms C16_tokens
#print axioms C16_tokens_conv
#print axioms C16_tokens_fail
#print axioms C16_pretty
#print axioms C16_pretty_conv
#print axioms C16_write
#print axioms C16_write_default
#print axioms C16_to_string
#print axioms C16_xml_string_body
#print axioms C16_xml_string
#print axioms C16_xml_string_conv
#print axioms C16_events_start
#print axioms C16_events_element
#print axioms C16_events_inherited
#print axioms C16_events_leaf
#print axioms C16_events_children
#print axioms C16_events_tagged
#print axioms C16_events_order
#print axioms C16_normalizer_tokens
#print axioms C16_normalizer_write
#print axioms C16_normalizer_write_fail
#print axioms C16_normalizer_events
