import XotModel.Props.C11
open XotModel.Props
#print axioms C11_insert_existing_keeps_nodes
#print axioms C11_remove_absent
#print axioms C11_nonelement_panics
