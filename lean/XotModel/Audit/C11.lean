import XotModel.Props.C11
open XotModel.Props
#print axioms C11_insert_existing_keeps_nodes
#print axioms C11_remove_absent
#print axioms C11_nonelement_panics
#print axioms C11_refine_insert
#print axioms C11_insert_nodes
#print axioms C11_refine_remove
#print axioms C11_refine_clear
#print axioms C11_refine_insert_node
#print axioms C11_any_append_entry
#print axioms C11_other_view_untouched
#print axioms C11_children_untouched
#print axioms C11_children_untouched_node
#print axioms C11_unique_keys
#print axioms C11_reference_is_a_map
#print axioms C11_reads
#print axioms C11_histories
#print axioms C11_step
#print axioms C11_entry_or_insert
#print axioms C11_entry_or_default
#print axioms C11_entry_and_modify
#print axioms C11_entry_and_modify_or_insert
#print axioms C11_entry_insert_remove
#print axioms C11_get_mut
#print axioms C11_order
