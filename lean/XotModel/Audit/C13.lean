import XotModel.Props.C13
open XotModel.Props
#print axioms C13_iff_fails_on_attribute_nodes
#print axioms C13_shallow_fails_on_repeated_ignore
