import XotModel.Props.C13
open XotModel.Props
#print axioms C13_iff
#print axioms C13_attribute_nodes
#print axioms C13_namespace_nodes
#print axioms C13_reflexive
#print axioms C13_symmetric
#print axioms C13_transitive
#print axioms C13_advanced
#print axioms C13_advanced_abnormal
#print axioms C13_advanced_all
#print axioms C13_ignores_declarations
#print axioms C13_ignores_prefix
#print axioms C13_ignores_attribute_order
#print axioms C13_xpath
#print axioms C13_xpath_other
#print axioms C13_children
#print axioms C13_shallow_ignore
#print axioms C13_shallow
#print axioms C13_string_value
#print axioms C13_string_value_other
