import XotModel.Props.C13
open XotModel.Props
#print axioms C13_iff
#print axioms C13_iff_partial
#print axioms C13_iff_fails_on_attribute_nodes
#print axioms C13_iff_Statement_false
#print axioms C13_abnormal_always_equal
#print axioms C13_abnormal_vs_normal
#print axioms C13_reflexive
#print axioms C13_symmetric
#print axioms C13_transitive
#print axioms C13_advanced
#print axioms C13_advanced_all
#print axioms C13_ignores_declarations
#print axioms C13_ignores_prefix
#print axioms C13_ignores_attribute_order
#print axioms C13_xpath
#print axioms C13_xpath_other
#print axioms C13_children
#print axioms C13_shallow_ignore_partial
#print axioms C13_shallow_fails_on_repeated_ignore
#print axioms C13_shallow_wrong_true_on_repeated_ignore
#print axioms C13_shallow_ignore_Statement_false
#print axioms C13_shallow
#print axioms C13_string_value
#print axioms C13_string_value_other
