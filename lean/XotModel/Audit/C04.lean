import XotModel.Props.C04
open XotModel.Props
#print axioms C04_init
#print axioms C04_setConsolidation
#print axioms C04_setValue_handles
