import XotModel.Props.C05
open XotModel.Props
#print axioms C05_later_survives_witness
