import XotModel.Props.C05
open XotModel.Props
#print axioms C05_later_survives_witness
#print axioms normal_of_never_off
#print axioms C05_remove
#print axioms C05_detach
#print axioms C05_append_exact
#print axioms C05_append_resident
#print axioms C05_append
#print axioms C05_samepos_append
#print axioms C05_prepend
#print axioms C05_prepend_resident
#print axioms C05_insertAfter
#print axioms C05_insertAfter_resident
#print axioms C05_insertBefore
#print axioms C05_insertBefore_resident
#print axioms C05_samepos_prepend
#print axioms C05_samepos_insertAfter
#print axioms C05_samepos_insertBefore
#print axioms C05_samepos_spec
#print axioms C05_survivor_append_witness
