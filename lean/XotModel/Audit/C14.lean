import XotModel.Props.C14
open XotModel.Props
#print axioms C14_cdata_literals
#print axioms C14_cdata_cr_reference
#print axioms C14_cdata
#print axioms C14_gt_tables
#print axioms C14_gt
#print axioms C14_gt_no_cdata_end
#print axioms C14_gt_lexsafe
#print axioms C14_pretty_content
#print axioms C14_pretty_content_conv
#print axioms C14_pretty_string
#print axioms C14_pretty_where_newline
#print axioms C14_pretty_where_mixed
#print axioms C14_pretty_where_entry
#print axioms C14_pretty_where
#print axioms C14_pretty_where_endtag
#print axioms C14_doctype_element
#print axioms C14_doctype_document
#print axioms C14_pretty_where_tree
#print axioms C14_pretty_where_tree_mixed
#print axioms C14_pretty_where_tree_preserve
