import XotModel.Props.C14
open XotModel.Props
#print axioms C14_cdata_literals
#print axioms C14_cdata
#print axioms C14_gt_tables
#print axioms C14_gt
#print axioms C14_gt_no_cdata_end
#print axioms C14_gt_lexsafe
