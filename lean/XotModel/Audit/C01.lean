import XotModel.Props.C01
open XotModel.Props
#print axioms C01_tables_attr
#print axioms C01_tables_text
#print axioms C01_text
#print axioms C01_attr
#print axioms C01_text_lexsafe
#print axioms C01_attr_lexsafe
