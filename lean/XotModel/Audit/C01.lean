import XotModel.Props.C01
open XotModel.Props
#print axioms C01_tables_attr
#print axioms C01_tables_text
#print axioms C01_text
#print axioms C01_attr
#print axioms C01_text_lexsafe
#print axioms C01_attr_lexsafe
#print axioms C01_serialised_is_rendering
#print axioms C01_serialised_is_rendering_ok
#print axioms C01_serialised_is_rendering_conv
#print axioms C01_serialised_fails_iff
#print axioms C01_serialised_is_rendering_at
#print axioms C01_serialised_is_rendering_representable
#print axioms C01_rendering_lexok
#print axioms C01_rendering_lexok_fragment
#print axioms C01_rendering_decodes
#print axioms C01_value_spelling
