import XotModel.Props.C17
open XotModel.Props
#print axioms C17_errors
#print axioms C17_inside
#print axioms C17_errors_content
#print axioms C17_ordered
#print axioms C17_boundaries
#print axioms C17_span_element_start
#print axioms C17_span_element_end
#print axioms C17_span_attribute
#print axioms C17_span_text_first
#print axioms C17_span_text_next
#print axioms C17_span_comment
#print axioms C17_span_pi
#print axioms C17_total_top
#print axioms C17_total
#print axioms C17_lex_slices
#print axioms C17_lex_sliceOf
#print axioms C17_lex_errpos
#print axioms C17_lex_shape
#print axioms C17_string_boundaries
#print axioms C17_string_inside
#print axioms C17_lex_ordered
#print axioms C17_string_ordered
#print axioms C17_lex_canonical_positions
