import XotModel.Props.C09
open XotModel.Props
#print axioms C09_in_scope
#print axioms C09_ns_for_prefix
#print axioms C09_ns_for_prefix_partial
#print axioms C09_ns_for_prefix_false
#print axioms C09_defined
#print axioms C09_prefix_sound
#print axioms C09_prefix_complete
#print axioms C09_prefix_iff
#print axioms C09_fullname_string
#print axioms C09_fullname_element_partial
#print axioms C09_fullname_attribute_partial
#print axioms C09_fullname_false_attribute
#print axioms C09_fullname_false_element
#print axioms C09_node_name_ref
#print axioms C09_inherited_sound
#print axioms C09_unresolved_recursive
#print axioms C09_unresolved_element
#print axioms C09_unresolved_real
#print axioms C09_stack_invariant
#print axioms C09_unresolved
#print axioms C09_unresolved_needs
#print axioms C09_unresolved_unique_needed
#print axioms C09_inherited
#print axioms C09_inherited_iff
