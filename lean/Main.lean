/-
  xotmodel — the model behind a one-request-per-line protocol.
  A malformed or unknown request is answered `bad-request`, never defaulted.
  State carried between lines: the vocabulary (`vocab …`) and the `forest` session.
-/
import XotModel.Driver.Entity
import XotModel.Driver.Tree
import XotModel.Driver.Compare
import XotModel.Driver.Forest
import XotModel.Driver.Fspec
import XotModel.Driver.IdMap
import XotModel.Driver.Axes
import XotModel.Driver.Output
import XotModel.Driver.Scope
import XotModel.Driver.Ffixed
import XotModel.Driver.Html5
import XotModel.Driver.Fmap
import XotModel.Driver.Parse
import XotModel.Driver.Fclone
import XotModel.Driver.Repair
import XotModel.Driver.Lex
import XotModel.Driver.SerTokens
import XotModel.Driver.Accepted
import XotModel.Driver.Fprefix
import XotModel.Driver.Fanyorder
import XotModel.Driver.Fanyorder2
import XotModel.Driver.Fanyorder3
import XotModel.Driver.Fidx
import XotModel.Driver.Fcreation
import XotModel.Driver.Bytes
import XotModel.Driver.ValidDoc
import XotModel.Driver.Arena
import XotModel.Driver.ArenaRefine

open XotModel.Driver

def dispatch (st : DState) (line : String) : DState × String :=
  match words line with
  | "vocab" :: rest => (handleVocab st rest).getD (st, "bad-request")
  | "entity" :: rest => (st, (handleEntity rest).getD "bad-request")
  | "tree" :: rest => (st, (handleTree rest).getD "bad-request")
  | "cmp" :: rest => (st, (handleCmp st rest).getD "bad-request")
  | "idmap" :: rest => (handleIdMap st rest).getD (st, "bad-request")
  | "axes" :: rest => (st, (handleAxes rest).getD "bad-request")
  | "validate" :: rest => (st, (handleValidate rest).getD "bad-request")
  | "ser" :: rest => (st, (handleSer st rest).getD "bad-request")
  | "scope" :: rest => (st, (handleScope st rest).getD "bad-request")
  | "html" :: rest => (st, (handleHtml st rest).getD "bad-request")
  | "build" :: rest => (st, (handleBuild st rest).getD "bad-request")
  | "accguard" :: rest => (st, (handleAccGuard st rest).getD "bad-request")
  | "repair" :: rest => (st, (handleRepair st rest).getD "bad-request")
  | "lex" :: rest => (st, (handleLex rest).getD "bad-request")
  | "representable" :: rest => (st, (handleRepresentable st rest).getD "bad-request")
  | "sertokens" :: rest => (st, (handleSerTokens st rest).getD "bad-request")
  | "standalone" :: rest => (st, (handleStandalone rest).getD "bad-request")
  | "paramrt" :: rest => (st, (handleParamRt st rest).getD "bad-request")
  | "bytes" :: rest => (st, (handleBytes rest).getD "bad-request")
  | "arena" :: rest => (st, ((handleArena rest).orElse (fun _ => handleArenaRefine rest)).getD "bad-request")
  | _ => (st, "bad-request")

structure MState where
  d : DState := {}
  forest : FState := {}
  /-- the xml:id index of the forest session (`Driver/Fidx`) -/
  idx : IdIndex := []

def dispatchAll (st : MState) (line : String) : MState × String :=
  match words line with
  | ["forest", "reset"] => ({ st with forest := {}, idx := [] }, "ok")
  | "forest" :: "parse" :: _ | "forest" :: "parse_fragment" :: _ | "forest" :: "xml_id" :: _ =>
    (match handleFidx st.forest st.idx ((words line).drop 1) with
     | some (fs, idx, resp) => ({ st with forest := fs, idx := idx }, resp)
     | none => (st, "bad-request"))
  | "forest" :: "prog" :: rest => (st, (handleFanyorder st.forest rest).getD "bad-request")
  | "forest" :: "prog2" :: rest => (st, (handleFanyorder2 st.forest rest).getD "bad-request")
  | "forest" :: "prog3" :: rest => (st, (handleFanyorder3 st.forest rest).getD "bad-request")
  | "forest" :: "spec" :: _ | "forest" :: "specx" :: _ | "forest" :: "specp" :: _ | "forest" :: "specpx" :: _
  | "forest" :: "specpc" :: _ | "forest" :: "specpk" :: _ | "forest" :: "specpkx" :: _ =>
    let ws := (words line).drop 1
    (st, ((handleFspec st.forest ws).orElse (fun _ => handleFcreationSpec st.forest ws)).getD "bad-request")
  | "forest" :: "fixed" :: rest => (match handleFfixed st.forest rest with | some (fs, resp) => ({ st with forest := fs }, resp) | none => (st, "bad-request"))
  | "forest" :: rest =>
    (match handleFprefix st.d.env st.forest rest with
     | some (fs, env, resp) => ({ st with forest := fs, d := { st.d with env := env } }, resp)
     | none =>
       (match ((handleFclone st.d.env st.forest rest).orElse (fun _ => handleForest st.forest rest)).orElse
           (fun _ => handleFcreation st.forest rest) with
        | some (fs, resp) => ({ st with forest := fs }, resp)
        | none => (st, "bad-request")))
  | "fmap" :: rest =>
    (match handleFmap st.forest rest with
     | some (fs, resp) => ({ st with forest := fs }, resp)
     | none => (st, "bad-request"))
  | _ =>
    let (d, resp) := dispatch st.d line
    ({ st with d := d }, resp)

partial def loop (h : IO.FS.Stream) (out : IO.FS.Stream) (st : MState) : IO Unit := do
  let line ← h.getLine
  if line.isEmpty then return ()
  let (st', resp) := dispatchAll st (line.trimAscii.toString)
  out.putStrLn resp
  loop h out st'

def main : IO Unit := do
  let out ← IO.getStdout
  loop (← IO.getStdin) out {}
  out.flush
