/-
  xotmodel — the model behind a one-request-per-line protocol.
  A malformed or unknown request is answered `bad-request`, never defaulted.
  State carried between lines: the vocabulary (`vocab …`).
-/
import XotModel.Driver.Entity
import XotModel.Driver.Tree
import XotModel.Driver.Parse

open XotModel.Driver

def dispatch (st : DState) (line : String) : DState × String :=
  match words line with
  | "vocab" :: rest => (handleVocab st rest).getD (st, "bad-request")
  | "entity" :: rest => (st, (handleEntity rest).getD "bad-request")
  | "tree" :: rest => (st, (handleTree rest).getD "bad-request")
  | "build" :: rest => (st, (handleBuild st rest).getD "bad-request")
  | _ => (st, "bad-request")

partial def loop (h : IO.FS.Stream) (out : IO.FS.Stream) (st : DState) : IO Unit := do
  let line ← h.getLine
  if line.isEmpty then return ()
  let (st', resp) := dispatch st (line.trimAscii.toString)
  out.putStrLn resp
  loop h out st'

def main : IO Unit := do
  let out ← IO.getStdout
  loop (← IO.getStdin) out {}
  out.flush
