/-
  xotmodel — the model behind a one-request-per-line protocol.
  A malformed or unknown request is answered `bad-request`, never defaulted.
-/
import XotModel.Driver.Entity

open XotModel.Driver

def dispatch (line : String) : String :=
  match words line with
  | "entity" :: rest => (handleEntity rest).getD "bad-request"
  | _ => "bad-request"

partial def loop (h : IO.FS.Stream) (out : IO.FS.Stream) : IO Unit := do
  let line ← h.getLine
  if line.isEmpty then return ()
  out.putStrLn (dispatch (line.trimAscii.toString))
  loop h out

def main : IO Unit := do
  let out ← IO.getStdout
  loop (← IO.getStdin) out
  out.flush
