//! Suite `fspec` (C05): histories as in suite `forest`; before the line of every successful
//! move / remove / detach / wrap / unwrap / replace call comes the request
//! `forest spec <op> <labels…>` whose implementation-side answer is the CONTENT dump (labels
//! erased) of the real forest AFTER the real call.  The model answers it with the content of
//! the SPECIFICATION (`Model/FspecSpec.lean`) applied to its state BEFORE the call, so a
//! disagreement on such a line means implementation != specification.  `forest specx …` (answer
//! `1`) cross-checks inside the model that its own result is handle-for-handle the specification
//! with xot's survivor rule.
//! Second round: `clone`, attribute / namespace `map_insert` / `map_remove`, the value setters and
//! `text_content_set` are compared in the same way with `Model/FspecSpec2.lean`.
//! Oracles (implementation only): the survivor of a text merge (property text: the earlier
//! node), and conservation of character data by calls that destroy nothing.
use crate::common::{enc, Rng, Sink};
use crate::suite_forest::Session;
use crate::tree::*;
use xot::Node;


/// The three views of every live element: namespace entries, attribute entries, ordinary children.
type Views = Vec<(usize, Vec<(xot::PrefixId, xot::NamespaceId)>, Vec<(xot::NameId, String)>, Vec<Node>)>;

fn views(s: &Session) -> Views {
    s.live()
        .iter()
        .copied()
        .filter(|&l| s.xot.is_element(s.nodes[l]))
        .map(|l| {
            let n = s.nodes[l];
            (l, s.xot.namespaces(n).to_vec(), s.xot.attributes(n).to_vec(), s.xot.children(n).collect())
        })
        .collect()
}

/// Number of entries in which two entry lists differ when one is the other with a single entry
/// added, removed or given another value; 2 = more than that.
fn touched<T: PartialEq>(a: &[T], b: &[T]) -> usize {
    if a == b {
        return 0;
    }
    let (short, long) = if a.len() <= b.len() { (a, b) } else { (b, a) };
    if long.len() == short.len() + 1 {
        for i in 0..long.len() {
            if short[..i] == long[..i] && short[i..] == long[i + 1..] {
                return 1;
            }
        }
        return 2;
    }
    if a.len() == b.len() {
        return if a.iter().zip(b.iter()).filter(|(x, y)| x != y).count() == 1 { 1 } else { 2 };
    }
    2
}

/// Is `req` an update of one attribute / namespace entry?  Returns how many entries it may touch
/// (moving an ATTACHED attribute or namespace node with any_append touches two: one leaves its
/// element, one arrives).
fn entry_update(s: &Session, req: &str) -> Option<usize> {
    let w: Vec<&str> = req.split(' ').collect();
    match w[0] {
        "map_insert" | "map_remove" | "set_attribute" | "remove_attribute" | "set_namespace" | "remove_namespace"
        | "append_namespace" | "attr_set_value" | "ns_set_ns" => Some(1),
        "any_append" | "append_attribute_node" | "append_namespace_node" => {
            let b: usize = w.get(2)?.parse().ok()?;
            let n = *s.nodes.get(b)?;
            if s.xot.is_removed(n) || !(s.xot.is_attribute_node(n) || s.xot.is_namespace_node(n)) {
                return None;
            }
            Some(if s.xot.parent(n).is_some() { 2 } else { 1 })
        }
        _ => None,
    }
}

/// Implementation-only oracle for "attribute / namespace updates touch exactly one entry" and "no
/// other node is created, lost, reordered or altered": over all elements that are live before and
/// after a successful entry update, the namespace and attribute views differ in at most the
/// allowed number of entries and no list of ordinary children changes (seed C05e).
fn exec_entry_checked(s: &mut Session, sink: &mut Sink, req: &str) -> String {
    let allowed = entry_update(s, req);
    let before = if allowed.is_some() { views(s) } else { vec![] };
    let resp = s.exec(sink, req);
    if let (Some(allowed), true) = (allowed, resp.starts_with("ok")) {
        let after = views(s);
        let mut n = 0;
        let mut kids_changed = false;
        for (l, ns_b, at_b, ch_b) in &before {
            if let Some((_, ns_a, at_a, ch_a)) = after.iter().find(|v| v.0 == *l) {
                n += touched(ns_b, ns_a) + touched(at_b, at_a);
                kids_changed |= ch_b != ch_a;
            }
        }
        if n > allowed || kids_changed {
            let op = req.split(' ').next().unwrap();
            sink.fail(
                "C05",
                &format!("C05:{}-touches-more-than-one-entry", op),
                &format!("{}: the attribute / namespace views of the live elements differ in {} entries afterwards (at most {} may){}", req, n, allowed, if kids_changed { "; a list of ordinary children changed" } else { "" }),
                &s.history,
            );
        } else {
            sink.stat("oracle.entry-update-touches-one-entry");
        }
    }
    resp
}

/// Emit the requests that build `t` (creation + any_append), returns the root's label.
fn build_ops(s: &mut Session, sink: &mut Sink, t: &GTree) -> usize {
    let r = s.exec(sink, &format!("new {}", GTree::leaf(t.v.clone()).wire()));
    let root: usize = r[3..].parse().unwrap();
    for k in &t.kids {
        let kl = build_ops(s, sink, k);
        exec_entry_checked(s, sink, &format!("any_append {} {}", root, kl));
    }
    root
}

const OPS: &[(&str, usize)] = &[
    ("append", 12), ("prepend", 10), ("insert_after", 12), ("insert_before", 12), ("detach", 6), ("remove", 6),
    ("replace", 8), ("unwrap", 6), ("wrap", 6), ("clone", 3), ("any_append", 2), ("map_insert", 3), ("map_remove", 2),
    ("set_text", 2), ("set_comment", 1), ("set_pi_data", 1), ("set_name", 1), ("text_content_set", 2), ("new", 10), ("cons", 1),
];

/// The calls of suite_fcreation.rs, with their weights here.
const CREATION_OPS: &[(&str, usize)] = &[
    ("new_doc_with", 8), ("append_text", 6), ("append_element", 3), ("append_comment", 2), ("append_pi", 2), ("append_namespace", 2),
    ("set_attribute", 1), ("remove_attribute", 1), ("set_namespace", 1), ("remove_namespace", 1), ("el_set_name", 1),
    ("attr_set_value", 1), ("ns_set_ns", 1), ("pi_set_target", 1), ("text_push", 1), ("value_mut_set", 1),
];

fn pick_op(rng: &mut Rng) -> &'static str {
    let total: usize = OPS.iter().chain(CREATION_OPS.iter()).map(|o| o.1).sum();
    let mut x = rng.below(total);
    for (n, w) in OPS.iter().chain(CREATION_OPS.iter()) {
        if x < *w {
            return n;
        }
        x -= w;
    }
    unreachable!()
}

fn small_text(rng: &mut Rng) -> String {
    rng.pick(&["x", "y", " ", "ab", "", "z-"]).to_string()
}

fn gen_value(rng: &mut Rng) -> GValue {
    match rng.below(12) {
        0..=3 => GValue::Element(*rng.pick(&[2usize, 3, 6, 9])),
        4..=8 => GValue::Text(small_text(rng)),
        9 => GValue::Comment(rng.pick(&["c", "", "d"]).to_string()),
        10 => GValue::PI(17, if rng.chance(1, 2) { None } else { Some("d".into()) }),
        _ => GValue::Document,
    }
}

/// Strip the labels from a `dump` answer: `R 3 E 2 [ 4 T s:78 ]` -> `R E 2 [ T s:78 ]`.
pub fn erase_labels(dump: &str) -> String {
    let toks: Vec<&str> = dump.split(' ').filter(|t| !t.is_empty()).collect();
    let mut out: Vec<&str> = vec![];
    let mut i = 0;
    while i < toks.len() {
        match toks[i] {
            "R" | "[" | "]" | "CORRUPT" => {
                out.push(toks[i]);
                i += 1;
            }
            _ => {
                // label, then the value
                i += 1;
                let arity = match toks[i] {
                    "D" => 1,
                    "E" | "T" | "C" => 2,
                    "P" | "A" | "N" => 3,
                    other => panic!("bad dump token {}", other),
                };
                for j in 0..arity {
                    out.push(toks[i + j]);
                }
                i += arity;
            }
        }
    }
    out.join(" ")
}

/// Number of nodes in a `dump` answer.
pub fn count_nodes(dump: &str) -> usize {
    erase_labels(dump).split(' ').filter(|t| matches!(*t, "D" | "E" | "T" | "C" | "P" | "A" | "N")).count()
}

/// Total number of characters held by live text nodes.
fn total_text(s: &Session) -> usize {
    s.live().iter().map(|&l| s.xot.text_str(s.nodes[l]).map(|t| t.chars().count()).unwrap_or(0)).sum()
}

/// Is there a pair of adjacent text nodes anywhere?
fn has_adjacent_text(s: &Session) -> bool {
    s.live().iter().any(|&l| {
        let n = s.nodes[l];
        s.xot.is_text(n) && s.xot.next_sibling(n).map(|m| s.xot.is_text(m)).unwrap_or(false)
    })
}

/// What the survivor oracle needs to know before a move: the moved text node's data and the
/// text node that will FOLLOW it at the destination (if any).
struct Pre {
    moved: Node,
    moved_text: Option<String>,
    follower: Option<(Node, String)>,
    total: usize,
}

fn observe(s: &Session, op: &str, a: Node, b: Node) -> Pre {
    let txt = |n: Node| s.xot.text_str(n).map(|t| t.to_string());
    let follower = match op {
        "prepend" => s.xot.first_child(a),
        "insert_before" => Some(a),
        "insert_after" => {
            if s.xot.is_text(a) {
                None
            } else {
                s.xot.next_sibling(a)
            }
        }
        _ => None,
    };
    let follower = follower.filter(|&n| n != b).and_then(|n| txt(n).map(|t| (n, t)));
    Pre { moved: b, moved_text: txt(b), follower, total: total_text(s) }
}

/// The self-merge geometry (finding `C05:move-changes-character-data`, fixed by xot eccbbb7), read
/// off the implementation before the call: with consolidation on the moved node `b` is a text
/// node between two text nodes `p b q`, and the call asks for the place `b` stands at once `p`
/// and `q` have been merged: `append` to its own parent with `q` last, `insert_before` the node
/// after `q`, and the mirror images `insert_after(q, b)` (the reference is merged away, `b` already
/// follows `p`), `prepend` with `p` first; `replace(r, b)` with `r` directly after `q`.
fn selfmerge_geometry(s: &Session, op: &str, a: Node, b: Node) -> Option<&'static str> {
    if !s.cons_on || !s.xot.is_text(b) {
        return None;
    }
    let p = s.xot.previous_sibling(b).filter(|&n| s.xot.is_text(n))?;
    let q = s.xot.next_sibling(b).filter(|&n| s.xot.is_text(n))?;
    let par = s.xot.parent(b)?;
    match op {
        "append" if a == par && s.xot.next_sibling(q).is_none() => Some("append"),
        "insert_before" if s.xot.next_sibling(q) == Some(a) => Some("insert_before"),
        "insert_after" if a == q => Some("insert_after"),
        "prepend" if a == par && s.xot.first_child(par) == Some(p) => Some("prepend"),
        "replace" if s.xot.next_sibling(q) == Some(a) => Some("replace"),
        _ => None,
    }
}

/// One call with the `forest spec` / `forest specx` lines and the oracles; false = stop the history.
fn step(s: &mut Session, sink: &mut Sink, op: &str, req: &str, x: usize, y: usize, cons: &mut bool, restrict: bool) -> bool {
    sink.stat(&format!("op.{}", op));
    let spec_op = matches!(op, "append" | "prepend" | "insert_after" | "insert_before" | "detach" | "remove" | "replace" | "unwrap" | "wrap");
    // calls compared with `Model/FspecSpec2.lean` (no text-merge oracle; proved without `Forest.Normal`)
    let spec2_op = matches!(op, "clone" | "map_insert" | "map_remove" | "set_text" | "set_comment" | "set_pi_data" | "set_name" | "text_content_set");
    let nonnormal = *cons && has_adjacent_text(s);
    let pre = if spec_op { Some(observe(s, op, s.nodes[x], s.nodes[y])) } else { None };
    let corner = if spec_op { selfmerge_geometry(s, op, s.nodes[x], s.nodes[y]) } else { None };
    // `replace(a, b)` in the self-merge geometry with a text node directly behind `a`: the corner
    // `Spec.selfMergeReplace` (finding `C05:replace-selfmerge-leaves-adjacent-text`); remembered
    // with the text node before `b`, which takes in `b`'s data, and the text node `z` behind `a`
    let replace_corner: Option<(Node, Node)> = if op == "replace" && corner == Some("replace") {
        let a = s.nodes[x];
        let b = s.nodes[y];
        match (s.xot.next_sibling(a), s.xot.previous_sibling(b)) {
            (Some(z), Some(p)) if s.xot.is_text(z) => Some((p, z)),
            _ => None,
        }
    } else {
        None
    };
    // the compositions "create a node, then append it" and `new_document_with_element`
    let creation_move = matches!(op, "new_doc_with" | "append_text" | "append_element" | "append_comment" | "append_pi");
    let creation_other = crate::suite_fcreation::is_creation_op(op) && !creation_move;
    let pre_total = total_text(s);
    // for append_text: the text node the new data must be merged into (the earlier node survives)
    let tail_text: Option<(Node, String)> = if op == "append_text" {
        s.xot.last_child(s.nodes[x]).and_then(|c| s.xot.text_str(c).map(|t| (c, t.to_string())))
    } else {
        None
    };
    if let Some(k) = crate::suite_fcreation::classify(s, req) {
        sink.stat(&format!("creation.{}", k));
    }
    // node census for the calls that change a value in place: "no other node is created, lost …"
    // (element_wrap adds exactly one element and never makes two text nodes adjacent, so nothing
    // may be merged away either: seed C05g)
    let census_op = matches!(op, "set_text" | "set_comment" | "set_pi_data" | "set_name" | "text_content_set" | "attr_set_value"
        | "ns_set_ns" | "pi_set_target" | "text_push" | "value_mut_set" | "el_set_name" | "wrap");
    let texts_before: Vec<String> = if op == "wrap" { s.live().iter().filter_map(|&l| s.xot.text_str(s.nodes[l]).map(|t| t.to_string())).collect() } else { vec![] };
    let census_before = if census_op { count_nodes(&s.dump()) } else { 0 };
    let childless_element = census_op && s.nodes.get(x).map_or(false, |&n| !s.xot.is_removed(n) && s.xot.is_element(n) && s.xot.first_child(n).is_none());
    let mark = sink.lines.len();
    let resp = exec_entry_checked(s, sink, req);
    if census_op && resp != "panic" {
        // text_content_mut of an element without children creates the (one) text child; nothing else
        // creates or destroys a node, whatever the call answers (seed C05f)
        let expected = census_before
            + if op == "text_content_set" && resp.starts_with("ok") && childless_element { 1 } else { 0 }
            + if op == "wrap" && resp.starts_with("ok") { 1 } else { 0 };
        if op == "wrap" && resp.starts_with("ok") {
            let mut a = texts_before.clone();
            let mut b: Vec<String> = s.live().iter().filter_map(|&l| s.xot.text_str(s.nodes[l]).map(|t| t.to_string())).collect();
            a.sort();
            b.sort();
            if a != b {
                sink.fail("C05", "C05:wrap-alters-text-nodes", &format!("{}: the text nodes held {:?} before and {:?} after", req, a, b), &s.history);
            }
        }
        let after = count_nodes(&s.dump());
        if after != expected {
            sink.fail("C05", &format!("C05:{}-creates-or-loses-nodes", op), &format!("{} (answer {}): {} nodes before, {} after, expected {}", req, resp, census_before, after, expected), &s.history);
        } else {
            sink.stat("oracle.value-update-node-census");
        }
    }
    sink.stat(&format!("resp.{}", resp.split(' ').next().unwrap()));
    if resp == "panic" {
        return false;
    }
    if op == "cons" {
        *cons = req.ends_with('1');
    }
    if creation_move && resp.starts_with("ok") {
        if nonnormal {
            sink.stat("spec.prestate-has-adjacent-text");
        }
        // with consolidation on, the call must not leave adjacent text nodes behind: neither at the
        // place the element left (`new_document_with_element` of an attached element) nor under
        // the parent (`append_text` after a trailing text node)
        let left_adjacent = *cons && !nonnormal && has_adjacent_text(s);
        if left_adjacent {
            sink.fail("C05", &format!("C05:{}-leaves-adjacent-text", op), &format!("{}: consolidation is on and the forest had no adjacent text nodes, afterwards it has", req), &s.history);
        }
        let content = erase_labels(&s.dump());
        // pair reading: defined for every forest
        sink.lines.insert(mark, (format!("forest specp {}", req), content.clone()));
        sink.lines.insert(mark + 1, (format!("forest specpx {}", req), "1".into()));
        sink.stat("specp.checked");
        if (nonnormal && restrict) || left_adjacent {
            sink.stat("spec.skipped");
        } else {
            sink.lines.insert(mark, (format!("forest spec {}", req), content));
            sink.lines.insert(mark + 1, (format!("forest specx {}", req), "1".into()));
            sink.stat("spec.checked");
            sink.stat(&format!("spec.checked.{}", op));
        }
        // character data: nothing but the appended text appears, nothing disappears
        let added = if op == "append_text" { crate::common::dec(req.split(' ').nth(2).unwrap()).unwrap().chars().count() } else { 0 };
        let after = total_text(s);
        if after != pre_total + added {
            sink.fail("C05", "C05:move-changes-character-data", &format!("{}: the text nodes held {} characters before and {} after (the call adds {})", req, pre_total, after, added), &s.history);
        }
        // the appended data is merged into the trailing text node, which survives
        if let Some((t, old)) = &tail_text {
            if *cons {
                let want = format!("{}{}", old, crate::common::dec(req.split(' ').nth(2).unwrap()).unwrap());
                if s.xot.is_removed(*t) || s.xot.text_str(*t) != Some(want.as_str()) || s.xot.next_sibling(*t).is_some() {
                    sink.fail("C05", "C05:append_text-not-merged-into-trailing-text", &format!("{}: the trailing text node should now hold `{}` and be the last child", req, want), &s.history);
                } else {
                    sink.stat("merge.append_text-into-trailing-text");
                }
            }
        }
    }
    if (spec2_op || creation_other) && resp.starts_with("ok") {
        // the real post-state against the specification applied to the model's pre-state, and the
        // model's own result handle for handle
        let content = erase_labels(&s.dump());
        sink.lines.insert(mark, (format!("forest spec {}", req), content));
        sink.lines.insert(mark + 1, (format!("forest specx {}", req), "1".into()));
        sink.stat("spec.checked");
        sink.stat(&format!("spec.checked.{}", op));
    }
    if let Some(g) = corner {
        sink.stat(&format!("geometry.selfmerge.{}.{}", g, resp.split(' ').next().unwrap()));
    }
    if spec_op && resp.starts_with("ok") {
        let pre = pre.unwrap();
        if let Some(g) = corner {
            // the moved node's data must now stand in the text node its neighbours have become
            let mt = pre.moved_text.clone().unwrap_or_default();
            let kept = s.live().iter().any(|&l| s.xot.text_str(s.nodes[l]).map(|t| t.contains(mt.as_str())).unwrap_or(false));
            if !kept && !mt.is_empty() && op != "replace" {
                sink.fail("C05", "C05:move-changes-character-data", &format!("{}: self-merge geometry ({}): the data `{}` of the moved text node is in no text node afterwards", req, g, mt), &s.history);
            }
        }
        if nonnormal {
            sink.stat("spec.prestate-has-adjacent-text");
        }
        // oracle 0: with consolidation on, a call on a forest without adjacent text nodes
        // must not leave adjacent text nodes ("text nodes that become adjacent are merged")
        let left_adjacent = *cons && !nonnormal && has_adjacent_text(s);
        if left_adjacent {
            let sig = if op == "replace" {
                "C05:replace-between-texts-leaves-adjacent-text".to_string()
            } else {
                format!("C05:{}-leaves-adjacent-text", op)
            };
            sink.fail("C05", &sig, &format!("{}: consolidation is on and the forest had no adjacent text nodes, afterwards it has", req), &s.history);
        }
        // the PAIR reading of the consolidation clause (`Model/FspecSpec3.lean`) is defined for
        // every forest: compared on every successful move / remove / detach, also when the
        // pre-state already holds adjacent text nodes
        // (since the composite calls have a pair reading too — `Model/FspecSpec4.lean` — also
        // `unwrap`, `wrap` and `replace`)
        if matches!(op, "append" | "prepend" | "insert_after" | "insert_before" | "detach" | "remove" | "unwrap" | "wrap") {
            let content = erase_labels(&s.dump());
            sink.lines.insert(mark, (format!("forest specp {}", req), content));
            sink.lines.insert(mark + 1, (format!("forest specpx {}", req), "1".into()));
            sink.stat("specp.checked");
            sink.stat(&format!("specp.checked.{}", op));
            if nonnormal {
                sink.stat("specp.checked.prestate-has-adjacent-text");
                sink.stat(&format!("specp.checked.prestate-has-adjacent-text.{}", op));
            }
        }
        if op == "replace" {
            let content = erase_labels(&s.dump());
            // the corner predicate of the model against the geometry read off the implementation
            sink.lines.insert(mark, (format!("forest specpc {}", req), if replace_corner.is_some() { "1" } else { "0" }.into()));
            if replace_corner.is_some() {
                sink.stat("geometry.selfmerge.replace.corner");
            }
            // the reading the property demands (`specReplaceP`): on every forest, the corner included
            // since xot 609b613.  The oracle of the former finding stays: in the corner the text node
            // that took in the replacing text and the text node behind the replaced node became
            // adjacent in this call and must have been merged (it must never fire any more)
            // (`z` itself must be gone: a text node behind `z` was next to `z` before the call and stays)
            let unmerged = match replace_corner {
                Some((p, z)) => !s.xot.is_removed(p) && s.xot.is_text(p) && !s.xot.is_removed(z) && s.xot.next_sibling(p) == Some(z),
                None => false,
            };
            if unmerged {
                sink.stat("geometry.selfmerge.replace.leaves-adjacent-text");
                sink.fail(
                    "C05",
                    "C05:replace-selfmerge-leaves-adjacent-text",
                    &format!("{}: the replacing text node stood between two text nodes directly before the replaced node, which is followed by a text node; the text node that took in the replacing text and the text node behind the replaced node became adjacent in this call and are left unmerged", req),
                    &s.history,
                );
            } else {
                if replace_corner.is_some() {
                    sink.stat("geometry.selfmerge.replace.merged");
                }
                sink.lines.insert(mark, (format!("forest specp {}", req), content));
                sink.lines.insert(mark + 1, (format!("forest specpx {}", req), "1".into()));
                sink.stat("specp.checked");
                sink.stat("specp.checked.replace");
                if nonnormal {
                    sink.stat("specp.checked.prestate-has-adjacent-text");
                    sink.stat("specp.checked.prestate-has-adjacent-text.replace");
                }
            }
        }
        if (nonnormal && restrict) || left_adjacent {
            sink.stat("spec.skipped");
        } else {
            // the spec request goes BEFORE the call's own line: the model answers it on
            // the pre-state, the answer recorded here is the real post-state
            let content = erase_labels(&s.dump());
            sink.lines.insert(mark, (format!("forest spec {}", req), content));
            // handle-for-handle cross-check inside the model, for the calls with an exact
            // theorem (for `replace` next to the replacing node xot keeps the replacing
            // text node, i.e. the survivor rule is not "the moved node never survives")
            sink.lines.insert(mark + 1, (format!("forest specx {}", req), "1".into()));
            sink.stat("spec.checked");
            sink.stat(&format!("spec.checked.{}", op));
        }
        // oracle 1: survivor of a merge at the new place
        if let (Some(mt), Some((fol, ft))) = (&pre.moved_text, &pre.follower) {
            if *cons && s.xot.is_removed(pre.moved) && !s.xot.is_removed(*fol) {
                let now = s.xot.text_str(*fol).unwrap_or("").to_string();
                if now == format!("{}{}", mt, ft) {
                    sink.stat("merge.later-survives");
                    sink.fail(
                        "C05",
                        "C05:text-placed-before-text-keeps-later-node",
                        &format!("{}: the moved text node was placed before an existing text node; the existing (later) node survives with the merged data and the moved (earlier) node is destroyed", req),
                        &s.history,
                    );
                }
            }
        }
        if pre.moved_text.is_some() && *cons && s.xot.is_removed(pre.moved) && pre.follower.is_none() && op != "remove" && op != "replace" {
            sink.stat("merge.earlier-survives");
        }
        // oracle 2: no character data appears or disappears in calls that destroy nothing
        if !matches!(op, "remove" | "replace") {
            let after = total_text(s);
            if after != pre.total {
                sink.fail(
                    "C05",
                    "C05:move-changes-character-data",
                    &format!("{}: the text nodes held {} characters before and {} after", req, pre.total, after),
                    &s.history,
                );
            }
        }
    }
    true
}

pub fn one_history(rng: &mut Rng, sink: &mut Sink, n_ops: usize, allow_cons_off: bool, restrict: bool) {
    let mut s = Session::new();
    let mut cons = true;
    s.exec(sink, "reset");
    let mut cfg = GenCfg::default_cfg();
    cfg.max_depth = 3;
    cfg.max_kids = 3;
    cfg.text_max = 2;
    for _ in 0..(1 + rng.below(2)) {
        let t = match rng.below(3) {
            0 => gen_document(rng, &cfg),
            1 => gen_fragment(rng, &cfg),
            _ => gen_element(rng, &cfg, 1),
        };
        build_ops(&mut s, sink, &t);
    }
    if rng.chance(1, 2) {
        // a mixed-content element: text, element, text, comment, text …
        let mut kids = vec![];
        for i in 0..(3 + rng.below(4)) {
            if i % 2 == 0 {
                kids.push(GTree::leaf(GValue::Text(format!("t{}", i))));
            } else if rng.chance(2, 3) {
                kids.push(GTree::new(GValue::Element(*rng.pick(&[2usize, 3])), vec![]));
            } else {
                kids.push(GTree::leaf(GValue::Comment("c".into())));
            }
        }
        build_ops(&mut s, sink, &GTree::new(GValue::Element(4), kids));
    }
    for _ in 0..n_ops {
        let live = s.live();
        if live.is_empty() {
            break;
        }
        let op = if !restrict && allow_cons_off && rng.chance(1, 10) { "cons" } else { pick_op(rng) };
        let a = *rng.pick(&live);
        let b = *rng.pick(&live);
        let elems: Vec<usize> = live.iter().copied().filter(|&l| s.xot.is_element(s.nodes[l])).collect();
        let texts: Vec<usize> = live.iter().copied().filter(|&l| s.xot.is_text(s.nodes[l])).collect();
        let comments: Vec<usize> = live.iter().copied().filter(|&l| s.xot.is_comment(s.nodes[l])).collect();
        let pis: Vec<usize> = live.iter().copied().filter(|&l| s.xot.is_processing_instruction(s.nodes[l])).collect();
        let e = if elems.is_empty() || rng.chance(1, 8) { a } else { *rng.pick(&elems) };
        // bias the moved node towards text nodes: merges are the interesting part
        let mut b = if !texts.is_empty() && rng.chance(1, 3) { *rng.pick(&texts) } else { b };
        // … and towards nodes sitting between two text nodes: moving them away must merge the two
        let between: Vec<usize> = live
            .iter()
            .copied()
            .filter(|&l| {
                let n = s.nodes[l];
                match (s.xot.previous_sibling(n), s.xot.next_sibling(n)) {
                    (Some(p), Some(q)) => s.xot.is_text(p) && s.xot.is_text(q),
                    _ => false,
                }
            })
            .collect();
        let mut op = op;
        if op != "cons" && !between.is_empty() && rng.chance(1, 3) {
            b = *rng.pick(&between);
            op = *rng.pick(&["append", "prepend", "insert_after", "insert_before", "replace", "new_doc_with", "new_doc_with"]);
        }
        let (req, x, y): (String, usize, usize) = match op {
            "append" | "prepend" | "any_append" => {
                let p = if rng.chance(3, 4) { e } else { a };
                (format!("{} {} {}", op, p, b), p, b)
            }
            "insert_after" | "insert_before" | "replace" => (format!("{} {} {}", op, a, b), a, b),
            "detach" | "remove" | "unwrap" | "clone" => (format!("{} {}", op, a), a, a),
            "wrap" => (format!("wrap {} {}", a, rng.pick(&[2usize, 6])), a, a),
            "map_insert" => {
                if rng.chance(2, 3) {
                    (format!("map_insert attr {} {} {}", e, rng.pick(&[2usize, 3, 0, 6]), enc(&small_text(rng))), e, e)
                } else {
                    (format!("map_insert ns {} {} {}", e, rng.pick(&[0usize, 2, 3]), rng.pick(&[0usize, 2, 3])), e, e)
                }
            }
            "map_remove" => {
                if rng.chance(2, 3) {
                    (format!("map_remove attr {} {}", e, rng.pick(&[2usize, 3, 0, 6])), e, e)
                } else {
                    (format!("map_remove ns {} {}", e, rng.pick(&[0usize, 2, 3])), e, e)
                }
            }
            "set_text" => (format!("set_text {} {}", if !texts.is_empty() && rng.chance(2, 3) { *rng.pick(&texts) } else { a }, enc(&small_text(rng))), a, a),
            "set_comment" => (format!("set_comment {} {}", if !comments.is_empty() && rng.chance(3, 4) { *rng.pick(&comments) } else { a }, enc(&small_text(rng))), a, a),
            "set_pi_data" => (format!("set_pi_data {} {}", if !pis.is_empty() && rng.chance(3, 4) { *rng.pick(&pis) } else { a }, if rng.chance(1, 3) { "-".to_string() } else { enc(&small_text(rng)) }), a, a),
            "set_name" => (format!("set_name {} {}", e, rng.pick(&[2usize, 6, 9])), e, e),
            "text_content_set" => (format!("text_content_set {} {}", e, enc(&small_text(rng))), e, e),
            "new" => (format!("new {}", GTree::leaf(gen_value(rng)).wire()), a, a),
            "cons" => {
                if !allow_cons_off {
                    continue;
                }
                (format!("cons {}", rng.below(2)), a, a)
            }
            _ if crate::suite_fcreation::is_creation_op(op) => {
                let r = if op == "new_doc_with" && between.contains(&b) && s.xot.is_element(s.nodes[b]) {
                    format!("new_doc_with {}", b)
                } else {
                    crate::suite_fcreation::gen_req(op, rng, &s, &live)
                };
                let l: usize = r.split(' ').nth(1).unwrap().parse().unwrap();
                (r, l, l)
            }
            _ => unreachable!(),
        };
        if !step(&mut s, sink, op, &req, x, y, &mut cons, restrict) {
            return;
        }
        s.exec(sink, "dump");
        if rng.chance(1, 6) {
            s.exec(sink, "inv");
        }
    }
}

/// All (operation, node, node) triples over all small forests: one element with up to three
/// children drawn from {text, empty element, element with a text child}, plus a second
/// parentless tree (a text node or an element).
fn exhaustive(sink: &mut Sink) {
    let alphabet = || -> Vec<GTree> {
        vec![
            GTree::leaf(GValue::Text("x".into())),
            GTree::leaf(GValue::Element(3)),
            GTree::new(GValue::Element(3), vec![GTree::leaf(GValue::Text("y".into()))]),
        ]
    };
    let mut kid_lists: Vec<Vec<GTree>> = vec![vec![]];
    let mut frontier: Vec<Vec<GTree>> = vec![vec![]];
    for _ in 0..3 {
        let mut next = vec![];
        for l in &frontier {
            for a in alphabet() {
                // no adjacent text nodes in a freshly built list (any_append would merge them)
                if matches!(a.v, GValue::Text(_)) && l.last().map(|k: &GTree| matches!(k.v, GValue::Text(_))).unwrap_or(false) {
                    continue;
                }
                let mut l2 = l.clone();
                l2.push(a);
                next.push(l2);
            }
        }
        kid_lists.extend(next.iter().cloned());
        frontier = next;
    }
    let seconds = vec![GTree::leaf(GValue::Text("z".into())), GTree::leaf(GValue::Element(6))];
    const OPS2: &[&str] = &["append", "prepend", "insert_after", "insert_before", "replace"];
    const OPS1: &[&str] = &["detach", "remove", "unwrap", "wrap", "clone", "set_text", "text_content_set", "map_insert", "map_remove"];
    for kids in &kid_lists {
        for second in &seconds {
            let forest = vec![GTree::new(GValue::Element(2), kids.clone()), second.clone()];
            let n: usize = forest.iter().map(|t| t.size()).sum();
            let mut run = |op: &str, a: usize, b: usize| {
                let mut s = Session::new();
                let mut cons = true;
                s.exec(sink, "reset");
                for t in &forest {
                    build_ops(&mut s, sink, t);
                }
                let req = match op {
                    "wrap" => format!("wrap {} 6", a),
                    "detach" | "remove" | "unwrap" | "clone" => format!("{} {}", op, a),
                    "set_text" | "text_content_set" => format!("{} {} {}", op, a, enc("k")),
                    "map_insert" => format!("map_insert attr {} 3 {}", a, enc("v")),
                    "map_remove" => format!("map_remove attr {} 3", a),
                    _ => format!("{} {} {}", op, a, b),
                };
                sink.stat("exhaustive.cases");
                step(&mut s, sink, op, &req, a, b, &mut cons, true);
                s.exec(sink, "dump");
            };
            for a in 0..n {
                for op in OPS1 {
                    run(op, a, a);
                }
                for b in 0..n {
                    for op in OPS2 {
                        run(op, a, b);
                    }
                }
            }
        }
    }
}

/// Forests that hold ADJACENT text nodes while consolidation is on (built with consolidation
/// off, then switched on): one element with up to four children drawn from {text, empty
/// element}, plus a second parentless tree; all (operation, node, node) triples of the moves,
/// `remove` and `detach`.  Compared with the PAIR reading of the consolidation clause
/// (`Model/FspecSpec3.lean`).
fn exhaustive_adjacent_text(sink: &mut Sink) {
    let mut kid_lists: Vec<Vec<GTree>> = vec![];
    for len in 2..=4usize {
        for mask in 0..(1u32 << len) {
            let kids: Vec<GTree> = (0..len)
                .map(|i| {
                    if mask & (1 << i) != 0 {
                        GTree::leaf(GValue::Text(((b'a' + i as u8) as char).to_string()))
                    } else {
                        GTree::leaf(GValue::Element(3))
                    }
                })
                .collect();
            // at least one pair of adjacent text nodes
            if kids.windows(2).any(|w| matches!(w[0].v, GValue::Text(_)) && matches!(w[1].v, GValue::Text(_))) {
                kid_lists.push(kids);
            }
        }
    }
    let seconds = vec![GTree::leaf(GValue::Text("z".into())), GTree::leaf(GValue::Element(6))];
    const OPS2: &[&str] = &["append", "prepend", "insert_after", "insert_before", "replace"];
    const OPS1: &[&str] = &["detach", "remove", "unwrap", "wrap"];
    for kids in &kid_lists {
        for second in &seconds {
            let forest = vec![GTree::new(GValue::Element(2), kids.clone()), second.clone()];
            let n: usize = forest.iter().map(|t| t.size()).sum();
            let mut run = |op: &str, a: usize, b: usize| {
                let mut s = Session::new();
                let mut cons = false;
                s.exec(sink, "reset");
                s.exec(sink, "cons 0");
                for t in &forest {
                    build_ops(&mut s, sink, t);
                }
                s.exec(sink, "cons 1");
                cons = cons || true;
                let req = match op {
                    "detach" | "remove" | "unwrap" => format!("{} {}", op, a),
                    "wrap" => format!("wrap {} 6", a),
                    _ => format!("{} {} {}", op, a, b),
                };
                sink.stat("exhaustive-adjacent.cases");
                step(&mut s, sink, op, &req, a, b, &mut cons, true);
                s.exec(sink, "dump");
            };
            for a in 0..n {
                for op in OPS1 {
                    run(op, a, a);
                }
                for b in 0..n {
                    for op in OPS2 {
                        run(op, a, b);
                    }
                }
            }
        }
    }
}

/// The composite calls on forests that hold adjacent text nodes while consolidation is on:
/// (1) one element with up to three children drawn from {text, element with one text child,
/// element with two (adjacent) text children}: `unwrap`, `wrap` of every node and all
/// `replace(a, b)`; (2) one element with FIVE children drawn from {text, empty element}, at least
/// one adjacent text pair: all `replace(a, b)` — long enough for the corner `x b p a z`.
fn exhaustive_adjacent_composite(sink: &mut Sink) {
    let run = |sink: &mut Sink, forest: &Vec<GTree>, op: &str, a: usize, b: usize| {
        let mut s = Session::new();
        let mut cons = false;
        s.exec(sink, "reset");
        s.exec(sink, "cons 0");
        for t in forest {
            build_ops(&mut s, sink, t);
        }
        s.exec(sink, "cons 1");
        cons = cons || true;
        let req = match op {
            "unwrap" => format!("unwrap {}", a),
            "wrap" => format!("wrap {} 6", a),
            _ => format!("{} {} {}", op, a, b),
        };
        sink.stat("exhaustive-adjacent-composite.cases");
        step(&mut s, sink, op, &req, a, b, &mut cons, true);
        s.exec(sink, "dump");
    };
    // (1)
    let alphabet = |i: usize| -> Vec<GTree> {
        let c = |k: usize| ((b'a' + (3 * i + k) as u8) as char).to_string();
        vec![
            GTree::leaf(GValue::Text(c(0))),
            GTree::new(GValue::Element(3), vec![GTree::leaf(GValue::Text(c(1)))]),
            GTree::new(GValue::Element(3), vec![GTree::leaf(GValue::Text(c(1))), GTree::leaf(GValue::Text(c(2)))]),
        ]
    };
    let mut kid_lists: Vec<Vec<GTree>> = vec![vec![]];
    let mut frontier: Vec<Vec<GTree>> = vec![vec![]];
    for i in 0..3 {
        let mut next = vec![];
        for l in &frontier {
            for a in alphabet(i) {
                let mut l2 = l.clone();
                l2.push(a);
                next.push(l2);
            }
        }
        kid_lists.extend(next.iter().cloned());
        frontier = next;
    }
    let seconds = vec![GTree::leaf(GValue::Text("z".into())), GTree::leaf(GValue::Element(6))];
    for kids in &kid_lists {
        if kids.is_empty() {
            continue;
        }
        for second in &seconds {
            let forest = vec![GTree::new(GValue::Element(2), kids.clone()), second.clone()];
            let n: usize = forest.iter().map(|t| t.size()).sum();
            for a in 0..n {
                run(sink, &forest, "unwrap", a, a);
                run(sink, &forest, "wrap", a, a);
                for b in 0..n {
                    run(sink, &forest, "replace", a, b);
                }
            }
        }
    }
    // (2)
    for mask in 0..(1u32 << 5) {
        let kids: Vec<GTree> = (0..5)
            .map(|i| {
                if mask & (1 << i) != 0 {
                    GTree::leaf(GValue::Text(((b'a' + i as u8) as char).to_string()))
                } else {
                    GTree::leaf(GValue::Element(3))
                }
            })
            .collect();
        if !kids.windows(2).any(|w| matches!(w[0].v, GValue::Text(_)) && matches!(w[1].v, GValue::Text(_))) {
            continue;
        }
        let forest = vec![GTree::new(GValue::Element(2), kids), GTree::leaf(GValue::Text("z".into()))];
        let n: usize = forest.iter().map(|t| t.size()).sum();
        for a in 0..n {
            for b in 0..n {
                run(sink, &forest, "replace", a, b);
            }
        }
    }
}

/// Directed small scope for the calls of suite_fcreation.rs, with the specification lines and
/// oracles of `step`; once with consolidation on, once with consolidation off.
fn directed_creation(sink: &mut Sink) {
    for forest in crate::suite_fcreation::directed_forests() {
        let n: usize = forest.iter().map(|t| t.size()).sum();
        for a in 0..n {
            for req in crate::suite_fcreation::directed_reqs(a) {
                for off in [false, true] {
                    let mut s = Session::new();
                    let mut cons = true;
                    s.exec(sink, "reset");
                    for t in &forest {
                        build_ops(&mut s, sink, t);
                    }
                    if off {
                        s.exec(sink, "cons 0");
                        cons = false;
                    }
                    let op = req.split(' ').next().unwrap().to_string();
                    sink.stat("creation.directed.cases");
                    step(&mut s, sink, &op, &req, a, a, &mut cons, true);
                    s.exec(sink, "dump");
                }
            }
        }
    }
}

/// Histories aimed at the self-merge geometry: an element whose children are mostly text nodes
/// built with consolidation off, consolidation switched on, then moves of a text node standing
/// between two text nodes to the place the old-place merge brings it to already (all four moves
/// and `replace`), mixed with a few other moves of such nodes.
fn selfmerge_history(rng: &mut Rng, sink: &mut Sink) {
    let mut s = Session::new();
    let mut cons = false;
    s.exec(sink, "reset");
    s.exec(sink, "cons 0");
    let mut kids = vec![];
    let n = 4 + rng.below(4);
    for i in 0..n {
        if rng.chance(4, 5) {
            kids.push(GTree::leaf(GValue::Text(((b'a' + i as u8) as char).to_string())));
        } else if rng.chance(1, 2) {
            kids.push(GTree::leaf(GValue::Element(3)));
        } else {
            kids.push(GTree::leaf(GValue::Comment("c".into())));
        }
    }
    build_ops(&mut s, sink, &GTree::new(GValue::Element(4), kids));
    let mut kids2 = vec![];
    for i in 0..rng.below(4) {
        kids2.push(GTree::leaf(GValue::Text(((b'p' + i as u8) as char).to_string())));
    }
    build_ops(&mut s, sink, &GTree::new(GValue::Element(2), kids2));
    s.exec(sink, "cons 1");
    cons = cons || true;
    for _ in 0..(2 + rng.below(5)) {
        let live = s.live();
        let idx = |n: Node| s.nodes.iter().position(|&m| m == n).unwrap();
        let mut cands: Vec<(&'static str, usize, usize)> = vec![];
        let mut others: Vec<(&'static str, usize, usize)> = vec![];
        for &l in &live {
            let b = s.nodes[l];
            if !s.xot.is_text(b) {
                continue;
            }
            let (p, q) = match (s.xot.previous_sibling(b), s.xot.next_sibling(b)) {
                (Some(p), Some(q)) if s.xot.is_text(p) && s.xot.is_text(q) => (p, q),
                _ => continue,
            };
            let par = s.xot.parent(b).unwrap();
            match s.xot.next_sibling(q) {
                None => cands.push(("append", idx(par), l)),
                Some(r) => {
                    cands.push(("insert_before", idx(r), l));
                    cands.push(("replace", idx(r), l));
                }
            }
            cands.push(("insert_after", idx(q), l));
            if s.xot.first_child(par) == Some(p) {
                cands.push(("prepend", idx(par), l));
            }
            // near misses: the same node moved elsewhere
            others.push(("append", idx(par), l));
            others.push(("prepend", idx(par), l));
            others.push(("insert_before", idx(p), l));
            others.push(("insert_after", idx(p), l));
        }
        let pick = if !cands.is_empty() && (others.is_empty() || rng.chance(3, 4)) {
            *rng.pick(&cands)
        } else if !others.is_empty() {
            *rng.pick(&others)
        } else {
            break;
        };
        let (op, a, b) = pick;
        let req = format!("{} {} {}", op, a, b);
        sink.stat("selfmerge-directed.calls");
        if !step(&mut s, sink, op, &req, a, b, &mut cons, true) {
            return;
        }
        s.exec(sink, "dump");
        s.exec(sink, "inv");
    }
}

pub fn run(seed: u64, count: usize, tier: &str, sink: &mut Sink) {
    let mut rng = Rng::new(seed ^ 0xC05);
    let n_ops = if tier == "quick" { 25 } else { 60 };
    // tier "explore": also ask the specification where consolidation is on but the forest
    // already holds adjacent text nodes (outside the proved scope; see Props/C05.lean)
    let restrict = tier != "explore";
    if tier == "thorough" {
        exhaustive(sink);
    }
    if tier != "search" {
        exhaustive_adjacent_text(sink);
        exhaustive_adjacent_composite(sink);
    }
    directed_creation(sink);
    if tier != "search" {
        let mut r2 = Rng::new(seed ^ 0x5E1F);
        for _ in 0..(if tier == "quick" { 400 } else { 2000 }) {
            selfmerge_history(&mut r2, sink);
        }
    }
    for i in 0..count {
        one_history(&mut rng, sink, n_ops, i % 4 == 3, restrict);
    }
}
