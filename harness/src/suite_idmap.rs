//! Suite `idmap` (C08): registration / lookup histories on the interning tables of a real `Xot`
//! (`add_name`, `add_name_ns`, `add_namespace`, `add_prefix`, the read-only lookups, the `*_str`
//! accessors, registrations made implicitly by `parse` and `html5()`, `clone`), ids observed
//! through the `Debug` format.  One long history registers 2^16+64 distinct names, prefixes and
//! namespaces (batched: `idmap bulk_* <count> <p> … <sampled positions>`).
//!
//! Oracle (independent of the model): a ground-truth mirror of everything registered so far.
//! Two registrations return the same id iff they registered the same value; the `*_str`
//! accessors give back the registered value; read-only lookups find exactly the registered
//! values; built-ins are distinct and resolve to their standard strings; a clone answers alike.
use crate::common::{guarded, Rng, Sink};
use crate::idmap_hist::Hist;
use crate::idmap_oracle::*;
use crate::strings::any_string;

pub const POOL: &[&str] = &[
    "", "a", "b", "c", "A", "x", "p", "q", "xml", "xmlns", "space", "id", "lang", " ", "a b", "a:b", "é",
    "\u{1F600}", "urn:a", "urn:b", "urn:c", XML_NS, "http://www.w3.org/1999/xhtml", "n0", "n1",
    // strings that read like undecoded attribute text (seed C08i: a declaration written with
    // exactly this text denotes the DECODED value, whatever the table holds already)
    "&amp;x", "&#x75;rn:a", "&x",
];

// ---------------------------------------------------------------------------------------------
// small documents for `parse`

fn qname(rng: &mut Rng, locals: &[&str]) -> String {
    let p = *rng.pick(&["", "", "p", "q", "xml", "x"]);
    let l = if rng.chance(1, 12) { format!("fresh{}", rng.below(40)) } else { rng.pick(locals).to_string() };
    if p.is_empty() {
        l
    } else {
        format!("{}:{}", p, l)
    }
}

fn gen_pi(rng: &mut Rng, out: &mut String) {
    let t = *rng.pick(&["a", "b", "p", "q", "x", "id", "xml-stylesheet", "A"]);
    if rng.chance(1, 2) {
        out.push_str(&format!("<?{}?>", t));
    } else {
        out.push_str(&format!("<?{} d?>", t));
    }
}

fn gen_el(rng: &mut Rng, depth: usize, out: &mut String, feat: &mut Vec<&'static str>) {
    let name = qname(rng, &["a", "b", "c", "A", "id", "space"]);
    out.push('<');
    out.push_str(&name);
    if depth == 0 {
        // most documents declare the prefixes they use (the rest exercise registrations made
        // before the parser gives up)
        for p in ["p", "q", "x"] {
            if rng.chance(4, 5) {
                out.push_str(&format!(" xmlns:{}=\"{}\"", p, rng.pick(&["urn:a", "urn:b", "urn:c"])));
            }
        }
    }
    for _ in 0..rng.below(3) {
        let uri = *rng.pick(&["urn:a", "urn:b", "urn:c", "", XML_NS, "a", "&amp;x", "urn:fresh"]);
        match rng.below(3) {
            0 => {
                if uri.is_empty() {
                    feat.push("doc.xmlns-empty");
                }
                feat.push("doc.default-declaration");
                out.push_str(&format!(" xmlns=\"{}\"", uri))
            }
            _ => {
                feat.push("doc.prefix-declaration");
                out.push_str(&format!(" xmlns:{}=\"{}\"", rng.pick(&["p", "q", "x", "a"]), uri))
            }
        }
    }
    for _ in 0..rng.below(3) {
        feat.push("doc.attribute");
        out.push_str(&format!(" {}=\"v\"", qname(rng, &["a", "b", "id", "space", "lang", "x"])));
    }
    if depth >= 2 || rng.chance(1, 3) {
        out.push_str("/>");
        return;
    }
    out.push('>');
    for _ in 0..rng.below(3) {
        if rng.chance(1, 5) {
            feat.push("doc.pi");
            gen_pi(rng, out);
        }
        gen_el(rng, depth + 1, out, feat);
    }
    out.push_str(&format!("</{}>", name));
}

/// Fixed documents for the registrations the property names: the same local name in two
/// namespaces, attribute vs element use of one name, PI targets, `xmlns=""`, one string used as
/// prefix / URI / local name, decoded URIs, and registrations made before a `ParseError`.
pub const CORNER_DOCS: &[(&str, &str)] = &[
    ("same-local-two-namespaces", "<a xmlns=\"urn:a\"><a xmlns=\"\"/><a xmlns=\"urn:b\"/></a>"),
    ("element-vs-attribute", "<p:a xmlns:p=\"urn:a\" xmlns:q=\"urn:b\"><q:a p:a=\"1\" q:a=\"2\" a=\"3\"/><a/></p:a>"),
    ("pi-targets", "<?a b?><a><?xml-stylesheet x?><?p?><?a?></a><?q?>"),
    ("one-string-everywhere", "<a:a xmlns:a=\"a\" a:a=\"a\" a=\"a\"><?a a?></a:a>"),
    ("xmlns-empty", "<a xmlns=\"\"><b xmlns=\"urn:a\"><c xmlns=\"\"/></b></a>"),
    ("xml-names", "<a xml:id=\"i\" xml:space=\"preserve\" xml:lang=\"en\"/>"),
    ("decoded-uri", "<a xmlns:p=\"&amp;x\" xmlns:q=\"&#x75;rn:a\"><p:b/><q:b/></a>"),
    ("unknown-prefix", "<a><u:b c=\"1\"/></a>"),
    ("unknown-attribute-prefix", "<a b=\"1\" u:c=\"2\" d=\"3\"/>"),
    ("duplicate-attribute", "<a b=\"1\" c=\"2\" b=\"3\"/>"),
    ("duplicate-expanded-attribute", "<a xmlns:p=\"urn:a\" xmlns:q=\"urn:a\" p:b=\"1\" q:b=\"2\"/>"),
    ("duplicate-declaration", "<a xmlns:p=\"urn:a\" xmlns:p=\"urn:b\"/>"),
    ("bad-entity-in-uri", "<a xmlns:p=\"&bad;\" xmlns:q=\"urn:a\"/>"),
    ("mismatched-close", "<a><b></c></a>"),
    ("unclosed", "<a><b>"),
    ("dtd", "<!DOCTYPE a><a/>"),
    ("two-top-elements", "<a/><b/>"),
    // accepted by the crate (recorded finding C03:xml-prefix-rebound-accepted); the names written with
    // the rebound prefix are in the namespace it is bound to there (seed C08k)
    ("xml-prefix-rebound", "<a xmlns:xml=\"urn:a\" xmlns:q=\"urn:a\"><xml:b xml:id=\"i\"/><q:b q:id=\"j\"/></a>"),
    ("rebinding", "<p:a xmlns:p=\"urn:a\"><p:a xmlns:p=\"urn:b\"><p:a xmlns:p=\"urn:a\"/></p:a></p:a>"),
];

pub fn gen_doc(rng: &mut Rng, sink: &mut Sink) -> String {
    if rng.chance(1, 4) {
        let (label, doc) = *rng.pick(CORNER_DOCS);
        sink.stat(&format!("doc.corner.{}", label));
        return doc.to_string();
    }
    let mut s = String::new();
    let mut feat: Vec<&'static str> = vec![];
    if rng.chance(1, 8) {
        feat.push("doc.pi");
        gen_pi(rng, &mut s);
    }
    gen_el(rng, 0, &mut s, &mut feat);
    if rng.chance(1, 8) {
        feat.push("doc.pi");
        gen_pi(rng, &mut s);
    }
    if s.contains("fresh") {
        feat.push("doc.fresh-name");
    }
    feat.sort();
    feat.dedup();
    for f in feat {
        sink.stat(f);
    }
    s
}

// ---------------------------------------------------------------------------------------------

fn gen_str(rng: &mut Rng, registered: &[String]) -> String {
    match rng.below(10) {
        0..=3 => rng.pick(POOL).to_string(),
        4..=6 if !registered.is_empty() => registered[rng.below(registered.len())].clone(),
        _ => any_string(rng, 4),
    }
}

fn random_history(rng: &mut Rng, bank: &Bank, fails: &mut Fails, sink: &mut Sink) {
    let mut h = Hist::new(bank, fails, sink);
    let len = match rng.below(10) {
        0 => rng.below(4),
        1..=6 => 5 + rng.below(25),
        _ => 30 + rng.below(60),
    };
    h.sink.stat(&format!("history.len.{}", match len { 0..=3 => "0-3", 4..=29 => "4-29", _ => "30+" }));
    for _ in 0..len {
        let ns_regs = h.cur.ns.order.clone();
        let pf_regs = h.cur.pf.order.clone();
        let locals: Vec<String> = h.cur.nm.order.iter().map(|k| k.0.clone()).collect();
        let ns_pick = |rng: &mut Rng, h: &Hist| -> usize {
            if rng.chance(1, 8) {
                h.cur.ns.order.len() + rng.below(3) // an id this Xot has not handed out (foreign id)
            } else {
                rng.below(h.cur.ns.order.len().min(CAPACITY))
            }
        };
        match rng.below(24) {
            0..=2 => {
                let s = gen_str(rng, &locals);
                h.add_name_ns(&s, 0, true);
            }
            3..=5 => {
                let s = gen_str(rng, &locals);
                let k = ns_pick(rng, &h);
                h.add_name_ns(&s, k, false);
            }
            6 | 7 => {
                let s = gen_str(rng, &ns_regs);
                h.add_namespace(&s);
            }
            8 | 9 => {
                let s = gen_str(rng, &pf_regs);
                h.add_prefix(&s);
            }
            10 | 11 => {
                let s = gen_str(rng, &locals);
                if rng.chance(1, 2) {
                    h.ro_name(&s, 0, true);
                } else {
                    let k = ns_pick(rng, &h);
                    h.ro_name(&s, k, false);
                }
            }
            12 => {
                let s = gen_str(rng, &ns_regs);
                h.ro_namespace(&s);
            }
            13 => {
                let s = gen_str(rng, &pf_regs);
                h.ro_prefix(&s);
            }
            14 | 15 => {
                let which = rng.below(6);
                let len = match which {
                    3 => h.cur.ns.order.len(),
                    4 => h.cur.pf.order.len(),
                    _ => h.cur.nm.order.len(),
                };
                // mostly ids in range, sometimes the first ids out of range (panic branch)
                let n = if rng.chance(1, 6) { len + rng.below(3) } else { rng.below(len) };
                h.str_lookup(which, n.min(CAPACITY - 1));
            }
            16 | 17 => h.parse_doc(rng),
            18 => {
                if rng.chance(1, 2) {
                    h.clone_block(rng)
                } else {
                    h.builtins()
                }
            }
            19 => h.builtins(),
            20..=22 => h.parse_doc(rng),
            _ => {
                if rng.chance(1, 2) {
                    h.html5()
                } else {
                    h.builtins()
                }
            }
        }
    }
    h.final_check();
}

/// The one long history: 2^16 + 64 distinct names, then prefixes, then namespaces.
fn long_history(bank: &Bank, fails: &mut Fails, sink: &mut Sink) {
    let count = CAPACITY + 64;
    let mut h = Hist::new(bank, fails, sink);
    h.builtins();
    h.add_name_ns("a", 0, true);
    h.bulk(0, count, "n", 0);
    let last_before = format!("n{}", CAPACITY - 4); // index 2^16 - 1 after 2 built-ins + "a"
    let first_wrapped = format!("n{}", CAPACITY - 3);
    for n in [0, 1, 2, 3, 66, 67, CAPACITY - 1] {
        h.str_lookup(0, n);
    }
    h.ro_name(&last_before, 0, true);
    h.ro_name(&first_wrapped, 0, true);
    h.ro_name("n0", 0, true);
    h.add_name_ns(&first_wrapped, 0, true);
    h.add_name_ns("n0", 0, true);
    h.add_name_ns("fresh-after-wrap", 0, true);
    h.ro_name("space", 1, false);
    h.builtins();
    // what the collision means for trees (on a clone, so that the history itself is unchanged):
    // a freshly parsed element carries the name of an unrelated earlier registration
    {
        let mut x = h.cur.xot.clone();
        let r = guarded(|| {
            let d1 = x.parse("<after-wrap-one/>").unwrap();
            let text = x.to_string(d1).unwrap_or_default();
            let d2 = x.parse(&text).unwrap();
            let e1 = x.document_element(d1).unwrap();
            let e2 = x.document_element(d2).unwrap();
            (x.node_name(e1) == x.node_name(e2), text)
        });
        match r {
            Some((_, text)) if text == "<after-wrap-one/>" => {}
            Some((same, text)) => h.fail(WRAP, format!("parse: after {} registered names: to_string(parse(\"<after-wrap-one/>\")) = {:?} (element name equal to that of the document it names: {})", h.cur.nm.order.len(), text, same)),
            None => h.fail(WRAP, format!("parse: after {} registered names: parse / to_string of \"<after-wrap-one/>\" panics", h.cur.nm.order.len())),
        }
    }
    h.bulk(2, count, "n", 0);
    for n in [0, 1, 2, 65, 66, CAPACITY - 1] {
        h.str_lookup(4, n);
    }
    h.ro_prefix(&format!("n{}", CAPACITY - 2));
    h.ro_prefix("xml");
    h.add_prefix("xml");
    h.bulk(1, count, "n", 0);
    for n in [0, 1, 2, 65, 66, CAPACITY - 1] {
        h.str_lookup(3, n);
    }
    // the 65 537th namespace has the id of "no namespace": a name registered in it *is* the
    // unqualified name
    let wrapped_ns = format!("n{}", CAPACITY - 2);
    let k = h.add_namespace(&wrapped_ns);
    h.add_name_ns("in-wrapped-namespace", k, false);
    h.ro_name("in-wrapped-namespace", 0, true);
    let mut rng = Rng::new(17);
    h.clone_block(&mut rng);
    h.builtins();
    h.final_check();
}

/// Thorough tier: every history of at most `maxlen` registrations over a small alphabet, each
/// followed by the same battery of lookups.
fn exhaustive(maxlen: usize, bank: &Bank, fails: &mut Fails, sink: &mut Sink) {
    const OPS: usize = 10;
    let mut idx: Vec<usize> = vec![];
    loop {
        {
            let mut h = Hist::new(bank, fails, sink);
            for &o in &idx {
                match o {
                    0 => { h.add_name_ns("a", 0, true); }
                    1 => { h.add_name_ns("b", 0, true); }
                    2 => { h.add_name_ns("a", 1, false); }
                    3 => { h.add_name_ns("a", 2, false); }
                    4 => { h.add_namespace("u"); }
                    5 => { h.add_namespace(""); }
                    6 => { h.add_prefix("p"); }
                    7 => { h.add_prefix("xml"); }
                    8 => { h.parse_text("<p:a xmlns:p=\"u\" b=\"\"/>", false); }
                    _ => { h.parse_text("<a xmlns=\"u\"><?b?><a xmlns=\"\"/></a>", false); }
                }
            }
            h.ro_name("a", 0, true);
            h.ro_name("b", 0, true);
            h.ro_name("a", 1, false);
            h.ro_name("a", 2, false);
            h.ro_namespace("u");
            h.ro_prefix("p");
            for n in 2..5 {
                h.str_lookup(0, n);
            }
            h.str_lookup(3, 2);
            h.str_lookup(4, 2);
            h.final_check();
            h.sink.stat("exhaustive.histories");
        }
        let mut i = idx.len();
        loop {
            if i == 0 {
                idx.insert(0, 0);
                for j in idx.iter_mut() {
                    *j = 0;
                }
                break;
            }
            i -= 1;
            if idx[i] + 1 < OPS {
                idx[i] += 1;
                for j in idx.iter_mut().skip(i + 1) {
                    *j = 0;
                }
                break;
            }
        }
        if idx.len() > maxlen {
            break;
        }
    }
}

/// Namespaces registered beforehand whose text reads like undecoded attribute text, then documents
/// whose declarations are written with exactly that text (seed C08i).
fn raw_text_histories(bank: &Bank, fails: &mut Fails, sink: &mut Sink) {
    let cases: &[(&str, &str, &str)] = &[
        ("urn:x?a=1&amp;b=2", "urn:x?a=1&b=2", "<d xmlns=\"urn:x?a=1&amp;b=2\"><p:e xmlns:p=\"urn:x?a=1&#38;b=2\"/></d>"),
        ("&amp;x", "&x", "<a xmlns:p=\"&amp;x\" xmlns:q=\"&#x75;rn:a\"><p:b/><q:b/></a>"),
        ("urn:a\tb", "urn:a b", "<a xmlns:p=\"urn:a\tb\"><p:b p:c=\"\"/></a>"),
        ("&#x75;rn:a", "urn:a", "<p:a xmlns:p=\"&#x75;rn:a\" xmlns:q=\"urn:a\" q:b=\"\"/>"),
    ];
    for (raw, value, doc) in cases {
        for pre in 0..3 {
            let mut h = Hist::new(bank, fails, sink);
            match pre {
                0 => { h.add_namespace(raw); }
                1 => { h.add_namespace(raw); h.add_namespace(value); }
                _ => { h.parse_text(&format!("<w xmlns=\"{}\"/>", raw.replace('&', "&amp;").replace('\t', "&#9;")), false); }
            }
            h.parse_text(doc, false);
            h.ro_namespace(raw);
            h.ro_namespace(value);
            h.ro_name("e", 0, true);
            h.ro_name("b", 0, true);
            h.final_check();
            h.sink.stat("rawtext.histories");
        }
    }
}

pub fn run(seed: u64, count: usize, tier: &str, sink: &mut Sink) {
    let mut rng = Rng::new(seed ^ 0x1D3A9);
    let bank = Bank::new();
    let mut fails = Fails::new();
    long_history(&bank, &mut fails, sink);
    raw_text_histories(&bank, &mut fails, sink);
    if tier == "thorough" {
        exhaustive(4, &bank, &mut fails, sink);
    }
    for _ in 0..count {
        random_history(&mut rng, &bank, &mut fails, sink);
    }
    for l in &fails.lines {
        println!("{}", l);
    }
}
