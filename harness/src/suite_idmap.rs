//! Suite `idmap` (C08): registration / lookup histories on the interning tables of a real `Xot`
//! (`add_name`, `add_name_ns`, `add_namespace`, `add_prefix`, the read-only lookups, the `*_str`
//! accessors, registrations made implicitly by `parse` and `html5()`, `clone`), ids observed
//! through the `Debug` format.  One long history registers 2^16+64 distinct names, prefixes and
//! namespaces (batched: `idmap bulk_* <count> <p> … <sampled positions>`).
//!
//! Oracle (independent of the model): a ground-truth mirror of everything registered so far.
//! Two registrations return the same id iff they registered the same value; the `*_str`
//! accessors give back the registered value; read-only lookups find exactly the registered
//! values; built-ins are distinct and resolve to their standard strings; a clone answers alike.
use crate::common::{enc, guarded, Rng, Sink};
use crate::strings::any_string;
use crate::tree::{name_num, ns_num, prefix_num};
use std::collections::HashMap;
use std::fmt::Debug;
use std::hash::Hash;
use xot::{NameId, NamespaceId, PrefixId, Xot};

const XML_NS: &str = "http://www.w3.org/XML/1998/namespace";
const WRAP: &str = "C08:id-wraps-after-65536-registrations";
/// Number of distinct values a 16-bit id can tell apart (only used to pick the signature).
const CAPACITY: usize = 1 << 16;
const HTML5_SRC: &str = include_str!("/repo/src/output/html5elements.rs");

const POOL: &[&str] = &[
    "", "a", "b", "c", "A", "x", "p", "q", "xml", "xmlns", "space", "id", "lang", " ", "a b", "a:b", "é",
    "\u{1F600}", "urn:a", "urn:b", "urn:c", XML_NS, "http://www.w3.org/1999/xhtml", "n0", "n1",
];

fn json_str(s: &str) -> String {
    let mut o = String::from("\"");
    for c in s.chars() {
        match c {
            '"' => o.push_str("\\\""),
            '\\' => o.push_str("\\\\"),
            c if (c as u32) < 0x20 || (c as u32) > 0x7e => {
                let mut buf = [0u16; 2];
                for u in c.encode_utf16(&mut buf) {
                    o.push_str(&format!("\\u{:04x}", u));
                }
            }
            c => o.push(c),
        }
    }
    o.push('"');
    o
}

/// Oracle failures: at most two `F` lines per signature and table, the rest only counted.
pub struct Fails {
    seen: HashMap<String, usize>,
    lines: Vec<String>,
}

impl Fails {
    fn new() -> Self {
        Fails { seen: HashMap::new(), lines: vec![] }
    }
    fn report(&mut self, sink: &mut Sink, signature: &str, what: String, recent: &[String]) {
        sink.stat(&format!("oracle.{}", signature));
        // cap per signature and table (first word of the description)
        let key = format!("{} {}", signature, what.split(' ').next().unwrap_or(""));
        let n = self.seen.entry(key).or_insert(0);
        *n += 1;
        if *n <= 2 {
            let reqs: Vec<String> = recent.iter().rev().take(8).rev().map(|r| json_str(r)).collect();
            self.lines.push(format!(
                "F\tC08\t{{\"signature\": {}, \"what\": {}, \"replay\": {{\"suite\": \"idmap\", \"last_requests\": [{}]}}}}",
                json_str(signature),
                json_str(&what),
                reqs.join(", ")
            ));
        }
    }
}

/// Ground truth of one table.
#[derive(Clone)]
struct Table<V: Clone + Eq + Hash + Debug> {
    kind: &'static str,
    /// value -> id number it received when first registered
    truth: HashMap<V, usize>,
    order: Vec<V>,
    /// id number -> first value that received it
    owner: HashMap<usize, V>,
}

impl<V: Clone + Eq + Hash + Debug> Table<V> {
    fn new(kind: &'static str) -> Self {
        Table { kind, truth: HashMap::new(), order: vec![], owner: HashMap::new() }
    }
    fn sig(&self, other: &str) -> String {
        if self.order.len() > CAPACITY {
            WRAP.to_string()
        } else {
            other.to_string()
        }
    }
    /// A registration of `v` returned id number `n`.
    fn observe(&mut self, v: &V, n: usize, fails: &mut Fails, sink: &mut Sink, recent: &[String]) {
        if let Some(&old) = self.truth.get(v) {
            sink.stat(&format!("reg.{}.duplicate", self.kind));
            if old != n {
                let s = self.sig("C08:registration-not-stable");
                fails.report(sink, &s, format!("{} table: {:?} was registered with id {} and now returns id {}", self.kind, v, old, n), recent);
            }
            return;
        }
        sink.stat(&format!("reg.{}.fresh", self.kind));
        self.truth.insert(v.clone(), n);
        self.order.push(v.clone());
        if let Some(w) = self.owner.get(&n) {
            let s = self.sig("C08:distinct-values-share-id");
            fails.report(
                sink,
                &s,
                format!("{} table: {:?}, the {}th distinct value registered, received id {}, which is already the id of {:?}", self.kind, v, self.order.len(), n, w),
                recent,
            );
        } else {
            self.owner.insert(n, v.clone());
        }
    }
}

/// Id values by number (taken from a donor `Xot`; an id is just its number).
fn bank_push(b: &mut Bank, n: NameId, ns: NamespaceId, p: PrefixId) {
    b.names.push(n);
    b.nss.push(ns);
    b.pfs.push(p);
}

struct Bank {
    names: Vec<NameId>,
    nss: Vec<NamespaceId>,
    pfs: Vec<PrefixId>,
}

impl Bank {
    fn new() -> Self {
        let mut x = Xot::new();
        let mut b = Bank { names: vec![], nss: vec![], pfs: vec![] };
        b.names.push(x.xml_space_name());
        b.names.push(x.xml_id_name());
        b.nss.push(x.no_namespace());
        b.nss.push(x.xml_namespace());
        b.pfs.push(x.empty_prefix());
        b.pfs.push(x.xml_prefix());
        // a little beyond 2^16 so that ids of a widened id type are available too; with 16-bit ids
        // the entries past 2^16 are the wrapped ids again, and with a registration that refuses
        // the overflow the bank simply ends there
        for i in 2..CAPACITY + 256 {
            let s = format!("bank{}", i);
            match guarded(|| (x.add_name(&s), x.add_namespace(&s), x.add_prefix(&s))) {
                Some((a, bb, c)) => {
                    bank_push(&mut b, a, bb, c);
                }
                None => break,
            }
        }
        for i in [0usize, 1, 2, 77, 4096, CAPACITY - 1] {
            assert_eq!(name_num(b.names[i]), i);
            assert_eq!(ns_num(b.nss[i]), i);
            assert_eq!(prefix_num(b.pfs[i]), i);
        }
        b
    }
}

#[derive(Clone)]
struct State {
    xot: Xot,
    ns: Table<String>,
    pf: Table<String>,
    nm: Table<(String, usize)>,
}

impl State {
    fn new() -> Self {
        let mut s = State { xot: Xot::new(), ns: Table::new("namespace"), pf: Table::new("prefix"), nm: Table::new("name") };
        // what Xot::new is documented to contain; verified against the real Xot by `builtins`
        for (v, n) in [("", 0usize), (XML_NS, 1)] {
            s.ns.truth.insert(v.to_string(), n);
            s.ns.order.push(v.to_string());
            s.ns.owner.insert(n, v.to_string());
        }
        for (v, n) in [("", 0usize), ("xml", 1)] {
            s.pf.truth.insert(v.to_string(), n);
            s.pf.order.push(v.to_string());
            s.pf.owner.insert(n, v.to_string());
        }
        for (v, n) in [("space", 0usize), ("id", 1)] {
            let k = (v.to_string(), 1usize);
            s.nm.truth.insert(k.clone(), n);
            s.nm.order.push(k.clone());
            s.nm.owner.insert(n, k);
        }
        s
    }
}

struct Hist<'a> {
    cur: State,
    other: Option<State>,
    bank: &'a Bank,
    fails: &'a mut Fails,
    sink: &'a mut Sink,
    recent: Vec<String>,
}

fn opt_num(o: Option<usize>) -> String {
    match o {
        Some(n) => format!("some {}", n),
        None => "none".to_string(),
    }
}

fn ids_str(ids: &[usize]) -> String {
    if ids.is_empty() {
        "-".to_string()
    } else {
        ids.iter().map(|i| i.to_string()).collect::<Vec<_>>().join(",")
    }
}

impl<'a> Hist<'a> {
    fn new(bank: &'a Bank, fails: &'a mut Fails, sink: &'a mut Sink) -> Self {
        let mut h = Hist { cur: State::new(), other: None, bank, fails, sink, recent: vec![] };
        let x = &h.cur.xot;
        let resp = format!(
            "ok {} {} {} {} {} {}",
            ns_num(x.no_namespace()),
            prefix_num(x.empty_prefix()),
            ns_num(x.xml_namespace()),
            prefix_num(x.xml_prefix()),
            name_num(x.xml_space_name()),
            name_num(x.xml_id_name())
        );
        h.emit("idmap new".to_string(), resp);
        h
    }

    fn emit(&mut self, req: String, resp: String) -> String {
        self.sink.stat(&format!("op.{}", req.split(' ').nth(1).unwrap_or("?")));
        self.sink.stat(&format!("resp.{}", resp.split(' ').next().unwrap_or("?")));
        self.recent.push(req.clone());
        self.sink.emit(req, resp.clone());
        resp
    }

    fn fail(&mut self, sig: &str, what: String) {
        self.fails.report(self.sink, sig, what, &self.recent);
    }

    // ---- built-ins ---------------------------------------------------------------------------
    fn builtins(&mut self) {
        let x = &self.cur.xot;
        let s = |r: Option<String>| r.unwrap_or_else(|| "panic".to_string());
        let nm = |id: NameId| {
            s(guarded(|| {
                let (l, u) = x.name_ns_str(id);
                format!("{}@{}", enc(l), enc(u))
            }))
        };
        let resp = format!(
            "ok {}={} {}={} {}={} {}={} {}={} {}={}",
            ns_num(x.no_namespace()),
            s(guarded(|| enc(x.namespace_str(x.no_namespace())))),
            prefix_num(x.empty_prefix()),
            s(guarded(|| enc(x.prefix_str(x.empty_prefix())))),
            ns_num(x.xml_namespace()),
            s(guarded(|| enc(x.namespace_str(x.xml_namespace())))),
            prefix_num(x.xml_prefix()),
            s(guarded(|| enc(x.prefix_str(x.xml_prefix())))),
            name_num(x.xml_space_name()),
            nm(x.xml_space_name()),
            name_num(x.xml_id_name()),
            nm(x.xml_id_name()),
        );
        // oracle
        let mut bad = vec![];
        if x.no_namespace() == x.xml_namespace() {
            bad.push("no_namespace() == xml_namespace()".to_string());
        }
        if x.empty_prefix() == x.xml_prefix() {
            bad.push("empty_prefix() == xml_prefix()".to_string());
        }
        if x.xml_space_name() == x.xml_id_name() {
            bad.push("xml_space_name() == xml_id_name()".to_string());
        }
        let chk = |got: Option<String>, want: &str, what: &str, bad: &mut Vec<String>| {
            if got.as_deref() != Some(want) {
                bad.push(format!("{} resolves to {:?}, expected {:?}", what, got, want));
            }
        };
        chk(guarded(|| x.namespace_str(x.no_namespace()).to_string()), "", "no_namespace()", &mut bad);
        chk(guarded(|| x.prefix_str(x.empty_prefix()).to_string()), "", "empty_prefix()", &mut bad);
        chk(guarded(|| x.namespace_str(x.xml_namespace()).to_string()), XML_NS, "xml_namespace()", &mut bad);
        chk(guarded(|| x.prefix_str(x.xml_prefix()).to_string()), "xml", "xml_prefix()", &mut bad);
        chk(guarded(|| x.local_name_str(x.xml_space_name()).to_string()), "space", "xml_space_name() local name", &mut bad);
        chk(guarded(|| x.uri_str(x.xml_space_name()).to_string()), XML_NS, "xml_space_name() namespace", &mut bad);
        chk(guarded(|| x.local_name_str(x.xml_id_name()).to_string()), "id", "xml_id_name() local name", &mut bad);
        chk(guarded(|| x.uri_str(x.xml_id_name()).to_string()), XML_NS, "xml_id_name() namespace", &mut bad);
        chk(guarded(|| x.name_ns("space", x.xml_namespace()).map(name_num)).map(|o| format!("{:?}", o)), &format!("{:?}", Some(name_num(x.xml_space_name()))), "name_ns(\"space\", xml_namespace())", &mut bad);
        self.emit("idmap builtins".to_string(), resp);
        for b in bad {
            self.fail("C08:builtin-ids-wrong", b);
        }
    }

    // ---- registrations -----------------------------------------------------------------------
    fn ns_id(&self, n: usize) -> NamespaceId {
        self.bank.nss[n]
    }

    fn add_name_ns(&mut self, local: &str, ns: usize, via_add_name: bool) -> usize {
        let nsid = self.ns_id(ns);
        let x = &mut self.cur.xot;
        let r = guarded(|| if via_add_name { x.add_name(local) } else { x.add_name_ns(local, nsid) });
        let req = if via_add_name { format!("idmap add_name {}", enc(local)) } else { format!("idmap add_name_ns {} {}", enc(local), ns) };
        let id = match r {
            Some(id) => id,
            None => {
                // a registration that panics (e.g. a checked id conversion): recorded, not fatal
                self.emit(req, "panic".to_string());
                return 0;
            }
        };
        let n = name_num(id);
        self.emit(req, format!("ok {}", n));
        let key = (local.to_string(), ns);
        if ns >= self.cur.ns.order.len() {
            self.sink.stat("reg.name.foreign-namespace-id");
        }
        self.cur.nm.observe(&key, n, self.fails, self.sink, &self.recent);
        self.check_name(&key, id);
        n
    }

    fn check_name(&mut self, key: &(String, usize), id: NameId) {
        let x = &self.cur.xot;
        let local = guarded(|| x.local_name_str(id).to_string());
        let nsn = guarded(|| ns_num(x.namespace_for_name(id)));
        let ro = x.name_ns(&key.0, self.bank.nss[key.1]).map(name_num);
        if local.as_deref() != Some(key.0.as_str()) || nsn != Some(key.1) {
            let s = self.cur.nm.sig("C08:lookup-returns-other-value");
            self.fail(&s, format!("name table: id {} returned for {:?} resolves to ({:?}, ns {:?})", name_num(id), key, local, nsn));
        }
        if ro != Some(name_num(id)) {
            let s = self.cur.nm.sig("C08:readonly-lookup-disagrees");
            self.fail(&s, format!("name table: name_ns{:?} = {:?} right after its registration returned id {}", key, ro, name_num(id)));
        }
    }

    fn add_namespace(&mut self, v: &str) -> usize {
        let x = &mut self.cur.xot;
        let id = match guarded(|| x.add_namespace(v)) {
            Some(id) => id,
            None => {
                self.emit(format!("idmap add_namespace {}", enc(v)), "panic".to_string());
                return 0;
            }
        };
        let n = ns_num(id);
        self.emit(format!("idmap add_namespace {}", enc(v)), format!("ok {}", n));
        self.cur.ns.observe(&v.to_string(), n, self.fails, self.sink, &self.recent);
        self.check_ns(v, id);
        n
    }

    fn check_ns(&mut self, v: &str, id: NamespaceId) {
        let x = &self.cur.xot;
        let got = guarded(|| x.namespace_str(id).to_string());
        let ro = x.namespace(v).map(ns_num);
        if got.as_deref() != Some(v) {
            let s = self.cur.ns.sig("C08:lookup-returns-other-value");
            self.fail(&s, format!("namespace table: id {} returned for {:?} resolves to {:?}", ns_num(id), v, got));
        }
        if ro != Some(ns_num(id)) {
            let s = self.cur.ns.sig("C08:readonly-lookup-disagrees");
            self.fail(&s, format!("namespace table: namespace({:?}) = {:?} right after its registration returned id {}", v, ro, ns_num(id)));
        }
    }

    fn add_prefix(&mut self, v: &str) -> usize {
        let x = &mut self.cur.xot;
        let id = match guarded(|| x.add_prefix(v)) {
            Some(id) => id,
            None => {
                self.emit(format!("idmap add_prefix {}", enc(v)), "panic".to_string());
                return 0;
            }
        };
        let n = prefix_num(id);
        self.emit(format!("idmap add_prefix {}", enc(v)), format!("ok {}", n));
        self.cur.pf.observe(&v.to_string(), n, self.fails, self.sink, &self.recent);
        self.check_pf(v, id);
        n
    }

    fn check_pf(&mut self, v: &str, id: PrefixId) {
        let x = &self.cur.xot;
        let got = guarded(|| x.prefix_str(id).to_string());
        let ro = x.prefix(v).map(prefix_num);
        if got.as_deref() != Some(v) {
            let s = self.cur.pf.sig("C08:lookup-returns-other-value");
            self.fail(&s, format!("prefix table: id {} returned for {:?} resolves to {:?}", prefix_num(id), v, got));
        }
        if ro != Some(prefix_num(id)) {
            let s = self.cur.pf.sig("C08:readonly-lookup-disagrees");
            self.fail(&s, format!("prefix table: prefix({:?}) = {:?} right after its registration returned id {}", v, ro, prefix_num(id)));
        }
    }

    // ---- read-only lookups -------------------------------------------------------------------
    fn ro_name(&mut self, local: &str, ns: usize, via_name: bool) -> String {
        let got = if via_name { self.cur.xot.name(local) } else { self.cur.xot.name_ns(local, self.ns_id(ns)) }.map(name_num);
        let want = self.cur.nm.truth.get(&(local.to_string(), ns)).copied();
        if got != want {
            let s = self.cur.nm.sig("C08:readonly-lookup-disagrees");
            self.fail(&s, format!("name table: name_ns({:?}, ns {}) = {:?}, registered id: {:?}", local, ns, got, want));
        }
        let req = if via_name { format!("idmap name {}", enc(local)) } else { format!("idmap name_ns {} {}", enc(local), ns) };
        self.emit(req, opt_num(got))
    }

    fn ro_namespace(&mut self, v: &str) -> String {
        let got = self.cur.xot.namespace(v).map(ns_num);
        let want = self.cur.ns.truth.get(v).copied();
        if got != want {
            let s = self.cur.ns.sig("C08:readonly-lookup-disagrees");
            self.fail(&s, format!("namespace table: namespace({:?}) = {:?}, registered id: {:?}", v, got, want));
        }
        self.emit(format!("idmap namespace {}", enc(v)), opt_num(got))
    }

    fn ro_prefix(&mut self, v: &str) -> String {
        let got = self.cur.xot.prefix(v).map(prefix_num);
        let want = self.cur.pf.truth.get(v).copied();
        if got != want {
            let s = self.cur.pf.sig("C08:readonly-lookup-disagrees");
            self.fail(&s, format!("prefix table: prefix({:?}) = {:?}, registered id: {:?}", v, got, want));
        }
        self.emit(format!("idmap prefix {}", enc(v)), opt_num(got))
    }

    // ---- id -> string ------------------------------------------------------------------------
    fn str_lookup(&mut self, which: usize, n: usize) -> String {
        let x = &self.cur.xot;
        let b = self.bank;
        let okstr = |r: Option<String>| r.map(|s| format!("ok {}", enc(&s))).unwrap_or_else(|| "panic".to_string());
        let (op, resp) = match which {
            0 => (
                "name_ns_str",
                guarded(|| {
                    let (l, u) = x.name_ns_str(b.names[n]);
                    format!("ok {} {}", enc(l), enc(u))
                })
                .unwrap_or_else(|| "panic".to_string()),
            ),
            1 => ("local_name_str", okstr(guarded(|| x.local_name_str(b.names[n]).to_string()))),
            2 => ("uri_str", okstr(guarded(|| x.uri_str(b.names[n]).to_string()))),
            3 => ("namespace_str", okstr(guarded(|| x.namespace_str(b.nss[n]).to_string()))),
            4 => ("prefix_str", okstr(guarded(|| x.prefix_str(b.pfs[n]).to_string()))),
            _ => (
                "namespace_for_name",
                guarded(|| format!("ok {}", ns_num(x.namespace_for_name(b.names[n])))).unwrap_or_else(|| "panic".to_string()),
            ),
        };
        self.emit(format!("idmap {} {}", op, n), resp)
    }

    // ---- implicit registrations ----------------------------------------------------------------
    /// Find what was registered behind our back among the candidate strings (new = present in the
    /// Xot but not in the ground truth), in id order, and tell the model.
    fn discover(&mut self, cands: &[String]) {
        if self.cur.ns.order.len() + 2000 > CAPACITY || self.cur.pf.order.len() + 2000 > CAPACITY || self.cur.nm.order.len() + 2000 > CAPACITY {
            return; // id order = registration order only below the wrap
        }
        let mut new_ns: Vec<(usize, String)> = vec![];
        let mut new_pf: Vec<(usize, String)> = vec![];
        let mut new_nm: Vec<(usize, (String, usize))> = vec![];
        for c in cands {
            if !self.cur.ns.truth.contains_key(c) {
                if let Some(id) = self.cur.xot.namespace(c) {
                    new_ns.push((ns_num(id), c.clone()));
                }
            }
            if !self.cur.pf.truth.contains_key(c) {
                if let Some(id) = self.cur.xot.prefix(c) {
                    new_pf.push((prefix_num(id), c.clone()));
                }
            }
        }
        new_ns.sort();
        new_pf.sort();
        for (n, v) in &new_ns {
            self.cur.ns.observe(v, *n, self.fails, self.sink, &self.recent);
        }
        for (n, v) in &new_pf {
            self.cur.pf.observe(v, *n, self.fails, self.sink, &self.recent);
        }
        let ns_nums: Vec<usize> = self.cur.ns.truth.values().copied().collect();
        for c in cands {
            for &k in &ns_nums {
                let key = (c.clone(), k);
                if !self.cur.nm.truth.contains_key(&key) {
                    if let Some(id) = self.cur.xot.name_ns(c, self.bank.nss[k]) {
                        new_nm.push((name_num(id), key));
                    }
                }
            }
        }
        new_nm.sort();
        for (n, v) in &new_nm {
            self.cur.nm.observe(v, *n, self.fails, self.sink, &self.recent);
        }
        self.sink.stat_n("implicit.registrations", (new_ns.len() + new_pf.len() + new_nm.len()) as u64);
        let strs = |l: &Vec<(usize, String)>| if l.is_empty() { "-".to_string() } else { l.iter().map(|(_, s)| enc(s)).collect::<Vec<_>>().join(",") };
        let nms = if new_nm.is_empty() { "-".to_string() } else { new_nm.iter().map(|(_, (l, k))| format!("{}@{}", enc(l), k)).collect::<Vec<_>>().join(",") };
        let req = format!("idmap implicit ns {} pf {} nm {}", strs(&new_ns), strs(&new_pf), nms);
        let resp = format!(
            "ok {} {} {}",
            ids_str(&new_ns.iter().map(|x| x.0).collect::<Vec<_>>()),
            ids_str(&new_pf.iter().map(|x| x.0).collect::<Vec<_>>()),
            ids_str(&new_nm.iter().map(|x| x.0).collect::<Vec<_>>())
        );
        self.emit(req, resp);
        // every discovered entry must resolve to itself
        for (n, v) in new_ns {
            let id = self.bank.nss[n];
            self.check_ns(&v, id);
        }
        for (n, v) in new_pf {
            let id = self.bank.pfs[n];
            self.check_pf(&v, id);
        }
        for (n, v) in new_nm {
            let id = self.bank.names[n];
            self.check_name(&v, id);
        }
    }

    fn parse_doc(&mut self, rng: &mut Rng) {
        let doc = gen_doc(rng);
        let r = guarded(|| self.cur.xot.parse(&doc).is_ok());
        self.sink.stat(match r {
            Some(true) => "parse.ok",
            Some(false) => "parse.err",
            None => "parse.panic",
        });
        let cands: Vec<String> = POOL.iter().map(|s| s.to_string()).collect();
        self.discover(&cands);
    }

    fn html5(&mut self) {
        let _ = self.cur.xot.html5();
        let mut cands: Vec<String> = POOL.iter().map(|s| s.to_string()).collect();
        let mut rest = HTML5_SRC;
        while let Some(i) = rest.find('"') {
            let after = &rest[i + 1..];
            match after.find('"') {
                Some(j) => {
                    let lit = &after[..j];
                    if !lit.contains('\\') && !lit.contains('\n') {
                        cands.push(lit.to_string());
                        cands.push(lit.to_ascii_uppercase());
                    }
                    rest = &after[j + 1..];
                }
                None => break,
            }
        }
        cands.sort();
        cands.dedup();
        self.sink.stat("html5.calls");
        self.discover(&cands);
    }

    // ---- clone -------------------------------------------------------------------------------
    fn battery(&mut self, rng_seed: u64) -> Vec<String> {
        let mut rng = Rng::new(rng_seed);
        let mut out = vec![];
        for _ in 0..4 {
            if !self.cur.nm.order.is_empty() {
                let (l, k) = self.cur.nm.order[rng.below(self.cur.nm.order.len())].clone();
                out.push(self.ro_name(&l, k, false));
            }
            let v = self.cur.ns.order[rng.below(self.cur.ns.order.len())].clone();
            out.push(self.ro_namespace(&v));
            let v = self.cur.pf.order[rng.below(self.cur.pf.order.len())].clone();
            out.push(self.ro_prefix(&v));
        }
        out.push(self.ro_name("never-registered", 0, true));
        let top = self.cur.nm.order.len().min(CAPACITY - 1);
        for n in [0, 1, top / 2, top.saturating_sub(1), top] {
            out.push(self.str_lookup(0, n));
        }
        for n in [0, 1, self.cur.ns.order.len().min(CAPACITY - 1)] {
            out.push(self.str_lookup(3, n));
        }
        for n in [0, 1, self.cur.pf.order.len().min(CAPACITY - 1)] {
            out.push(self.str_lookup(4, n));
        }
        out
    }

    fn clone_block(&mut self, rng: &mut Rng) {
        let copy = State { xot: self.cur.xot.clone(), ns: self.cur.ns.clone(), pf: self.cur.pf.clone(), nm: self.cur.nm.clone() };
        self.other = Some(copy);
        self.emit("idmap clone".to_string(), "ok".to_string());
        let seed = rng.next();
        let a = self.battery(seed);
        self.swap();
        let b = self.battery(seed);
        if a != b {
            let i = (0..a.len()).find(|&i| a[i] != b[i]).unwrap_or(0);
            self.fail("C08:clone-answers-differ", format!("lookup #{} of the battery answered {:?} on the original and {:?} on the clone", i, a[i], b[i]));
        }
        if rng.chance(1, 2) {
            // independence: a registration in the clone is not visible in the original
            let v = format!("only-in-clone-{}", rng.below(1000));
            self.add_name_ns(&v, 0, true);
            self.add_prefix(&v);
            self.swap();
            self.ro_name(&v, 0, true);
            self.ro_prefix(&v);
        } else if rng.chance(1, 2) {
            self.swap();
        }
    }

    fn swap(&mut self) {
        if let Some(o) = self.other.take() {
            let c = std::mem::replace(&mut self.cur, o);
            self.other = Some(c);
            self.emit("idmap swap".to_string(), "ok".to_string());
        }
    }

    // ---- end-of-history oracle: everything registered still means what it meant ----------------
    fn final_check(&mut self) {
        let step = |len: usize| (len / 300).max(1);
        let nm: Vec<((String, usize), usize)> = self.cur.nm.order.iter().step_by(step(self.cur.nm.order.len())).map(|k| (k.clone(), self.cur.nm.truth[k])).collect();
        for (k, n) in nm {
            if let Some(&id) = self.bank.names.get(n) {
                self.check_name(&k, id);
            }
        }
        let ns: Vec<(String, usize)> = self.cur.ns.order.iter().step_by(step(self.cur.ns.order.len())).map(|k| (k.clone(), self.cur.ns.truth[k])).collect();
        for (k, n) in ns {
            if let Some(&id) = self.bank.nss.get(n) {
                self.check_ns(&k, id);
            }
        }
        let pf: Vec<(String, usize)> = self.cur.pf.order.iter().step_by(step(self.cur.pf.order.len())).map(|k| (k.clone(), self.cur.pf.truth[k])).collect();
        for (k, n) in pf {
            if let Some(&id) = self.bank.pfs.get(n) {
                self.check_pf(&k, id);
            }
        }
        let bucket = |n: usize| match n {
            0..=2 => "2",
            3..=5 => "3-5",
            6..=15 => "6-15",
            16..=100 => "16-100",
            101..=1000 => "101-1000",
            _ => "1001+",
        };
        self.sink.stat(&format!("size.names.{}", bucket(self.cur.nm.order.len())));
        self.sink.stat(&format!("size.namespaces.{}", bucket(self.cur.ns.order.len())));
        self.sink.stat(&format!("size.prefixes.{}", bucket(self.cur.pf.order.len())));
    }

    // ---- the long history ----------------------------------------------------------------------
    fn bulk(&mut self, which: usize, count: usize, p: &str, ns: usize) {
        let mut samples = vec![0, 1, 2, 100, count / 2, CAPACITY - 3, CAPACITY - 2, CAPACITY - 1, CAPACITY, count - 1];
        samples.retain(|&i| i < count);
        samples.dedup();
        let req = match which {
            0 => format!("idmap bulk_names {} {} {} {}", count, enc(p), ns, ids_str(&samples)),
            1 => format!("idmap bulk_namespaces {} {} {}", count, enc(p), ids_str(&samples)),
            _ => format!("idmap bulk_prefixes {} {} {}", count, enc(p), ids_str(&samples)),
        };
        self.recent.push(req.clone());
        let mut ids = Vec::with_capacity(count);
        let mut panicked_at = None;
        for i in 0..count {
            let v = format!("{}{}", p, i);
            let nsid = self.bank.nss[ns];
            let x = &mut self.cur.xot;
            let n = match which {
                0 => match guarded(|| x.add_name_ns(&v, nsid)) {
                    Some(id) => {
                        let n = name_num(id);
                        let key = (v, ns);
                        self.cur.nm.observe(&key, n, self.fails, self.sink, &self.recent);
                        self.check_name(&key, id);
                        Some(n)
                    }
                    None => None,
                },
                1 => match guarded(|| x.add_namespace(&v)) {
                    Some(id) => {
                        self.cur.ns.observe(&v, ns_num(id), self.fails, self.sink, &self.recent);
                        self.check_ns(&v, id);
                        Some(ns_num(id))
                    }
                    None => None,
                },
                _ => match guarded(|| x.add_prefix(&v)) {
                    Some(id) => {
                        self.cur.pf.observe(&v, prefix_num(id), self.fails, self.sink, &self.recent);
                        self.check_pf(&v, id);
                        Some(prefix_num(id))
                    }
                    None => None,
                },
            };
            match n {
                Some(n) => ids.push(n),
                None => {
                    panicked_at = Some(i);
                    break;
                }
            }
        }
        self.recent.pop();
        if let Some(i) = panicked_at {
            // e.g. after a fix that refuses the 65 537th entry: the model has to follow suit
            self.emit(req, format!("panic {}", i));
            return;
        }
        let resp = format!("ok {}", ids_str(&samples.iter().map(|&i| ids[i]).collect::<Vec<_>>()));
        self.emit(req, resp);
    }
}

// ---------------------------------------------------------------------------------------------
// small documents for `parse`

fn qname(rng: &mut Rng, locals: &[&str]) -> String {
    let p = *rng.pick(&["", "", "p", "q", "xml", "x"]);
    let l = *rng.pick(locals);
    if p.is_empty() {
        l.to_string()
    } else {
        format!("{}:{}", p, l)
    }
}

fn gen_el(rng: &mut Rng, depth: usize, out: &mut String) {
    let name = qname(rng, &["a", "b", "c", "A", "id", "space"]);
    out.push('<');
    out.push_str(&name);
    if depth == 0 {
        // most documents declare the prefixes they use (the rest exercise registrations made
        // before the parser gives up)
        for p in ["p", "q", "x"] {
            if rng.chance(4, 5) {
                out.push_str(&format!(" xmlns:{}=\"{}\"", p, rng.pick(&["urn:a", "urn:b", "urn:c"])));
            }
        }
    }
    for _ in 0..rng.below(3) {
        let uri = *rng.pick(&["urn:a", "urn:b", "urn:c", "", XML_NS]);
        match rng.below(3) {
            0 => out.push_str(&format!(" xmlns=\"{}\"", uri)),
            _ => out.push_str(&format!(" xmlns:{}=\"{}\"", rng.pick(&["p", "q", "x", "a"]), uri)),
        }
    }
    for _ in 0..rng.below(3) {
        out.push_str(&format!(" {}=\"v\"", qname(rng, &["a", "b", "id", "space", "lang", "x"])));
    }
    if depth >= 2 || rng.chance(1, 3) {
        out.push_str("/>");
        return;
    }
    out.push('>');
    for _ in 0..rng.below(3) {
        gen_el(rng, depth + 1, out);
    }
    out.push_str(&format!("</{}>", name));
}

fn gen_doc(rng: &mut Rng) -> String {
    let mut s = String::new();
    gen_el(rng, 0, &mut s);
    s
}

// ---------------------------------------------------------------------------------------------

fn gen_str(rng: &mut Rng, registered: &[String]) -> String {
    match rng.below(10) {
        0..=3 => rng.pick(POOL).to_string(),
        4..=6 if !registered.is_empty() => registered[rng.below(registered.len())].clone(),
        _ => any_string(rng, 4),
    }
}

fn random_history(rng: &mut Rng, bank: &Bank, fails: &mut Fails, sink: &mut Sink) {
    let mut h = Hist::new(bank, fails, sink);
    let len = match rng.below(10) {
        0 => rng.below(4),
        1..=6 => 5 + rng.below(25),
        _ => 30 + rng.below(60),
    };
    h.sink.stat(&format!("history.len.{}", match len { 0..=3 => "0-3", 4..=29 => "4-29", _ => "30+" }));
    for _ in 0..len {
        let ns_regs = h.cur.ns.order.clone();
        let pf_regs = h.cur.pf.order.clone();
        let locals: Vec<String> = h.cur.nm.order.iter().map(|k| k.0.clone()).collect();
        let ns_pick = |rng: &mut Rng, h: &Hist| -> usize {
            if rng.chance(1, 8) {
                h.cur.ns.order.len() + rng.below(3) // an id this Xot has not handed out (foreign id)
            } else {
                rng.below(h.cur.ns.order.len().min(CAPACITY))
            }
        };
        match rng.below(20) {
            0..=2 => {
                let s = gen_str(rng, &locals);
                h.add_name_ns(&s, 0, true);
            }
            3..=5 => {
                let s = gen_str(rng, &locals);
                let k = ns_pick(rng, &h);
                h.add_name_ns(&s, k, false);
            }
            6 | 7 => {
                let s = gen_str(rng, &ns_regs);
                h.add_namespace(&s);
            }
            8 | 9 => {
                let s = gen_str(rng, &pf_regs);
                h.add_prefix(&s);
            }
            10 | 11 => {
                let s = gen_str(rng, &locals);
                if rng.chance(1, 2) {
                    h.ro_name(&s, 0, true);
                } else {
                    let k = ns_pick(rng, &h);
                    h.ro_name(&s, k, false);
                }
            }
            12 => {
                let s = gen_str(rng, &ns_regs);
                h.ro_namespace(&s);
            }
            13 => {
                let s = gen_str(rng, &pf_regs);
                h.ro_prefix(&s);
            }
            14 | 15 => {
                let which = rng.below(6);
                let len = match which {
                    3 => h.cur.ns.order.len(),
                    4 => h.cur.pf.order.len(),
                    _ => h.cur.nm.order.len(),
                };
                // mostly ids in range, sometimes the first ids out of range (panic branch)
                let n = if rng.chance(1, 6) { len + rng.below(3) } else { rng.below(len) };
                h.str_lookup(which, n.min(CAPACITY - 1));
            }
            16 | 17 => h.parse_doc(rng),
            18 => {
                if rng.chance(1, 2) {
                    h.clone_block(rng)
                } else {
                    h.builtins()
                }
            }
            _ => {
                if rng.chance(1, 6) {
                    h.html5()
                } else {
                    h.builtins()
                }
            }
        }
    }
    h.final_check();
}

/// The one long history: 2^16 + 64 distinct names, then prefixes, then namespaces.
fn long_history(bank: &Bank, fails: &mut Fails, sink: &mut Sink) {
    let count = CAPACITY + 64;
    let mut h = Hist::new(bank, fails, sink);
    h.builtins();
    h.add_name_ns("a", 0, true);
    h.bulk(0, count, "n", 0);
    let last_before = format!("n{}", CAPACITY - 4); // index 2^16 - 1 after 2 built-ins + "a"
    let first_wrapped = format!("n{}", CAPACITY - 3);
    for n in [0, 1, 2, 3, 66, 67, CAPACITY - 1] {
        h.str_lookup(0, n);
    }
    h.ro_name(&last_before, 0, true);
    h.ro_name(&first_wrapped, 0, true);
    h.ro_name("n0", 0, true);
    h.add_name_ns(&first_wrapped, 0, true);
    h.add_name_ns("n0", 0, true);
    h.add_name_ns("fresh-after-wrap", 0, true);
    h.ro_name("space", 1, false);
    h.builtins();
    // what the collision means for trees (on a clone, so that the history itself is unchanged):
    // a freshly parsed element carries the name of an unrelated earlier registration
    {
        let mut x = h.cur.xot.clone();
        let r = guarded(|| {
            let d1 = x.parse("<after-wrap-one/>").unwrap();
            let text = x.to_string(d1).unwrap_or_default();
            let d2 = x.parse(&text).unwrap();
            let e1 = x.document_element(d1).unwrap();
            let e2 = x.document_element(d2).unwrap();
            (x.node_name(e1) == x.node_name(e2), text)
        });
        match r {
            Some((_, text)) if text == "<after-wrap-one/>" => {}
            Some((same, text)) => h.fail(WRAP, format!("parse: after {} registered names: to_string(parse(\"<after-wrap-one/>\")) = {:?} (element name equal to that of the document it names: {})", h.cur.nm.order.len(), text, same)),
            None => h.fail(WRAP, format!("parse: after {} registered names: parse / to_string of \"<after-wrap-one/>\" panics", h.cur.nm.order.len())),
        }
    }
    h.bulk(2, count, "n", 0);
    for n in [0, 1, 2, 65, 66, CAPACITY - 1] {
        h.str_lookup(4, n);
    }
    h.ro_prefix(&format!("n{}", CAPACITY - 2));
    h.ro_prefix("xml");
    h.add_prefix("xml");
    h.bulk(1, count, "n", 0);
    for n in [0, 1, 2, 65, 66, CAPACITY - 1] {
        h.str_lookup(3, n);
    }
    // the 65 537th namespace has the id of "no namespace": a name registered in it *is* the
    // unqualified name
    let wrapped_ns = format!("n{}", CAPACITY - 2);
    let k = h.add_namespace(&wrapped_ns);
    h.add_name_ns("in-wrapped-namespace", k, false);
    h.ro_name("in-wrapped-namespace", 0, true);
    let mut rng = Rng::new(17);
    h.clone_block(&mut rng);
    h.builtins();
    h.final_check();
}

/// Thorough tier: every history of at most `maxlen` registrations over a small alphabet, each
/// followed by the same battery of lookups.
fn exhaustive(maxlen: usize, bank: &Bank, fails: &mut Fails, sink: &mut Sink) {
    const OPS: usize = 8;
    let mut idx: Vec<usize> = vec![];
    loop {
        {
            let mut h = Hist::new(bank, fails, sink);
            for &o in &idx {
                match o {
                    0 => { h.add_name_ns("a", 0, true); }
                    1 => { h.add_name_ns("b", 0, true); }
                    2 => { h.add_name_ns("a", 1, false); }
                    3 => { h.add_name_ns("a", 2, false); }
                    4 => { h.add_namespace("u"); }
                    5 => { h.add_namespace(""); }
                    6 => { h.add_prefix("p"); }
                    _ => { h.add_prefix("xml"); }
                }
            }
            h.ro_name("a", 0, true);
            h.ro_name("b", 0, true);
            h.ro_name("a", 1, false);
            h.ro_name("a", 2, false);
            h.ro_namespace("u");
            h.ro_prefix("p");
            for n in 2..5 {
                h.str_lookup(0, n);
            }
            h.str_lookup(3, 2);
            h.str_lookup(4, 2);
            h.final_check();
            h.sink.stat("exhaustive.histories");
        }
        let mut i = idx.len();
        loop {
            if i == 0 {
                idx.insert(0, 0);
                for j in idx.iter_mut() {
                    *j = 0;
                }
                break;
            }
            i -= 1;
            if idx[i] + 1 < OPS {
                idx[i] += 1;
                for j in idx.iter_mut().skip(i + 1) {
                    *j = 0;
                }
                break;
            }
        }
        if idx.len() > maxlen {
            break;
        }
    }
}

pub fn run(seed: u64, count: usize, tier: &str, sink: &mut Sink) {
    let mut rng = Rng::new(seed ^ 0x1D3A9);
    let bank = Bank::new();
    let mut fails = Fails::new();
    long_history(&bank, &mut fails, sink);
    if tier == "thorough" {
        exhaustive(4, &bank, &mut fails, sink);
    }
    for _ in 0..count {
        random_history(&mut rng, &bank, &mut fails, sink);
    }
    for l in &fails.lines {
        println!("{}", l);
    }
}
