//! Suite `ffixed` (C20): one abstract document built by several routes in one real `Xot`:
//!   (a) `fixed::Document::xotify`,
//!   (b) parsing the default serialisation of (a),
//!   (c) three stepwise construction orders through the public creation / manipulation API
//!       (top-down, bottom-up, right-to-left via `prepend` / `insert_before`),
//!   (d) random construction programs (`shuffled_build` below; `suite_fanyorder.rs`: any
//!       interleaving of creation, attachment, attribute / namespace insertion, text in pieces),
//!       the latter also run on the ordered-tree specification (`forest prog spec`).
//!   (e) random EXTENDED construction programs (`suite_fanyorder2.rs`: the same document built with
//!       detours — helper wrappers, placeholders, late values, detach and re-attach, wrap, clone of a
//!       template), also run as whole programs (`forest prog2 spec` / `forest prog2 impl`).
//! Routes (a) and (c) are also run by the model (`forest fixed <route> <document>`), the whole
//! forest is dumped after each and compared (`forest dump`).
//! Oracle (implementation only): the routes are pairwise `deep_equal`, read back to the same raw
//! tree (same declarations, same order), serialise identically, and the tree of route (a) is the
//! abstract document itself (before / after items are siblings of the document element, in order).
use crate::common::{guarded, Rng, Sink};
use crate::suite_forest::Session;
use crate::tree::*;
use xot::{fixed, Node, Xot};

// ---------------------------------------------------------------------------------------------
// abstract document (a `GTree` with a document root) -> `fixed::Document`

fn fixed_name(v: &Vocab, n: usize) -> fixed::Name {
    let (local, ns, _) = &v.names[n];
    fixed::Name { namespace: v.namespaces[*ns].0.clone(), localname: local.clone() }
}

fn fixed_pi(v: &Vocab, t: usize, d: &Option<String>) -> fixed::ProcessingInstruction {
    // a PI target is a name without namespace (`add_name`)
    assert_eq!(v.names[t].1, 0);
    fixed::ProcessingInstruction { target: v.names[t].0.clone(), content: d.clone() }
}

fn fixed_element(v: &Vocab, t: &GTree) -> fixed::Element {
    let name = match &t.v {
        GValue::Element(n) => fixed_name(v, *n),
        _ => panic!("not an element"),
    };
    let mut prefixes = vec![];
    let mut attributes = vec![];
    let mut children = vec![];
    for k in &t.kids {
        match &k.v {
            GValue::Namespace(p, ns) => prefixes.push(fixed::Prefix { name: v.prefixes[*p].0.clone(), namespace: v.namespaces[*ns].0.clone() }),
            GValue::Attribute(n, val) => attributes.push((fixed_name(v, *n), val.clone())),
            GValue::Text(s) => children.push(fixed::Content::Text(s.clone())),
            GValue::Comment(s) => children.push(fixed::Content::Comment(s.clone())),
            GValue::PI(t, d) => children.push(fixed::Content::ProcessingInstruction(fixed_pi(v, *t, d))),
            GValue::Element(_) => children.push(fixed::Content::Element(fixed_element(v, k))),
            GValue::Document => panic!("document below the root"),
        }
    }
    fixed::Element { name, prefixes, attributes, children }
}

fn fixed_doc_content(v: &Vocab, t: &GTree) -> fixed::DocumentContent {
    match &t.v {
        GValue::Comment(s) => fixed::DocumentContent::Comment(s.clone()),
        GValue::PI(t, d) => fixed::DocumentContent::ProcessingInstruction(fixed_pi(v, *t, d)),
        _ => panic!("not document content"),
    }
}

fn fixed_document(v: &Vocab, t: &GTree) -> fixed::Document {
    let i = t.kids.iter().position(|k| matches!(k.v, GValue::Element(_))).expect("document element");
    fixed::Document {
        before: t.kids[..i].iter().map(|k| fixed_doc_content(v, k)).collect(),
        document_element: fixed_element(v, &t.kids[i]),
        after: t.kids[i + 1..].iter().map(|k| fixed_doc_content(v, k)).collect(),
    }
}

// ---------------------------------------------------------------------------------------------
// stepwise routes through the public API (same call order as Model/Fixed.lean)

/// `createHead`: the node without its content; an element gets its maps filled right away.
fn create_head(xot: &mut Xot, v: &Vocab, t: &GTree) -> Node {
    let node = new_node(xot, v, &t.v);
    if matches!(t.v, GValue::Element(_)) {
        for k in &t.kids {
            if let GValue::Namespace(p, ns) = &k.v {
                xot.namespaces_mut(node).insert(v.prefix(*p), v.ns(*ns));
            }
        }
        for k in &t.kids {
            if let GValue::Attribute(n, val) = &k.v {
                xot.attributes_mut(node).insert(v.name(*n), val.clone());
            }
        }
    }
    node
}

fn content(t: &GTree) -> Vec<&GTree> {
    t.kids.iter().filter(|k| k.is_normal()).collect()
}

fn top_down_content(xot: &mut Xot, v: &Vocab, parent: Node, t: &GTree) {
    let node = create_head(xot, v, t);
    xot.append(parent, node).unwrap();
    for k in content(t) {
        top_down_content(xot, v, node, k);
    }
}

fn top_down_document(xot: &mut Xot, v: &Vocab, t: &GTree) -> Node {
    let doc = xot.new_document();
    for k in content(t) {
        top_down_content(xot, v, doc, k);
    }
    doc
}

fn bottom_up_content(xot: &mut Xot, v: &Vocab, t: &GTree) -> Node {
    let hs: Vec<Node> = content(t).into_iter().map(|k| bottom_up_content(xot, v, k)).collect();
    let node = create_head(xot, v, t);
    for h in hs {
        xot.append(node, h).unwrap();
    }
    node
}

fn bottom_up_document(xot: &mut Xot, v: &Vocab, t: &GTree) -> Node {
    let hs: Vec<Node> = content(t).into_iter().map(|k| bottom_up_content(xot, v, k)).collect();
    let doc = xot.new_document();
    for h in hs {
        xot.append(doc, h).unwrap();
    }
    doc
}

fn rtl_content(xot: &mut Xot, v: &Vocab, t: &GTree) -> Node {
    let node = create_head(xot, v, t);
    rtl_list(xot, v, node, &content(t));
    node
}

/// Later siblings first; returns the leftmost child attached so far.
fn rtl_list(xot: &mut Xot, v: &Vocab, parent: Node, kids: &[&GTree]) -> Option<Node> {
    if kids.is_empty() {
        return None;
    }
    let next = rtl_list(xot, v, parent, &kids[1..]);
    let h = rtl_content(xot, v, kids[0]);
    match next {
        None => xot.prepend(parent, h).unwrap(),
        Some(n) => xot.insert_before(n, h).unwrap(),
    }
    Some(h)
}

fn rtl_document(xot: &mut Xot, v: &Vocab, t: &GTree) -> Node {
    let doc = xot.new_document();
    rtl_list(xot, v, doc, &content(t));
    doc
}

// ---------------------------------------------------------------------------------------------
// well-formedness of the abstract document (the hypothesis of the C20 theorems)

fn no_adjacent_text(t: &GTree) -> bool {
    let mut last = false;
    for k in &t.kids {
        let is_text = matches!(k.v, GValue::Text(_));
        if is_text && last {
            return false;
        }
        last = is_text;
    }
    t.kids.iter().all(no_adjacent_text)
}

fn unique_keys(t: &GTree) -> bool {
    let mut ps = vec![];
    let mut ats = vec![];
    for k in &t.kids {
        match &k.v {
            GValue::Namespace(p, _) => {
                if ps.contains(p) {
                    return false;
                }
                ps.push(*p)
            }
            GValue::Attribute(n, _) => {
                if ats.contains(n) {
                    return false;
                }
                ats.push(*n)
            }
            _ => {}
        }
    }
    t.kids.iter().all(unique_keys)
}

/// C10's known defect (DESIGN.md section 8, #13): an element whose name is in no namespace, in the
/// scope of a non-empty default namespace declaration, is serialised without `xmlns=""` and so
/// joins that namespace when reparsed.  Such documents are kept out of the parse route only.
fn default_namespace_hazard(v: &Vocab, t: &GTree, default_ns: usize) -> bool {
    let mut d = default_ns;
    for k in &t.kids {
        if let GValue::Namespace(0, ns) = &k.v {
            d = *ns;
        }
    }
    if let GValue::Element(n) = &t.v {
        if v.names[*n].1 == 0 && d != 0 {
            return true;
        }
    }
    t.kids.iter().any(|k| default_namespace_hazard(v, k, d))
}

fn no_empty_text(t: &GTree) -> bool {
    !matches!(&t.v, GValue::Text(s) if s.is_empty()) && t.kids.iter().all(no_empty_text)
}

// ---------------------------------------------------------------------------------------------
// generators

fn gen_misc(rng: &mut Rng) -> GTree {
    if rng.chance(1, 2) {
        GTree::leaf(GValue::Comment(gen_comment(rng)))
    } else {
        GTree::leaf(GValue::PI(*rng.pick(&[17usize, 18]), gen_pi_data(rng)))
    }
}

/// Profile of a case.
#[derive(Clone, Copy, PartialEq, Debug)]
enum Profile {
    /// well-formed, every name resolvable (declarations on the document element): all routes incl. parse
    Closed,
    /// well-formed, arbitrary declarations (serialisation may refuse: parse route skipped)
    Open,
    /// consolidation switched off; adjacent and empty text allowed (still the abstract tree)
    ConsOff,
    /// hypothesis violated on purpose (adjacent text with consolidation on, repeated keys):
    /// model / implementation correspondence only
    IllFormed,
}

fn gen_doc(rng: &mut Rng, profile: Profile) -> GTree {
    let mut cfg = GenCfg::default_cfg();
    cfg.max_depth = 2 + rng.below(3);
    cfg.max_kids = 1 + rng.below(4);
    cfg.text_max = 4;
    // xml:id (1) is normalised and indexed by the parser: C02 / C17, not this property
    cfg.attr_names = vec![2, 3, 4, 6, 7, 9, 0, 15];
    match profile {
        Profile::Closed => {
            cfg.with_ns_nodes = false;
        }
        Profile::Open => {}
        Profile::ConsOff | Profile::IllFormed => {
            cfg.adjacent_text = true;
        }
    }
    let mut el = gen_element(rng, &cfg, 1);
    if profile == Profile::Closed {
        // declare p, q, r for the three namespaces on the document element
        let decls: Vec<GTree> = [(2usize, NS_A), (3, NS_B), (4, NS_C)].iter().map(|(p, n)| GTree::leaf(GValue::Namespace(*p, *n))).collect();
        let mut kids = decls;
        kids.extend(el.kids.into_iter());
        el.kids = kids;
        if rng.chance(1, 2) {
            // inner elements rebind p, q, r among the same three namespaces (a permutation, so
            // every name stays resolvable): the same prefix means different namespaces in
            // sibling scopes (seed C20i: a binding remembered past the end of its scope)
            fn add_attrs(k: &mut GTree, names: &[usize]) {
                for &a in names {
                    if !k.kids.iter().any(|x| matches!(x.v, GValue::Attribute(n, _) if n == a)) {
                        let at = k.kids.iter().position(|x| x.is_normal()).unwrap_or(k.kids.len());
                        k.kids.insert(at, GTree::leaf(GValue::Attribute(a, "v".into())));
                    }
                }
            }
            fn shadow(rng: &mut Rng, t: &mut GTree) {
                let mut after_shadowed = false;
                for k in t.kids.iter_mut() {
                    if let GValue::Element(_) = k.v {
                        if after_shadowed && rng.chance(2, 3) {
                            // the element after a rebinding scope uses every prefix on attributes
                            add_attrs(k, &[7, 10, 13]);
                        }
                        after_shadowed = false;
                        if rng.chance(1, 3) {
                            after_shadowed = true;
                            if rng.chance(2, 3) {
                                add_attrs(k, &[6, 9, 12]);
                            }
                            let perm = *rng.pick(&[[NS_B, NS_A, NS_C], [NS_A, NS_C, NS_B], [NS_C, NS_B, NS_A], [NS_B, NS_C, NS_A], [NS_C, NS_A, NS_B]]);
                            for (i, ns) in perm.iter().enumerate().rev() {
                                k.kids.insert(0, GTree::leaf(GValue::Namespace(2 + i, *ns)));
                            }
                        }
                        // prefixed attributes on both sides of a scope boundary
                        if rng.chance(1, 2) {
                            let a = *rng.pick(&[6usize, 9, 12]);
                            if !k.kids.iter().any(|x| matches!(x.v, GValue::Attribute(n, _) if n == a)) {
                                let at = k.kids.iter().position(|x| x.is_normal()).unwrap_or(k.kids.len());
                                k.kids.insert(at, GTree::leaf(GValue::Attribute(a, "v".into())));
                            }
                        }
                        shadow(rng, k);
                    }
                }
            }
            shadow(rng, &mut el);
        }
    }
    if profile == Profile::ConsOff && rng.chance(1, 2) {
        // an empty text child somewhere at the end of the document element
        el.kids.push(GTree::leaf(GValue::Text(String::new())));
    }
    if profile == Profile::IllFormed && rng.chance(1, 2) {
        // repeat a key: `insert` updates instead of adding
        let mut extra = vec![];
        for k in &el.kids {
            match &k.v {
                GValue::Attribute(n, _) if rng.chance(1, 2) => extra.push(GTree::leaf(GValue::Attribute(*n, "dup".into()))),
                _ => {}
            }
        }
        if extra.is_empty() {
            extra.push(GTree::leaf(GValue::Attribute(2, "one".into())));
            extra.push(GTree::leaf(GValue::Attribute(2, "two".into())));
        }
        let i = el.kids.iter().position(|k| k.is_normal()).unwrap_or(el.kids.len());
        for (j, e) in extra.into_iter().enumerate() {
            el.kids.insert(i + j, e);
        }
        if rng.chance(1, 2) {
            el.kids.insert(0, GTree::leaf(GValue::Namespace(3, NS_A)));
            el.kids.insert(0, GTree::leaf(GValue::Namespace(3, NS_B)));
        }
    }
    let mut kids = vec![];
    for _ in 0..rng.below(4) {
        kids.push(gen_misc(rng));
    }
    kids.push(el);
    for _ in 0..rng.below(4) {
        kids.push(gen_misc(rng));
    }
    GTree::new(GValue::Document, kids)
}

// ---------------------------------------------------------------------------------------------
// one case

struct Built {
    route: &'static str,
    node: Node,
}

/// Run one route on the real Xot, emit the request line and the dump.
fn run_route(s: &mut Session, sink: &mut Sink, route: &'static str, t: &GTree, f: impl FnOnce(&mut Xot, &Vocab) -> Node) -> Option<Built> {
    let req = format!("fixed {} {}", route, t.wire());
    let r = {
        let Session { xot, vocab, .. } = &mut *s;
        guarded(|| f(xot, vocab))
    };
    match r {
        None => {
            s.history.push(format!("{} -> panic", req));
            sink.emit(format!("forest {}", req), "panic".into());
            sink.stat(&format!("route.{}.panic", route));
            None
        }
        Some(node) => {
            s.relabel(Some(node));
            let resp = format!("ok {}", s.label[&node]);
            s.history.push(format!("{} -> {}", req, resp));
            sink.emit(format!("forest {}", req), resp);
            s.exec(sink, "dump");
            s.exec(sink, "inv");
            sink.stat(&format!("route.{}.ok", route));
            Some(Built { route, node })
        }
    }
}


/// A stepwise construction in a RANDOM order: every normal child is created and attached at its
/// final relative position next to the siblings that are already there (append / prepend /
/// insert_after / insert_before, chosen at random among the applicable ones); subtrees are
/// filled before or after they are attached. Issued as ordinary `forest` requests, so the model
/// replays every step. Returns the label of the root.
fn shuffled_build(s: &mut Session, sink: &mut Sink, rng: &mut Rng, t: &GTree) -> usize {
    let r = s.exec(sink, &format!("new {}", GTree::leaf(t.v.clone()).wire()));
    let root: usize = r[3..].parse().unwrap();
    shuffled_fill(s, sink, rng, root, t);
    root
}

fn shuffled_fill(s: &mut Session, sink: &mut Sink, rng: &mut Rng, root: usize, t: &GTree) {
    // namespace and attribute nodes in order (their order is part of the document)
    for k in t.kids.iter().filter(|k| !k.is_normal()) {
        let r = s.exec(sink, &format!("new {}", GTree::leaf(k.v.clone()).wire()));
        let l: usize = r[3..].parse().unwrap();
        s.exec(sink, &format!("any_append {} {}", root, l));
    }
    let normal: Vec<&GTree> = t.kids.iter().filter(|k| k.is_normal()).collect();
    let n = normal.len();
    // non-text children first, then the text children: two text nodes that are separated in the
    // final document must never be adjacent on the way (they would be merged)
    let mut order: Vec<usize> = (0..n).filter(|&i| !matches!(normal[i].v, GValue::Text(_))).collect();
    let mut texts: Vec<usize> = (0..n).filter(|&i| matches!(normal[i].v, GValue::Text(_))).collect();
    for v in [&mut order, &mut texts] {
        for i in (1..v.len()).rev() {
            v.swap(i, rng.below(i + 1));
        }
    }
    order.extend(texts);
    let mut placed: Vec<Option<usize>> = vec![None; n];
    for &i in &order {
        // a text node may be delivered in two pieces: the second piece must merge into the first
        let (first, second): (GValue, Option<GValue>) = match &normal[i].v {
            GValue::Text(x) if x.chars().count() >= 2 && s.xot_consolidation() && rng.chance(1, 2) => {
                let cut = 1 + rng.below(x.chars().count() - 1);
                let a: String = x.chars().take(cut).collect();
                let b: String = x.chars().skip(cut).collect();
                (GValue::Text(a), Some(GValue::Text(b)))
            }
            v => (v.clone(), None),
        };
        let r = s.exec(sink, &format!("new {}", GTree::leaf(first).wire()));
        let l: usize = r[3..].parse().unwrap();
        let fill_first = rng.chance(1, 2);
        if fill_first {
            shuffled_fill(s, sink, rng, l, normal[i]);
        }
        let left = (0..i).rev().find_map(|j| placed[j]);
        let right = ((i + 1)..n).find_map(|j| placed[j]);
        let mut options: Vec<String> = vec![];
        if let Some(a) = left {
            options.push(format!("insert_after {} {}", a, l));
        }
        if let Some(b) = right {
            options.push(format!("insert_before {} {}", b, l));
        }
        if right.is_none() {
            options.push(format!("append {} {}", root, l));
        }
        if left.is_none() {
            options.push(format!("prepend {} {}", root, l));
        }
        let req = rng.pick(&options).clone();
        sink.stat(&format!("shuffle.{}", req.split(' ').next().unwrap()));
        s.exec(sink, &req);
        placed[i] = Some(l);
        if !fill_first {
            shuffled_fill(s, sink, rng, l, normal[i]);
        }
        if let Some(second) = second {
            let r = s.exec(sink, &format!("new {}", GTree::leaf(second).wire()));
            let l2: usize = r[3..].parse().unwrap();
            let mut options: Vec<String> = vec![format!("insert_after {} {}", l, l2)];
            if let Some(b) = right {
                options.push(format!("insert_before {} {}", b, l2));
            } else {
                options.push(format!("append {} {}", root, l2));
            }
            let req = rng.pick(&options).clone();
            sink.stat(&format!("shuffle.second-piece.{}", req.split(' ').next().unwrap()));
            s.exec(sink, &req);
        }
    }
}

fn fail(sink: &mut Sink, s: &Session, signature: &str, what: &str) {
    sink.fail("C20", signature, what, &s.history);
}

fn one_case(rng: &mut Rng, sink: &mut Sink, profile: Profile, doc: Option<GTree>) {
    let mut s = Session::new();
    s.exec(sink, "reset");
    // other trees in the store: the routes must leave them alone
    if rng.chance(1, 2) {
        s.exec(sink, "new E 2");
        s.exec(sink, "new T s:78");
        s.exec(sink, "append 0 1");
        s.exec(sink, "new C s:63");
        sink.stat("store.nonempty");
    }
    if profile == Profile::ConsOff {
        s.exec(sink, "cons 0");
    }
    let t = doc.unwrap_or_else(|| gen_doc(rng, profile));
    sink.stat(&format!("profile.{:?}", profile));
    sink.stat(&format!("size.{}", match t.size() { 0..=3 => "1-3", 4..=8 => "4-8", 9..=20 => "9-20", _ => "21+" }));
    let i = t.kids.iter().position(|k| matches!(k.v, GValue::Element(_))).unwrap();
    sink.stat(&format!("before.{}", i));
    sink.stat(&format!("after.{}", t.kids.len() - 1 - i));
    let wf = unique_keys(&t) && (profile == Profile::ConsOff || no_adjacent_text(&t));
    sink.stat(if wf { "wellformed.yes" } else { "wellformed.no" });
    let before_dump = s.dump();

    let fd = fixed_document(&s.vocab, &t);
    let mut built: Vec<Built> = vec![];
    let mut panicked = false;
    let a = run_route(&mut s, sink, "xotify", &t, |xot, _| fd.xotify(xot));
    match a {
        Some(b) => built.push(b),
        None => panicked = true,
    }
    if !panicked {
        let routes: [(&'static str, fn(&mut Xot, &Vocab, &GTree) -> Node); 3] =
            [("topdown", top_down_document), ("bottomup", bottom_up_document), ("rtl", rtl_document)];
        for (name, f) in routes {
            match run_route(&mut s, sink, name, &t, |xot, v| f(xot, v, &t)) {
                Some(b) => built.push(b),
                None => {
                    panicked = true;
                    break;
                }
            }
        }
    }
    if !wf {
        // hypothesis of the property not met: correspondence only
        return;
    }
    // a random stepwise order (only meaningful without adjacent text: with adjacent text the
    // merge result depends on the order)
    if !panicked && no_adjacent_text(&t) {
        for _ in 0..2 {
            let root = shuffled_build(&mut s, sink, rng, &t);
            s.exec(sink, "dump");
            s.exec(sink, "inv");
            built.push(Built { route: "shuffled", node: s.nodes[root] });
        }
    }
    // any-order construction programs (suite_fanyorder.rs): creation, attachment, attribute and
    // namespace insertion and text pieces randomly interleaved; also run on the specification
    if !panicked && (!s.xot_consolidation() || no_adjacent_text(&t)) {
        for _ in 0..2 {
            match crate::suite_fanyorder::anyorder_build(&mut s, sink, rng, &t) {
                Some(root) => {
                    s.exec(sink, "dump");
                    s.exec(sink, "inv");
                    built.push(Built { route: "anyorder", node: s.nodes[root] });
                }
                None => {
                    fail(sink, &s, "C20:anyorder-step-refused", &format!("a step of a random construction program of {} was refused", t.wire()));
                    return;
                }
            }
        }
    }
    // extended construction programs (suite_fanyorder2.rs): the same document built with detours —
    // helper wrappers, placeholders, late values, detach and re-attach, wrap, clone of a template
    if !panicked && (!s.xot_consolidation() || no_adjacent_text(&t)) {
        for _ in 0..2 {
            match crate::suite_fanyorder2::extended_build(&mut s, sink, rng, &t) {
                Some(root) => {
                    s.exec(sink, "dump");
                    s.exec(sink, "inv");
                    built.push(Built { route: "program", node: s.nodes[root] });
                }
                None => {
                    fail(sink, &s, "C20:program-step-refused", &format!("a step of a random extended construction program of {} was refused", t.wire()));
                    return;
                }
            }
        }
    }
    if panicked {
        let route = ["xotify", "topdown", "bottomup", "rtl"][built.len().min(3)];
        fail(sink, &s, &format!("C20:{}-panics", route), &format!("route {} panicked on the well-formed document {}", route, t.wire()));
        return;
    }
    // the store outside the new documents is untouched
    let after_dump = s.dump();
    if !after_dump.starts_with(&before_dump) {
        fail(sink, &s, "C20:other-trees-changed", &format!("forest before `{}` is not a prefix of the forest after `{}`", before_dump, after_dump));
    }
    // route (a) is the abstract document
    let ra = built[0].node;
    let read_a = read_tree(&s.xot, &mut s.vocab, ra);
    if read_a != t {
        let top_ok = read_a.kids.len() == t.kids.len() && read_a.kids.iter().zip(t.kids.iter()).all(|(x, y)| x.v == y.v);
        let sig = if !top_ok { "C20:fixed-before-after-misplaced" } else { "C20:fixed-differs-from-abstract-document" };
        fail(sink, &s, sig, &format!("xotify gives {} for the abstract document {}", read_a.wire(), t.wire()));
    }
    // route (b): parse the default serialisation of (a)
    let text_a = guarded(|| s.xot.to_string(ra));
    let mut text: Option<String> = None;
    match text_a {
        None => fail(sink, &s, "C20:to_string-panics", &format!("to_string of the xotified document {} panicked", t.wire())),
        Some(Err(_)) => sink.stat("parse-route.skipped-unserialisable"),
        Some(Ok(x)) => text = Some(x),
    }
    if let Some(x) = &text {
        if default_namespace_hazard(&s.vocab, &t, 0) {
            sink.stat("parse-route.skipped-c10-default-namespace");
        } else if no_empty_text(&t) && no_adjacent_text(&t) {
            match guarded(|| s.xot.parse(x)) {
                None => fail(sink, &s, "C20:parse-panics", &format!("parse of `{}` panicked", x)),
                Some(Err(e)) => fail(sink, &s, "C20:serialisation-does-not-parse", &format!("`{}` (serialisation of {}) is refused: {:?}", x, t.wire(), e)),
                Some(Ok(rp)) => {
                    sink.stat("parse-route.ok");
                    built.push(Built { route: "parse", node: rp });
                }
            }
        } else {
            sink.stat("parse-route.skipped-empty-or-adjacent-text");
        }
    }
    // route (b'): another well-formed spelling of the same document — every text node written as
    // CDATA sections (with the references the serialiser puts BETWEEN sections for CR and `]]>`), so
    // that the parser merges CDATA and reference-bearing character data (seed C20h)
    if text.is_some() && !default_namespace_hazard(&s.vocab, &t, 0) && no_empty_text(&t) && no_adjacent_text(&t) {
        let mut names: Vec<xot::NameId> = vec![];
        for n in s.xot.descendants(ra) {
            if let Some(e) = s.xot.element(n) {
                if !names.contains(&e.name()) {
                    names.push(e.name());
                }
            }
        }
        let params = xot::output::xml::Parameters { cdata_section_elements: names, ..Default::default() };
        match guarded(|| s.xot.serialize_xml_string(params, ra)) {
            Some(Ok(x)) => match guarded(|| s.xot.parse(&x)) {
                None => fail(sink, &s, "C20:parse-panics", &format!("parse of `{}` panicked", x)),
                Some(Err(e)) => fail(sink, &s, "C20:cdata-serialisation-does-not-parse", &format!("`{}` (CDATA spelling of {}) is refused: {:?}", x, t.wire(), e)),
                Some(Ok(rp)) => {
                    sink.stat(if x.contains("]]>&") || x.contains("]]>]") { "parse-cdata-route.ok.with-reference-between-sections" } else { "parse-cdata-route.ok" });
                    built.push(Built { route: "parse-cdata", node: rp });
                }
            },
            _ => sink.stat("parse-cdata-route.skipped"),
        }
    }
    // pairwise agreement
    for i in 0..built.len() {
        for j in (i + 1)..built.len() {
            let (x, y) = (&built[i], &built[j]);
            if !s.xot.deep_equal(x.node, y.node) {
                fail(sink, &s, &format!("C20:not-deep-equal:{}-{}", x.route, y.route), &format!("routes {} and {} are not deep_equal for {}", x.route, y.route, t.wire()));
            }
        }
    }
    for b in built.iter().skip(1) {
        let r = read_tree(&s.xot, &mut s.vocab, b.node);
        if r != read_a {
            fail(sink, &s, &format!("C20:declarations-or-shape-differ:xotify-{}", b.route), &format!("route {} reads back as {} but xotify as {}", b.route, r.wire(), read_a.wire()));
        }
        if let Some(x) = &text {
            match guarded(|| s.xot.to_string(b.node)) {
                Some(Ok(y)) if &y == x => {}
                other => fail(sink, &s, &format!("C20:serialises-differently:xotify-{}", b.route), &format!("route {} serialises as {:?}, xotify as `{}`", b.route, other.map(|r| r.ok()), x)),
            }
        }
    }
    sink.stat("oracle.checked");
}

// ---------------------------------------------------------------------------------------------
// exhaustive small scope (thorough tier)

fn small_documents() -> Vec<GTree> {
    let miscs: Vec<Vec<GTree>> = vec![
        vec![],
        vec![GTree::leaf(GValue::Comment("c".into()))],
        vec![GTree::leaf(GValue::PI(17, None)), GTree::leaf(GValue::Comment("d".into()))],
    ];
    let kinds: Vec<GTree> = vec![
        GTree::leaf(GValue::Text("x".into())),
        GTree::leaf(GValue::Comment("k".into())),
        GTree::leaf(GValue::Element(3)),
        GTree::new(GValue::Element(4), vec![GTree::leaf(GValue::Attribute(2, "v".into())), GTree::leaf(GValue::Text("y".into()))]),
    ];
    let mut contents: Vec<Vec<GTree>> = vec![vec![]];
    for a in &kinds {
        contents.push(vec![a.clone()]);
        for b in &kinds {
            contents.push(vec![a.clone(), b.clone()]);
        }
    }
    let heads: Vec<Vec<GTree>> = vec![
        vec![],
        vec![GTree::leaf(GValue::Namespace(2, NS_A))],
        vec![GTree::leaf(GValue::Attribute(3, "w".into()))],
        vec![GTree::leaf(GValue::Namespace(2, NS_A)), GTree::leaf(GValue::Attribute(6, "w".into())), GTree::leaf(GValue::Attribute(3, "".into()))],
    ];
    let mut out = vec![];
    for b in &miscs {
        for a in &miscs {
            for h in &heads {
                for c in &contents {
                    let mut kids = h.clone();
                    kids.extend(c.iter().cloned());
                    let el = GTree::new(GValue::Element(2), kids);
                    let mut dk = b.clone();
                    dk.push(el);
                    dk.extend(a.iter().cloned());
                    out.push(GTree::new(GValue::Document, dk));
                }
            }
        }
    }
    out
}

pub fn run(seed: u64, count: usize, tier: &str, sink: &mut Sink) {
    let mut rng = Rng::new(seed ^ 0xF1ED);
    if tier == "thorough" {
        for d in small_documents() {
            // with consolidation on the adjacent-text members violate the hypothesis: run them both ways
            let wf = no_adjacent_text(&d);
            one_case(&mut rng, sink, if wf { Profile::Open } else { Profile::IllFormed }, Some(d.clone()));
            one_case(&mut rng, sink, Profile::ConsOff, Some(d));
        }
    }
    for i in 0..count {
        let profile = match i % 20 {
            0..=8 => Profile::Closed,
            9..=13 => Profile::Open,
            14..=16 => Profile::ConsOff,
            _ => Profile::IllFormed,
        };
        one_case(&mut rng, sink, profile, None);
        if i % 8 == 7 {
            // mixed content with longer text nodes: text delivered in pieces, in any order
            let d = crate::suite_fanyorder::gen_mixed_doc(&mut rng);
            sink.stat("mixed-content-document");
            one_case(&mut rng, sink, Profile::Open, Some(d));
        }
    }
}
