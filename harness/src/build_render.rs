//! The renderer of the `build` suite: draws an abstract document and, in the same pass, one
//! spelling of it with every lexical choice drawn at random, tracking the byte offset of
//! everything it writes.  The abstract document is the expected parse result (C02), the offsets
//! are the expected spans (C17), and the recorded insertion points feed the fault catalogue (C03).
use crate::common::Rng;
use std::collections::BTreeSet;

pub const XML_NS: &str = "http://www.w3.org/XML/1998/namespace";

#[derive(Clone, Debug, PartialEq, Eq)]
pub struct AElem {
    pub ns: String,
    pub local: String,
    /// declarations written on this element, in order of appearance, URIs decoded
    pub decls: Vec<(String, String)>,
    /// (namespace URI, local name, normalised value), in order of appearance
    pub attrs: Vec<(String, String, String)>,
    pub kids: Vec<ANode>,
}

#[derive(Clone, Debug, PartialEq, Eq)]
pub enum ANode {
    Elem(AElem),
    Text(String),
    Comment(String),
    PI(String, Option<String>),
}

#[derive(Clone, Debug)]
pub struct ExpSpan {
    /// raw child indices from the document node (namespace nodes, attribute nodes, normal nodes)
    pub path: Vec<usize>,
    /// ES EE T C PT PC AN AV
    pub kind: &'static str,
    /// for AN / AV: index of the attribute among the element's attributes
    pub attr: usize,
    pub start: usize,
    pub end: usize,
}

#[derive(Clone, Debug)]
pub struct TagPoint {
    pub at: usize,
    pub has_xmlid: bool,
    pub depth: usize,
}

#[derive(Clone, Debug)]
pub struct RCfg {
    /// CR / CRLF line ends inside CDATA sections
    pub cdata_cr: bool,
    /// namespace URIs that need references in their spelling
    pub uri_refs: bool,
    /// more than one space around / inside xml:id values
    pub xmlid_spaces: bool,
    /// an attribute whose local name is `xmlns` (with a prefix)
    pub local_xmlns: bool,
    /// an element content / fragment item that is just `<![CDATA[]]>`
    pub lone_empty_cdata: bool,
    /// characters limited to ISO-8859-1 without C1 (for the byte-encoding cases)
    pub latin1: bool,
    /// white space around `=` inside the XML declaration
    pub decl_eq_space: bool,
    pub max_depth: usize,
}

impl RCfg {
    pub fn draw(rng: &mut Rng) -> RCfg {
        RCfg {
            cdata_cr: rng.chance(1, 3),
            uri_refs: rng.chance(1, 4),
            xmlid_spaces: rng.chance(1, 3),
            local_xmlns: rng.chance(1, 12),
            lone_empty_cdata: rng.chance(1, 12),
            latin1: false,
            decl_eq_space: true,
            max_depth: 1 + rng.below(3),
        }
    }
    pub fn plain() -> RCfg {
        RCfg { cdata_cr: false, uri_refs: false, xmlid_spaces: false, local_xmlns: false, lone_empty_cdata: false, latin1: false, decl_eq_space: true, max_depth: 2 }
    }
}

pub struct Rendered {
    pub text: String,
    pub fragment: bool,
    /// expected children of the document node
    pub top: Vec<ANode>,
    pub spans: Vec<ExpSpan>,
    pub tag_points: Vec<TagPoint>,
    /// (start, end) of every written end tag `</q>`
    pub close_tags: Vec<(usize, usize)>,
    /// offsets in character data outside CDATA, between pieces
    pub text_points: Vec<usize>,
    /// offsets inside attribute values, between pieces
    pub attr_points: Vec<usize>,
    /// offsets inside the values of namespace declarations, between pieces
    pub decl_points: Vec<usize>,
    /// offsets between top-level items
    pub top_points: Vec<usize>,
    pub has_decl: bool,
    pub feats: BTreeSet<&'static str>,
}

const ELEM_LOCALS: &[&str] = &["a", "b", "c", "d", "x", "e1", "zz", "é", "_u", "a-b.c"];
const ATTR_LOCALS: &[&str] = &["a", "b", "x", "y", "k1", "ö", "id"];
const PI_TARGETS: &[&str] = &["pi", "xml-stylesheet", "t1"];
const URIS: &[&str] = &["urn:a", "urn:b", "urn:c", "urn:n1", "urn:n2"];
const URIS_REF: &[&str] = &["urn:x&y", "h://e?a=1&b='2'", "urn:<z>\"q\""];
const PREFIXES: &[&str] = &["", "p", "q", "r", "s"];

pub fn resolve<'a>(scope: &'a [(String, String)], prefix: &str) -> Option<&'a str> {
    if let Some(d) = scope.iter().rev().find(|d| d.0 == prefix) {
        return Some(d.1.as_str());
    }
    if prefix == "xml" {
        return Some(XML_NS);
    }
    None
}

fn prefixes_for(scope: &[(String, String)], ns: &str, allow_empty: bool) -> Vec<String> {
    let mut seen: Vec<String> = vec![];
    let mut out = vec![];
    for d in scope.iter().rev() {
        if seen.contains(&d.0) {
            continue;
        }
        seen.push(d.0.clone());
        if d.1 == ns && (allow_empty || !d.0.is_empty()) {
            out.push(d.0.clone());
        }
    }
    if ns == XML_NS && !seen.iter().any(|p| p == "xml") {
        out.push("xml".to_string());
    }
    out
}

pub struct R<'a> {
    pub rng: &'a mut Rng,
    pub cfg: RCfg,
    pub out: String,
    pub spans: Vec<ExpSpan>,
    pub tag_points: Vec<TagPoint>,
    pub close_tags: Vec<(usize, usize)>,
    pub text_points: Vec<usize>,
    pub attr_points: Vec<usize>,
    pub decl_points: Vec<usize>,
    pub top_points: Vec<usize>,
    pub feats: BTreeSet<&'static str>,
    id_counter: usize,
    fresh: usize,
}

impl<'a> R<'a> {
    pub fn new(rng: &'a mut Rng, cfg: RCfg) -> Self {
        R {
            rng,
            cfg,
            out: String::new(),
            spans: vec![],
            tag_points: vec![],
            close_tags: vec![],
            text_points: vec![],
            attr_points: vec![],
            decl_points: vec![],
            top_points: vec![],
            feats: BTreeSet::new(),
            id_counter: 0,
            fresh: 0,
        }
    }

    fn feat(&mut self, f: &'static str) {
        self.feats.insert(f);
    }

    fn span(&mut self, path: &[usize], kind: &'static str, attr: usize, start: usize, end: usize) {
        self.spans.push(ExpSpan { path: path.to_vec(), kind, attr, start, end });
    }

    fn pick<'b>(&mut self, xs: &[&'b str]) -> &'b str {
        xs[self.rng.below(xs.len())]
    }

    /// optional in-tag whitespace
    fn ws0(&mut self) {
        if self.rng.chance(1, 4) {
            self.ws1();
        }
    }

    /// required in-tag whitespace
    fn ws1(&mut self) {
        let w = match self.rng.below(12) {
            0..=6 => " ",
            7 => "  ",
            8 => "\n",
            9 => "\t",
            10 => "\r\n",
            _ => "\r ",
        };
        if w != " " {
            self.feat("tag-ws");
        }
        self.out.push_str(w);
    }

    fn content_char(&mut self) -> char {
        let c = match self.rng.below(20) {
            0..=6 => *self.rng.pick(&['a', 'b', 'z', '0', 'Q', ';', '#', 'x', '=', '/']),
            7 | 8 => ' ',
            9 => *self.rng.pick(&['\n', '\n', '\t', '\r']),
            10 => *self.rng.pick(&['<', '&', '>']),
            11 => *self.rng.pick(&[']', ']', '>', '[']),
            12 => *self.rng.pick(&['\'', '"']),
            13 | 14 => *self.rng.pick(&['é', 'ß', '\u{a0}', 'ÿ', '¡']),
            15 | 16 => *self.rng.pick(&['中', '\u{1f600}', '\u{fffd}', '\u{2028}', '\u{10ffff}', '\u{d7ff}', '\u{e000}', '\u{85}']),
            _ => *self.rng.pick(&['a', ' ', '-', '?', '!']),
        };
        if self.cfg.latin1 && ((c as u32) > 0xff || (0x80..0xa0).contains(&(c as u32))) {
            'é'
        } else {
            c
        }
    }

    fn content(&mut self, min: usize, max: usize) -> String {
        let n = min + self.rng.below(max - min + 1);
        (0..n).map(|_| self.content_char()).collect()
    }

    fn numref(&mut self, c: char) -> String {
        let v = c as u32;
        let zeros = *self.rng.pick(&["", "", "", "0", "00", "00000"]);
        if self.rng.chance(1, 2) {
            self.feat("ref-dec");
            format!("&#{}{};", zeros, v)
        } else {
            self.feat("ref-hex");
            let h: String = format!("{:x}", v)
                .chars()
                .map(|d| if self.rng.chance(1, 2) { d.to_ascii_uppercase() } else { d })
                .collect();
            format!("&#x{}{};", zeros, h)
        }
    }

    /// Spelling of a line feed; `prev_bare_cr`: the previous piece was a bare CR.
    fn lf(&mut self, prev_bare_cr: &mut bool, allow_cr: bool) -> &'static str {
        if !allow_cr {
            *prev_bare_cr = false;
            return "\n";
        }
        let s = if *prev_bare_cr {
            *self.rng.pick(&["\r\n", "\r"])
        } else {
            *self.rng.pick(&["\n", "\n", "\r\n", "\r"])
        };
        if s != "\n" {
            self.feat("line-end-cr");
        }
        *prev_bare_cr = s == "\r";
        s
    }

    fn plain_piece(&mut self, c: char, prev_bare_cr: &mut bool) -> String {
        let r = match c {
            '<' => {
                if self.rng.chance(2, 3) {
                    "&lt;".to_string()
                } else {
                    self.numref(c)
                }
            }
            '&' => {
                if self.rng.chance(2, 3) {
                    "&amp;".to_string()
                } else {
                    self.numref(c)
                }
            }
            '>' => {
                let must = self.out.ends_with("]]");
                match self.rng.below(4) {
                    0 | 1 if !must => ">".to_string(),
                    2 => self.numref(c),
                    _ => "&gt;".to_string(),
                }
            }
            '\r' => self.numref(c),
            '\n' => {
                if self.rng.chance(1, 5) {
                    *prev_bare_cr = false;
                    self.numref(c)
                } else {
                    return self.lf(prev_bare_cr, true).to_string();
                }
            }
            '\'' => match self.rng.below(4) {
                0 => "&apos;".to_string(),
                1 => self.numref(c),
                _ => "'".to_string(),
            },
            '"' => match self.rng.below(4) {
                0 => "&quot;".to_string(),
                1 => self.numref(c),
                _ => "\"".to_string(),
            },
            _ => {
                if self.rng.chance(1, 6) {
                    self.numref(c)
                } else {
                    c.to_string()
                }
            }
        };
        *prev_bare_cr = false;
        if r.starts_with('&') && !r.starts_with("&#") {
            self.feat("ref-named");
        }
        r
    }

    /// Character data for `v` as a run of text and CDATA parts. Returns the expected text span:
    /// from the start of the first part's content to the end of the last part's content.
    pub fn spell_text(&mut self, v: &str) -> (usize, usize) {
        let mut in_cdata = false;
        let mut run = String::new();
        let mut first: Option<usize> = None;
        let mut last_end = 0;
        let mut prev_bare_cr = false;
        let chars: Vec<char> = v.chars().collect();
        let mut parts = 0;
        if self.rng.chance(1, 25) {
            // the run starts with an empty CDATA section
            self.out.push_str("<![CDATA[");
            first = Some(self.out.len());
            self.out.push_str("]]>");
            self.feat("cdata-empty-edge");
            parts += 1;
        }
        for (i, &c) in chars.iter().enumerate() {
            let want = if in_cdata { !self.rng.chance(1, 4) } else { self.rng.chance(1, 5) };
            let can = c != '\r' && !(c == '>' && run.ends_with("]]"));
            let next = want && can;
            if in_cdata && !next {
                self.out.push_str("]]>");
                in_cdata = false;
                prev_bare_cr = false;
            }
            if !in_cdata && !next && i > 0 && self.rng.chance(1, 25) {
                self.out.push_str("<![CDATA[]]>");
                self.feat("cdata-empty-inner");
                prev_bare_cr = false;
                parts += 1;
            }
            if !in_cdata && next {
                self.out.push_str("<![CDATA[");
                in_cdata = true;
                run.clear();
                prev_bare_cr = false;
                self.feat("cdata");
                parts += 1;
            }
            if first.is_none() {
                first = Some(self.out.len());
            }
            if in_cdata {
                if c == '\n' {
                    let allow = self.cfg.cdata_cr;
                    let s = self.lf(&mut prev_bare_cr, allow);
                    if s != "\n" {
                        self.feat("cdata-cr");
                    }
                    self.out.push_str(s);
                    run.push_str(s);
                } else {
                    prev_bare_cr = false;
                    self.out.push(c);
                    run.push(c);
                }
            } else {
                self.text_points.push(self.out.len());
                let p = self.plain_piece(c, &mut prev_bare_cr);
                self.out.push_str(&p);
            }
            last_end = self.out.len();
        }
        if in_cdata {
            self.out.push_str("]]>");
        } else if !chars.is_empty() {
            self.text_points.push(self.out.len());
        }
        if self.rng.chance(1, 25) {
            self.out.push_str("<![CDATA[");
            last_end = self.out.len();
            self.out.push_str("]]>");
            self.feat("cdata-empty-edge");
            parts += 1;
        }
        if parts > 0 {
            self.feat("text-cdata-mix");
        }
        (first.unwrap_or(last_end), last_end)
    }

    /// Attribute value spelling between quotes `q`; returns the span between the quotes.
    pub fn spell_attr_value(&mut self, v: &str, extra_space: bool) -> (usize, usize) {
        let q = if self.rng.chance(1, 2) { '"' } else { '\'' };
        self.out.push(q);
        let start = self.out.len();
        let mut prev_bare_cr = false;
        let sp = |r: &mut R, prev: &mut bool| -> String {
            // one abstract space
            match r.rng.below(10) {
                0 => {
                    *prev = false;
                    r.feat("attr-ws-tab");
                    "\t".to_string()
                }
                1 | 2 => {
                    r.feat("attr-ws-lineend");
                    if *prev {
                        // after a bare CR a bare LF would merge with it
                        *prev = false;
                        "\r\n".to_string()
                    } else {
                        let s = *r.rng.pick(&["\n", "\r", "\r\n"]);
                        *prev = s == "\r";
                        s.to_string()
                    }
                }
                3 => {
                    *prev = false;
                    r.numref(' ')
                }
                _ => {
                    *prev = false;
                    " ".to_string()
                }
            }
        };
        if extra_space {
            for _ in 0..self.rng.below(4) {
                let s = if self.rng.chance(3, 4) { " ".to_string() } else { sp(self, &mut prev_bare_cr) };
                if s.starts_with('&') {
                    // a referenced space is still a space for xml:id normalisation
                }
                self.out.push_str(&s);
            }
        }
        let chars: Vec<char> = v.chars().collect();
        for &c in &chars {
            self.attr_points.push(self.out.len());
            let piece = match c {
                ' ' => {
                    let mut s = sp(self, &mut prev_bare_cr);
                    if extra_space {
                        for _ in 0..self.rng.below(3) {
                            s.push(' ');
                            prev_bare_cr = false;
                        }
                    }
                    s
                }
                '\t' | '\n' | '\r' => {
                    prev_bare_cr = false;
                    self.feat("attr-ws-ref");
                    self.numref(c)
                }
                '<' => {
                    prev_bare_cr = false;
                    if self.rng.chance(2, 3) {
                        "&lt;".to_string()
                    } else {
                        self.numref(c)
                    }
                }
                '&' => {
                    prev_bare_cr = false;
                    if self.rng.chance(2, 3) {
                        "&amp;".to_string()
                    } else {
                        self.numref(c)
                    }
                }
                '>' => {
                    prev_bare_cr = false;
                    match self.rng.below(3) {
                        0 => "&gt;".to_string(),
                        _ => ">".to_string(),
                    }
                }
                '\'' | '"' => {
                    prev_bare_cr = false;
                    if c == q || self.rng.chance(1, 3) {
                        if self.rng.chance(1, 2) {
                            if c == '"' { "&quot;".to_string() } else { "&apos;".to_string() }
                        } else {
                            self.numref(c)
                        }
                    } else {
                        c.to_string()
                    }
                }
                _ => {
                    prev_bare_cr = false;
                    if self.rng.chance(1, 6) {
                        self.numref(c)
                    } else {
                        c.to_string()
                    }
                }
            };
            if piece.starts_with('&') && !piece.starts_with("&#") {
                self.feat("ref-named");
            }
            self.out.push_str(&piece);
        }
        self.attr_points.push(self.out.len());
        if extra_space {
            for _ in 0..self.rng.below(4) {
                self.out.push(' ');
            }
        }
        let end = self.out.len();
        self.out.push(q);
        (start, end)
    }

    fn fresh_prefix(&mut self) -> String {
        self.fresh += 1;
        format!("g{}", self.fresh)
    }

    fn pick_uri(&mut self) -> String {
        if self.cfg.uri_refs && self.rng.chance(1, 2) {
            self.feat("uri-needs-refs");
            self.pick(URIS_REF).to_string()
        } else {
            self.pick(URIS).to_string()
        }
    }

    pub fn gen_elem(&mut self, scope: &[(String, String)], depth: usize, path: &[usize]) -> AElem {
        let ns = if self.rng.chance(2, 5) { String::new() } else { self.pick_uri() };
        let local = self.pick(ELEM_LOCALS).to_string();
        let mut decls: Vec<(String, String)> = vec![];
        for _ in 0..*self.rng.pick(&[0usize, 0, 0, 1, 1, 2]) {
            let p = self.pick(PREFIXES).to_string();
            if decls.iter().any(|d| d.0 == p) {
                continue;
            }
            let uri = if p.is_empty() && self.rng.chance(1, 3) { String::new() } else { self.pick_uri() };
            decls.push((p, uri));
        }
        let mut attrs: Vec<(String, String, String)> = vec![];
        let mut has_xmlid = false;
        for _ in 0..*self.rng.pick(&[0usize, 0, 1, 1, 2, 3]) {
            let (ans, aloc) = match self.rng.below(12) {
                0..=5 => (String::new(), self.pick(ATTR_LOCALS).to_string()),
                6..=8 => (self.pick_uri(), self.pick(ATTR_LOCALS).to_string()),
                9 => (XML_NS.to_string(), self.pick(&["lang", "space"]).to_string()),
                10 => (XML_NS.to_string(), "id".to_string()),
                _ => {
                    if self.cfg.local_xmlns {
                        self.feat("attr-local-xmlns");
                        (self.pick_uri(), "xmlns".to_string())
                    } else {
                        (String::new(), "y".to_string())
                    }
                }
            };
            if attrs.iter().any(|a| a.0 == ans && a.1 == aloc) {
                continue;
            }
            let value = if ans == XML_NS && aloc == "id" {
                has_xmlid = true;
                self.id_counter += 1;
                self.feat("xml-id");
                if self.rng.chance(1, 4) {
                    format!("i{} x", self.id_counter)
                } else {
                    format!("i{}", self.id_counter)
                }
            } else if ans == XML_NS && aloc == "space" {
                self.pick(&["preserve", "default"]).to_string()
            } else {
                self.content(0, 6)
            };
            attrs.push((ans, aloc, value));
        }
        // make every name reachable under the final set of declarations
        let mut scope2: Vec<(String, String)> = scope.to_vec();
        scope2.extend(decls.iter().cloned());
        if ns.is_empty() {
            if let Some(u) = resolve(&scope2, "") {
                if !u.is_empty() {
                    if let Some(d) = decls.iter_mut().find(|d| d.0.is_empty()) {
                        d.1 = String::new();
                    } else {
                        decls.push((String::new(), String::new()));
                    }
                    self.feat("xmlns-empty");
                }
            }
        } else if prefixes_for(&scope2, &ns, true).is_empty() {
            if !decls.iter().any(|d| d.0.is_empty()) && self.rng.chance(1, 3) {
                decls.push((String::new(), ns.clone()));
            } else {
                let p = self.fresh_prefix();
                decls.push((p, ns.clone()));
            }
        }
        let mut scope2: Vec<(String, String)> = scope.to_vec();
        scope2.extend(decls.iter().cloned());
        for a in &attrs {
            if !a.0.is_empty() && prefixes_for(&scope2, &a.0, false).is_empty() {
                let p = self.fresh_prefix();
                decls.push((p.clone(), a.0.clone()));
                scope2.push((p, a.0.clone()));
            }
        }
        if decls.iter().any(|d| scope.iter().any(|o| o.0 == d.0 && o.1 != d.1)) {
            self.feat("prefix-shadowing");
        }
        // start tag
        let qname = |r: &mut R, ns: &str, local: &str, is_attr: bool, scope2: &[(String, String)]| -> String {
            if ns.is_empty() {
                return local.to_string();
            }
            let ps = prefixes_for(scope2, ns, !is_attr);
            let p = &ps[r.rng.below(ps.len())];
            if ps.len() > 1 {
                r.feat("prefix-choice");
            }
            if p.is_empty() {
                local.to_string()
            } else {
                format!("{}:{}", p, local)
            }
        };
        let q = qname(self, &ns, &local, false, &scope2);
        self.out.push('<');
        let s = self.out.len();
        self.out.push_str(&q);
        let e = self.out.len();
        self.span(path, "ES", 0, s, e);
        self.tag_points.push(TagPoint { at: e, has_xmlid, depth });
        // interleave declarations and attributes, each kind in its own order
        let nd = decls.len();
        let (mut di, mut ai) = (0, 0);
        while di < decls.len() || ai < attrs.len() {
            let take_decl = if di >= decls.len() {
                false
            } else if ai >= attrs.len() {
                true
            } else {
                self.rng.chance(1, 2)
            };
            self.ws1();
            if take_decl {
                if ai > 0 {
                    self.feat("decl-after-use");
                }
                let (p, uri) = decls[di].clone();
                if p.is_empty() {
                    self.out.push_str("xmlns");
                } else {
                    self.out.push_str("xmlns:");
                    self.out.push_str(&p);
                }
                self.ws0();
                self.out.push('=');
                self.ws0();
                let keep = self.attr_points.len();
                self.spell_attr_value(&uri, false);
                let moved: Vec<usize> = self.attr_points.drain(keep..).collect();
                self.decl_points.extend(moved);
                di += 1;
            } else {
                let (ans, aloc, value) = attrs[ai].clone();
                let an = qname(self, &ans, &aloc, true, &scope2);
                let s = self.out.len();
                self.out.push_str(&an);
                let e = self.out.len();
                let mut apath = path.to_vec();
                apath.push(nd + ai);
                self.span(path, "AN", ai, s, e);
                self.ws0();
                self.out.push('=');
                self.ws0();
                let is_id = ans == XML_NS && aloc == "id";
                let extra = is_id && (self.cfg.xmlid_spaces || self.rng.chance(1, 3));
                if extra && self.cfg.xmlid_spaces {
                    self.feat("xml-id-many-spaces");
                }
                let (vs, ve) = if is_id && !self.cfg.xmlid_spaces {
                    // at most one space at either end, single spaces inside
                    let lead = self.rng.chance(1, 3);
                    let trail = self.rng.chance(1, 3);
                    let quote = if self.rng.chance(1, 2) { '"' } else { '\'' };
                    self.out.push(quote);
                    let vs = self.out.len();
                    if lead {
                        self.out.push(' ');
                    }
                    self.out.push_str(&value);
                    if trail {
                        self.out.push(' ');
                    }
                    let ve = self.out.len();
                    self.out.push(quote);
                    (vs, ve)
                } else {
                    let keep = self.attr_points.len();
                    let r = self.spell_attr_value(&value, extra);
                    if aloc == "xmlns" {
                        let moved: Vec<usize> = self.attr_points.drain(keep..).collect();
                        self.decl_points.extend(moved);
                    }
                    r
                };
                self.span(path, "AV", ai, vs, ve);
                ai += 1;
            }
        }
        self.ws0();
        let base = nd + attrs.len();
        let mut kids = vec![];
        let open_end;
        if depth < self.cfg.max_depth && self.rng.chance(3, 4) {
            self.out.push('>');
            open_end = true;
            kids = self.gen_content(&scope2, depth + 1, path, base, 4);
        } else if self.rng.chance(1, 2) {
            self.out.push('>');
            open_end = true;
        } else {
            let s = self.out.len();
            self.out.push_str("/>");
            self.span(path, "EE", 0, s, s + 2);
            open_end = false;
            self.feat("empty-element-tag");
        }
        if open_end {
            let s = self.out.len();
            self.out.push_str("</");
            self.out.push_str(&q);
            self.ws0();
            self.out.push('>');
            let e = self.out.len();
            self.span(path, "EE", 0, s, e);
            self.close_tags.push((s, e));
        }
        AElem { ns, local, decls, attrs, kids }
    }

    fn gen_comment(&mut self, path: &[usize]) -> ANode {
        let n = self.rng.below(6);
        let mut body = String::new();
        for _ in 0..n {
            let c = self.content_char();
            if c == '-' || c == '\r' {
                continue;
            }
            body.push(c);
        }
        self.out.push_str("<!--");
        let s = self.out.len();
        self.out.push_str(&body);
        let e = self.out.len();
        self.out.push_str("-->");
        self.span(path, "C", 0, s, e);
        ANode::Comment(body)
    }

    fn gen_pi(&mut self, path: &[usize]) -> ANode {
        let target = self.pick(PI_TARGETS).to_string();
        self.out.push_str("<?");
        let s = self.out.len();
        self.out.push_str(&target);
        let e = self.out.len();
        self.span(path, "PT", 0, s, e);
        let data = if self.rng.chance(1, 3) {
            if self.rng.chance(1, 2) {
                self.out.push(' ');
            }
            None
        } else {
            self.ws1();
            let mut d = String::new();
            for i in 0..1 + self.rng.below(6) {
                let c = self.content_char();
                if c == '\r' || (c == '>' && d.ends_with('?')) || (i == 0 && c.is_whitespace()) || (i == 0 && matches!(c, ' ' | '\t' | '\n')) {
                    d.push('d');
                } else {
                    d.push(c);
                }
            }
            if d.ends_with('?') {
                d.push('.');
            }
            let s = self.out.len();
            self.out.push_str(&d);
            let e = self.out.len();
            self.span(path, "PC", 0, s, e);
            Some(d)
        };
        self.out.push_str("?>");
        ANode::PI(target, data)
    }

    /// A list of normal children written at the current position; `base` = number of namespace
    /// and attribute nodes in front of them.
    pub fn gen_content(&mut self, scope: &[(String, String)], depth: usize, parent: &[usize], base: usize, max: usize) -> Vec<ANode> {
        let n = self.rng.below(max + 1);
        let mut kids: Vec<ANode> = vec![];
        let mut last_text = false;
        if depth == 1 {
            self.top_points.push(self.out.len());
        }
        for _ in 0..n {
            let mut path = parent.to_vec();
            path.push(base + kids.len());
            let k = self.rng.below(20);
            if k < 9 {
                let e = self.gen_elem(scope, depth, &path);
                kids.push(ANode::Elem(e));
                last_text = false;
            } else if k < 15 {
                if last_text {
                    continue;
                }
                let v = self.content(1, 8);
                let (s, e) = self.spell_text(&v);
                self.span(&path, "T", 0, s, e);
                kids.push(ANode::Text(v));
                last_text = true;
            } else if k < 17 {
                kids.push(self.gen_comment(&path));
                last_text = false;
            } else if k < 19 {
                kids.push(self.gen_pi(&path));
                last_text = false;
            } else if self.cfg.lone_empty_cdata && !last_text {
                // denotes no character data at all
                self.out.push_str("<![CDATA[]]>");
                self.feat("lone-empty-cdata");
                // keep it lone: the next item must not be text
                let c = self.gen_comment(&{
                    let mut p = parent.to_vec();
                    p.push(base + kids.len());
                    p
                });
                kids.push(c);
                last_text = false;
            }
            if depth == 1 {
                self.top_points.push(self.out.len());
            }
        }
        kids
    }

    pub fn finish(self, fragment: bool, top: Vec<ANode>, has_decl: bool) -> Rendered {
        Rendered {
            text: self.out,
            fragment,
            top,
            spans: self.spans,
            tag_points: self.tag_points,
            close_tags: self.close_tags,
            text_points: self.text_points,
            attr_points: self.attr_points,
            decl_points: self.decl_points,
            top_points: self.top_points,
            has_decl,
            feats: self.feats,
        }
    }
}

/// A fragment: any content at top level.
pub fn render_fragment(rng: &mut Rng, cfg: RCfg) -> Rendered {
    let mut r = R::new(rng, cfg);
    let top = r.gen_content(&[], 1, &[], 0, 4);
    r.finish(true, top, false)
}

/// A document: optional BOM and XML declaration, comments / PIs / white space around one element.
pub fn render_document(rng: &mut Rng, cfg: RCfg, encoding_label: Option<&str>) -> Rendered {
    let mut r = R::new(rng, cfg);
    let mut has_decl = false;
    if encoding_label.is_none() && r.rng.chance(1, 8) {
        r.out.push('\u{feff}');
        r.feat("bom");
    }
    if encoding_label.is_some() || r.rng.chance(1, 3) {
        has_decl = true;
        r.feat("xml-decl");
        let q = if r.rng.chance(1, 2) { '"' } else { '\'' };
        let eqs = r.cfg.decl_eq_space;
        r.out.push_str("<?xml version");
        if eqs {
            r.ws0();
        }
        r.out.push('=');
        if eqs {
            r.ws0();
        }
        r.out.push(q);
        r.out.push_str("1.0");
        r.out.push(q);
        let enc = match encoding_label {
            Some(l) => Some(l.to_string()),
            None => {
                if r.rng.chance(1, 2) {
                    Some(r.pick(&["UTF-8", "utf-8"]).to_string())
                } else {
                    None
                }
            }
        };
        if let Some(l) = enc {
            r.ws1();
            r.out.push_str("encoding");
            if eqs {
                r.ws0();
            }
            r.out.push('=');
            if eqs {
                r.ws0();
            }
            r.out.push(q);
            r.out.push_str(&l);
            r.out.push(q);
        }
        if r.rng.chance(1, 3) {
            r.ws1();
            r.out.push_str("standalone=");
            r.out.push(q);
            let v = r.pick(&["yes", "no"]);
            r.out.push_str(v);
            r.out.push(q);
        }
        r.ws0();
        r.out.push_str("?>");
    }
    let mut top: Vec<ANode> = vec![];
    let misc = |r: &mut R, top: &mut Vec<ANode>| {
        for _ in 0..*r.rng.pick(&[0usize, 0, 1, 2]) {
            if r.rng.chance(1, 2) {
                let w = r.pick(&[" ", "\n", "\r\n", "\t", "\n\n  "]);
                r.out.push_str(w);
            }
            r.top_points.push(r.out.len());
            let path = vec![top.len()];
            let n = if r.rng.chance(1, 2) { r.gen_comment(&path) } else { r.gen_pi(&path) };
            top.push(n);
        }
        if r.rng.chance(1, 3) {
            let w = r.pick(&[" ", "\n", "\r\n", "\t"]);
            r.out.push_str(w);
        }
        r.top_points.push(r.out.len());
    };
    misc(&mut r, &mut top);
    let path = vec![top.len()];
    let e = r.gen_elem(&[], 1, &path);
    top.push(ANode::Elem(e));
    r.top_points.push(r.out.len());
    misc(&mut r, &mut top);
    r.finish(false, top, has_decl)
}
