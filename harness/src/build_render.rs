//! The renderer of the `build` suite: draws an abstract document and, in the same pass, one
//! spelling of it with every lexical choice drawn at random, tracking the byte offset of
//! everything it writes.  The abstract document is the expected parse result (C02), the offsets
//! are the expected spans (C17), and the recorded insertion points feed the fault catalogue (C03).
use crate::common::Rng;
use std::collections::BTreeSet;

pub const XML_NS: &str = "http://www.w3.org/XML/1998/namespace";

#[derive(Clone, Debug, PartialEq, Eq)]
pub struct AElem {
    pub ns: String,
    pub local: String,
    /// declarations written on this element, in order of appearance, URIs decoded
    pub decls: Vec<(String, String)>,
    /// (namespace URI, local name, normalised value), in order of appearance
    pub attrs: Vec<(String, String, String)>,
    pub kids: Vec<ANode>,
}

#[derive(Clone, Debug, PartialEq, Eq)]
pub enum ANode {
    Elem(AElem),
    Text(String),
    Comment(String),
    PI(String, Option<String>),
}

#[derive(Clone, Debug)]
pub struct ExpSpan {
    /// raw child indices from the document node (namespace nodes, attribute nodes, normal nodes)
    pub path: Vec<usize>,
    /// ES EE T C PT PC AN AV
    pub kind: &'static str,
    /// for AN / AV: index of the attribute among the element's attributes
    pub attr: usize,
    pub start: usize,
    pub end: usize,
}

#[derive(Clone, Debug)]
pub struct TagPoint {
    pub at: usize,
    pub has_xmlid: bool,
    pub depth: usize,
}

#[derive(Clone, Debug)]
pub struct RCfg {
    /// CR / CRLF line ends inside CDATA sections
    pub cdata_cr: bool,
    /// namespace URIs that need references in their spelling
    pub uri_refs: bool,
    /// more than one space around / inside xml:id values
    pub xmlid_spaces: bool,
    /// an attribute whose local name is `xmlns` (with a prefix)
    pub local_xmlns: bool,
    /// an element content / fragment item that is just `<![CDATA[]]>`
    pub lone_empty_cdata: bool,
    /// characters limited to ISO-8859-1 without C1 (for the byte-encoding cases)
    pub latin1: bool,
    /// white space around `=` inside the XML declaration
    pub decl_eq_space: bool,
    /// elements declare two prefixes (or the default namespace and a prefix) for ONE namespace, so
    /// that different elements spell the same namespace differently (every end tag repeats its
    /// own start tag)
    pub twin_prefixes: bool,
    /// many `xml:id` / `xml:lang` attributes and the legal redundant declaration
    /// `xmlns:xml="http://www.w3.org/XML/1998/namespace"` (another prefix cannot be bound to the XML
    /// namespace: rejected since /repo 6153ddf, see `reserved`)
    pub xml_alias: bool,
    /// line feeds inside comments and PI data are spelled LF / CR / CR LF (the value is normalised)
    pub comment_pi_cr: bool,
    /// the text is NOT namespace-well-formed: a reserved declaration (`xmlns:xmlns=…`, another prefix
    /// than `xml` or the default namespace bound to the XML namespace name, anything bound to the
    /// xmlns namespace name), a prefixed undeclaration (`xmlns:p=""`) or a PI with the target `xml`
    /// in some letter case is planted: `Rendered::planted` names the first one, the parser has to
    /// reject there (InvalidNamespaceDeclaration / InvalidTarget)
    pub reserved: bool,
    /// the prefix `xml` is bound to another namespace name (`xmlns:xml="urn:zzz"`, `xmlns:xml=""`):
    /// forbidden by Namespaces in XML, accepted by xot (C03:xml-prefix-rebound-accepted)
    pub xml_rebind: bool,
    /// few prefixes, few namespaces, many prefixed names: the same prefix is bound, re-bound below and used
    /// again after the inner scope has closed (a cached resolution must not survive the scope: seeds C02g, C08g)
    pub shadowing: bool,
    pub max_depth: usize,
}

impl RCfg {
    pub fn draw(rng: &mut Rng) -> RCfg {
        RCfg {
            cdata_cr: rng.chance(1, 3),
            uri_refs: rng.chance(1, 4),
            xmlid_spaces: rng.chance(1, 3),
            local_xmlns: rng.chance(1, 12),
            lone_empty_cdata: rng.chance(1, 12),
            latin1: false,
            decl_eq_space: true,
            twin_prefixes: rng.chance(2, 5),
            xml_alias: rng.chance(1, 3),
            comment_pi_cr: rng.chance(1, 2),
            reserved: rng.chance(1, 6),
            xml_rebind: rng.chance(1, 10),
            shadowing: rng.chance(1, 4),
            max_depth: 1 + rng.below(3),
        }
    }
    pub fn plain() -> RCfg {
        RCfg { cdata_cr: false, uri_refs: false, xmlid_spaces: false, local_xmlns: false, lone_empty_cdata: false, latin1: false, decl_eq_space: true, twin_prefixes: false, xml_alias: false, comment_pi_cr: false, reserved: false, xml_rebind: false, shadowing: false, max_depth: 2 }
    }
}

pub struct Rendered {
    pub text: String,
    pub fragment: bool,
    /// expected children of the document node
    pub top: Vec<ANode>,
    pub spans: Vec<ExpSpan>,
    pub tag_points: Vec<TagPoint>,
    /// (start, end) of every written end tag `</q>`
    pub close_tags: Vec<(usize, usize)>,
    /// (start, end, other spelling) of end tags whose element name has another spelling in scope:
    /// the same expanded name through another prefix (or the default namespace)
    pub close_alts: Vec<(usize, usize, String)>,
    /// offsets in character data outside CDATA, between pieces
    pub text_points: Vec<usize>,
    /// offsets inside attribute values, between pieces
    pub attr_points: Vec<usize>,
    /// offsets inside the values of namespace declarations, between pieces
    pub decl_points: Vec<usize>,
    /// offsets between top-level items
    pub top_points: Vec<usize>,
    pub has_decl: bool,
    /// fault name of the first planted ill-formed construct (`RCfg::reserved`), in text order
    pub planted: Option<&'static str>,
    pub feats: BTreeSet<&'static str>,
}

pub(crate) const ELEM_LOCALS: &[&str] = &["a", "b", "c", "d", "x", "e1", "zz", "é", "_u", "a-b.c"];
pub(crate) const ATTR_LOCALS: &[&str] = &["a", "b", "x", "y", "k1", "ö", "id"];
pub(crate) const PI_TARGETS: &[&str] = &["pi", "xml-stylesheet", "t1"];
pub(crate) const URIS: &[&str] = &["urn:a", "urn:b", "urn:c", "urn:n1", "urn:n2"];
pub(crate) const URIS_REF: &[&str] = &["urn:x&y", "h://e?a=1&b='2'", "urn:<z>\"q\""];
// non-ASCII prefixes: a prefixed name's span starts at the prefix, whose byte length is not its
// character count (seed C17f); both are in the single-byte repertoire
pub(crate) const PREFIXES: &[&str] = &["", "p", "q", "r", "s", "dé", "öß"];

pub fn resolve<'a>(scope: &'a [(String, String)], prefix: &str) -> Option<&'a str> {
    if let Some(d) = scope.iter().rev().find(|d| d.0 == prefix) {
        return Some(d.1.as_str());
    }
    if prefix == "xml" {
        return Some(XML_NS);
    }
    None
}

pub(crate) fn prefixes_for(scope: &[(String, String)], ns: &str, allow_empty: bool) -> Vec<String> {
    let mut seen: Vec<String> = vec![];
    let mut out = vec![];
    for d in scope.iter().rev() {
        if seen.contains(&d.0) {
            continue;
        }
        seen.push(d.0.clone());
        if d.1 == ns && (allow_empty || !d.0.is_empty()) {
            out.push(d.0.clone());
        }
    }
    if ns == XML_NS && !seen.iter().any(|p| p == "xml") {
        out.push("xml".to_string());
    }
    out
}

pub struct R<'a> {
    pub rng: &'a mut Rng,
    pub cfg: RCfg,
    pub out: String,
    pub spans: Vec<ExpSpan>,
    pub tag_points: Vec<TagPoint>,
    pub close_tags: Vec<(usize, usize)>,
    pub close_alts: Vec<(usize, usize, String)>,
    pub text_points: Vec<usize>,
    pub attr_points: Vec<usize>,
    pub decl_points: Vec<usize>,
    pub top_points: Vec<usize>,
    pub feats: BTreeSet<&'static str>,
    pub planted: Option<&'static str>,
    pub(crate) id_counter: usize,
    pub(crate) fresh: usize,
}

impl<'a> R<'a> {
    pub fn new(rng: &'a mut Rng, cfg: RCfg) -> Self {
        R {
            rng,
            cfg,
            out: String::new(),
            spans: vec![],
            tag_points: vec![],
            close_tags: vec![],
            close_alts: vec![],
            text_points: vec![],
            attr_points: vec![],
            decl_points: vec![],
            top_points: vec![],
            feats: BTreeSet::new(),
            planted: None,
            id_counter: 0,
            fresh: 0,
        }
    }

    pub(crate) fn feat(&mut self, f: &'static str) {
        self.feats.insert(f);
    }

    pub(crate) fn plant(&mut self, fault: &'static str) {
        if self.planted.is_none() {
            self.planted = Some(fault);
        }
    }

    pub(crate) fn span(&mut self, path: &[usize], kind: &'static str, attr: usize, start: usize, end: usize) {
        self.spans.push(ExpSpan { path: path.to_vec(), kind, attr, start, end });
    }

    pub(crate) fn pick<'b>(&mut self, xs: &[&'b str]) -> &'b str {
        xs[self.rng.below(xs.len())]
    }

    /// optional in-tag whitespace
    pub(crate) fn ws0(&mut self) {
        if self.rng.chance(1, 4) {
            self.ws1();
        }
    }

    /// required in-tag whitespace
    pub(crate) fn ws1(&mut self) {
        let w = match self.rng.below(12) {
            0..=6 => " ",
            7 => "  ",
            8 => "\n",
            9 => "\t",
            10 => "\r\n",
            _ => "\r ",
        };
        if w != " " {
            self.feat("tag-ws");
        }
        self.out.push_str(w);
    }

    pub(crate) fn content_char(&mut self) -> char {
        // documents of the line-end profile are full of line feeds (spelled LF / CR / CRLF, also
        // inside CDATA sections that follow other character data)
        if self.cfg.cdata_cr && self.rng.chance(1, 5) {
            return '\n';
        }
        let c = match self.rng.below(20) {
            0..=6 => *self.rng.pick(&['a', 'b', 'z', '0', 'Q', ';', '#', 'x', '=', '/']),
            7 | 8 => ' ',
            9 => *self.rng.pick(&['\n', '\n', '\t', '\r']),
            10 => *self.rng.pick(&['<', '&', '>']),
            11 => *self.rng.pick(&[']', ']', '>', '[']),
            12 => *self.rng.pick(&['\'', '"']),
            13 | 14 => *self.rng.pick(&['é', 'ß', '\u{a0}', 'ÿ', '¡']),
            15 | 16 => *self.rng.pick(&['中', '\u{1f600}', '\u{fffd}', '\u{2028}', '\u{10ffff}', '\u{d7ff}', '\u{e000}', '\u{85}']),
            _ => *self.rng.pick(&['a', ' ', '-', '?', '!']),
        };
        if self.cfg.latin1 && ((c as u32) > 0xff || (0x80..0xa0).contains(&(c as u32))) {
            'é'
        } else {
            c
        }
    }

    pub(crate) fn content(&mut self, min: usize, max: usize) -> String {
        let n = min + self.rng.below(max - min + 1);
        (0..n).map(|_| self.content_char()).collect()
    }

    pub(crate) fn numref(&mut self, c: char) -> String {
        let v = c as u32;
        let zeros = *self.rng.pick(&["", "", "", "0", "00", "00000"]);
        if self.rng.chance(1, 2) {
            self.feat("ref-dec");
            format!("&#{}{};", zeros, v)
        } else {
            self.feat("ref-hex");
            let h: String = format!("{:x}", v)
                .chars()
                .map(|d| if self.rng.chance(1, 2) { d.to_ascii_uppercase() } else { d })
                .collect();
            format!("&#x{}{};", zeros, h)
        }
    }

    /// Spelling of a line feed; `prev_bare_cr`: the previous piece was a bare CR.
    pub(crate) fn lf(&mut self, prev_bare_cr: &mut bool, allow_cr: bool) -> &'static str {
        if !allow_cr {
            *prev_bare_cr = false;
            return "\n";
        }
        let s = if *prev_bare_cr {
            *self.rng.pick(&["\r\n", "\r"])
        } else {
            *self.rng.pick(&["\n", "\n", "\r\n", "\r"])
        };
        if s != "\n" {
            self.feat("line-end-cr");
        }
        *prev_bare_cr = s == "\r";
        s
    }

    fn plain_piece(&mut self, c: char, prev_bare_cr: &mut bool) -> String {
        let r = match c {
            '<' => {
                if self.rng.chance(2, 3) {
                    "&lt;".to_string()
                } else {
                    self.numref(c)
                }
            }
            '&' => {
                if self.rng.chance(2, 3) {
                    "&amp;".to_string()
                } else {
                    self.numref(c)
                }
            }
            '>' => {
                let must = self.out.ends_with("]]");
                match self.rng.below(4) {
                    0 | 1 if !must => ">".to_string(),
                    2 => self.numref(c),
                    _ => "&gt;".to_string(),
                }
            }
            '\r' => self.numref(c),
            '\n' => {
                if self.rng.chance(1, 5) {
                    *prev_bare_cr = false;
                    self.numref(c)
                } else {
                    return self.lf(prev_bare_cr, true).to_string();
                }
            }
            '\'' => match self.rng.below(4) {
                0 => "&apos;".to_string(),
                1 => self.numref(c),
                _ => "'".to_string(),
            },
            '"' => match self.rng.below(4) {
                0 => "&quot;".to_string(),
                1 => self.numref(c),
                _ => "\"".to_string(),
            },
            _ => {
                if self.rng.chance(1, 6) {
                    self.numref(c)
                } else {
                    c.to_string()
                }
            }
        };
        *prev_bare_cr = false;
        if r.starts_with('&') && !r.starts_with("&#") {
            self.feat("ref-named");
        }
        r
    }

    /// Character data for `v` as a run of text and CDATA parts. Returns the expected text span:
    /// from the start of the first part's content to the end of the last part's content.
    pub fn spell_text(&mut self, v: &str) -> (usize, usize) {
        let mut in_cdata = false;
        let mut run = String::new();
        let mut first: Option<usize> = None;
        let mut last_end = 0;
        let mut prev_bare_cr = false;
        let chars: Vec<char> = v.chars().collect();
        let mut parts = 0;
        if self.rng.chance(1, 25) {
            // the run starts with an empty CDATA section: it contributes nothing and is not a part
            self.out.push_str("<![CDATA[]]>");
            self.feat("cdata-empty-edge");
            parts += 1;
        }
        for (i, &c) in chars.iter().enumerate() {
            let want = if in_cdata { !self.rng.chance(1, 4) } else { self.rng.chance(1, 5) };
            let can = c != '\r' && !(c == '>' && run.ends_with("]]"));
            let next = want && can;
            if in_cdata && !next {
                self.out.push_str("]]>");
                in_cdata = false;
                prev_bare_cr = false;
            }
            if !in_cdata && !next && i > 0 && self.rng.chance(1, 25) {
                self.out.push_str("<![CDATA[]]>");
                self.feat("cdata-empty-inner");
                prev_bare_cr = false;
                parts += 1;
            }
            if !in_cdata && next {
                self.out.push_str("<![CDATA[");
                in_cdata = true;
                run.clear();
                prev_bare_cr = false;
                self.feat("cdata");
                parts += 1;
            }
            if first.is_none() {
                first = Some(self.out.len());
            }
            if in_cdata {
                if c == '\n' {
                    let allow = self.cfg.cdata_cr;
                    let s = self.lf(&mut prev_bare_cr, allow);
                    if s != "\n" {
                        self.feat("cdata-cr");
                    }
                    self.out.push_str(s);
                    run.push_str(s);
                } else {
                    prev_bare_cr = false;
                    self.out.push(c);
                    run.push(c);
                }
            } else {
                self.text_points.push(self.out.len());
                let p = self.plain_piece(c, &mut prev_bare_cr);
                self.out.push_str(&p);
            }
            last_end = self.out.len();
        }
        if in_cdata {
            self.out.push_str("]]>");
        } else if !chars.is_empty() {
            self.text_points.push(self.out.len());
        }
        if self.rng.chance(1, 25) {
            self.out.push_str("<![CDATA[]]>");
            self.feat("cdata-empty-edge");
            parts += 1;
        }
        if parts > 0 {
            self.feat("text-cdata-mix");
        }
        (first.unwrap_or(last_end), last_end)
    }

    /// Attribute value spelling between quotes `q`; returns the span between the quotes.
    pub fn spell_attr_value(&mut self, v: &str, extra_space: bool) -> (usize, usize) {
        let q = if self.rng.chance(1, 2) { '"' } else { '\'' };
        self.out.push(q);
        let start = self.out.len();
        let mut prev_bare_cr = false;
        let sp = |r: &mut R, prev: &mut bool| -> String {
            // one abstract space
            match r.rng.below(10) {
                0 => {
                    *prev = false;
                    r.feat("attr-ws-tab");
                    "\t".to_string()
                }
                1 | 2 => {
                    r.feat("attr-ws-lineend");
                    if *prev {
                        // after a bare CR a bare LF would merge with it
                        *prev = false;
                        "\r\n".to_string()
                    } else {
                        let s = *r.rng.pick(&["\n", "\r", "\r\n"]);
                        *prev = s == "\r";
                        s.to_string()
                    }
                }
                3 => {
                    *prev = false;
                    r.numref(' ')
                }
                _ => {
                    *prev = false;
                    " ".to_string()
                }
            }
        };
        if extra_space {
            for _ in 0..self.rng.below(4) {
                let s = if self.rng.chance(3, 4) { " ".to_string() } else { sp(self, &mut prev_bare_cr) };
                if s.starts_with('&') {
                    // a referenced space is still a space for xml:id normalisation
                }
                self.out.push_str(&s);
            }
        }
        let chars: Vec<char> = v.chars().collect();
        for &c in &chars {
            self.attr_points.push(self.out.len());
            let piece = match c {
                ' ' => {
                    let mut s = sp(self, &mut prev_bare_cr);
                    if extra_space {
                        for _ in 0..self.rng.below(3) {
                            s.push(' ');
                            prev_bare_cr = false;
                        }
                    }
                    s
                }
                '\t' | '\n' | '\r' => {
                    prev_bare_cr = false;
                    self.feat("attr-ws-ref");
                    self.numref(c)
                }
                '<' => {
                    prev_bare_cr = false;
                    if self.rng.chance(2, 3) {
                        "&lt;".to_string()
                    } else {
                        self.numref(c)
                    }
                }
                '&' => {
                    prev_bare_cr = false;
                    if self.rng.chance(2, 3) {
                        "&amp;".to_string()
                    } else {
                        self.numref(c)
                    }
                }
                '>' => {
                    prev_bare_cr = false;
                    match self.rng.below(3) {
                        0 => "&gt;".to_string(),
                        _ => ">".to_string(),
                    }
                }
                '\'' | '"' => {
                    prev_bare_cr = false;
                    if c == q || self.rng.chance(1, 3) {
                        if self.rng.chance(1, 2) {
                            if c == '"' { "&quot;".to_string() } else { "&apos;".to_string() }
                        } else {
                            self.numref(c)
                        }
                    } else {
                        c.to_string()
                    }
                }
                _ => {
                    prev_bare_cr = false;
                    if self.rng.chance(1, 6) {
                        self.numref(c)
                    } else {
                        c.to_string()
                    }
                }
            };
            if piece.starts_with('&') && !piece.starts_with("&#") {
                self.feat("ref-named");
            }
            self.out.push_str(&piece);
        }
        self.attr_points.push(self.out.len());
        if extra_space {
            for _ in 0..self.rng.below(4) {
                self.out.push(' ');
            }
        }
        let end = self.out.len();
        self.out.push(q);
        (start, end)
    }

}
