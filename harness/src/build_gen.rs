//! Document generation of the `build` suite renderer: elements with their declarations and
//! attributes, comments, PIs, content lists, whole documents and fragments (the spelling of
//! character data and attribute values is in build_render.rs).
use crate::build_render::*;
use crate::common::Rng;

/// (declaration as written, fault name): what `DocumentBuilder::prefix` has to reject.
const PLANTED_DECLS: &[(&str, &str)] = &[
    ("xmlns:p=''", "prefixed-undeclaration"),
    ("xmlns:q=\"\"", "prefixed-undeclaration"),
    ("xmlns:zr=''", "prefixed-undeclaration"),
    ("xmlns:xmlns='urn:a'", "reserved-prefix-or-namespace-rebound"),
    ("xmlns:xmlns=''", "reserved-prefix-or-namespace-rebound"),
    ("xmlns:xa='http://www.w3.org/XML/1998/namespace'", "reserved-prefix-or-namespace-rebound"),
    ("xmlns:p=\"http://www.w3.org/XML/1998/namespace\"", "reserved-prefix-or-namespace-rebound"),
    ("xmlns='http://www.w3.org/XML/1998/namespace'", "reserved-prefix-or-namespace-rebound"),
    ("xmlns:q='http://www.w3.org/2000/xmlns/'", "reserved-prefix-or-namespace-rebound"),
    ("xmlns='http://www.w3.org/2000/xmlns/'", "reserved-prefix-or-namespace-rebound"),
    ("xmlns:xml='http://www.w3.org/2000/xmlns/'", "reserved-prefix-or-namespace-rebound"),
    ("xmlns:zr='http://www.w3.org/2000/xmlns&#x2F;'", "reserved-prefix-or-namespace-rebound"),
    ("xmlns:zr='&#104;ttp://www.w3.org/XML/1998/namespace'", "reserved-prefix-or-namespace-rebound"),
];

impl<'a> R<'a> {
    fn fresh_prefix(&mut self) -> String {
        self.fresh += 1;
        format!("g{}", self.fresh)
    }

    fn pick_uri(&mut self) -> String {
        if self.cfg.shadowing {
            return self.pick(&["urn:a", "urn:b"]).to_string();
        }
        if self.cfg.uri_refs && self.rng.chance(1, 2) {
            self.feat("uri-needs-refs");
            self.pick(URIS_REF).to_string()
        } else {
            self.pick(URIS).to_string()
        }
    }

    pub fn gen_elem(&mut self, scope: &[(String, String)], depth: usize, path: &[usize]) -> AElem {
        let mut ns = if self.rng.chance(2, 5) && !self.cfg.shadowing { String::new() } else { self.pick_uri() };
        let local = self.pick(ELEM_LOCALS).to_string();
        let mut decls: Vec<(String, String)> = vec![];
        if self.cfg.shadowing {
            self.feat("shadowing-mode");
        }
        for _ in 0..*self.rng.pick(&[0usize, 0, 0, 1, 1, 2]) {
            let p = if self.cfg.shadowing { self.pick(&["p", "p", "q"]).to_string() } else { self.pick(PREFIXES).to_string() };
            if decls.iter().any(|d| d.0 == p) {
                continue;
            }
            let uri = if p.is_empty() && self.rng.chance(1, 3) { String::new() } else { self.pick_uri() };
            decls.push((p, uri));
        }
        if self.cfg.twin_prefixes {
            // two spellings of one namespace: two prefixes, or the default namespace and a prefix
            if self.rng.chance(1, 2) {
                let u = self.pick_uri();
                let p1 = self.pick(PREFIXES).to_string();
                let p2 = self.pick(&["p", "q", "r", "s", "t"]).to_string();
                if p1 != p2 && !decls.iter().any(|d| d.0 == p1 || d.0 == p2) {
                    decls.push((p1, u.clone()));
                    decls.push((p2, u.clone()));
                    self.feat("twin-prefixes-declared");
                    if self.rng.chance(1, 2) {
                        ns = u;
                    }
                }
            }
            // elements below use a namespace that has several spellings in scope
            let mut scope1: Vec<(String, String)> = scope.to_vec();
            scope1.extend(decls.iter().cloned());
            let twins: Vec<String> = URIS.iter().chain(URIS_REF.iter()).map(|u| u.to_string()).filter(|u| prefixes_for(&scope1, u, true).len() >= 2).collect();
            if !twins.is_empty() && self.rng.chance(1, 2) {
                ns = twins[self.rng.below(twins.len())].clone();
            }
        }
        if self.cfg.xml_alias && self.rng.chance(1, 3) {
            // legal: the prefix xml may be declared, with its own namespace name
            decls.push(("xml".to_string(), XML_NS.to_string()));
            self.feat("xmlns-xml-declared");
        }
        if self.cfg.xml_rebind && self.rng.chance(1, 3) && !decls.iter().any(|d| d.0 == "xml") {
            // against Namespaces in XML 1.0 section 3, accepted by xot (known finding)
            let u = self.pick(&["urn:zzz", "urn:zzz", ""]).to_string();
            decls.push(("xml".to_string(), u));
            self.feat("xml-prefix-rebound");
        }
        let mut attrs: Vec<(String, String, String)> = vec![];
        let mut has_xmlid = false;
        for _ in 0..*self.rng.pick(&[0usize, 0, 1, 1, 2, 3]) {
            let k = if self.cfg.shadowing && self.rng.chance(2, 3) { 6 } else if self.cfg.xml_alias && self.rng.chance(1, 3) { 10 } else { self.rng.below(12) };
            let (ans, aloc) = match k {
                0..=5 => (String::new(), self.pick(ATTR_LOCALS).to_string()),
                6..=8 => (self.pick_uri(), self.pick(ATTR_LOCALS).to_string()),
                9 => (XML_NS.to_string(), self.pick(&["lang", "space"]).to_string()),
                10 => (XML_NS.to_string(), "id".to_string()),
                _ => {
                    if self.cfg.local_xmlns {
                        self.feat("attr-local-xmlns");
                        (self.pick_uri(), "xmlns".to_string())
                    } else {
                        (String::new(), "y".to_string())
                    }
                }
            };
            if attrs.iter().any(|a| a.0 == ans && a.1 == aloc) {
                continue;
            }
            let value = if ans == XML_NS && aloc == "id" {
                has_xmlid = true;
                self.id_counter += 1;
                self.feat("xml-id");
                if self.rng.chance(1, 5) {
                    // white space that xml:id normalisation must NOT touch: TAB / LF / CR (they can only
                    // come from character references) and the Unicode spaces (seed C02e)
                    // (texts that will be encoded as ISO-8859-1 / windows-1252 keep to their repertoire)
                    let odd = if self.cfg.latin1 {
                        *self.rng.pick(&["\t", "\n", "\r", "\u{a0}"])
                    } else {
                        *self.rng.pick(&["\t", "\n", "\r", "\u{a0}", "\u{2003}", "\u{3000}", "\u{85}", "\u{2028}"])
                    };
                    self.feat("xml-id-odd-space");
                    match self.rng.below(4) {
                        0 => format!("{}i{}", odd, self.id_counter),
                        1 => format!("i{}{}", self.id_counter, odd),
                        2 => format!("i{} {}x", self.id_counter, odd),
                        _ => format!("i{}{}{}x", self.id_counter, odd, odd),
                    }
                } else if self.rng.chance(1, 4) {
                    format!("i{} x", self.id_counter)
                } else {
                    format!("i{}", self.id_counter)
                }
            } else if ans == XML_NS && aloc == "space" {
                self.pick(&["preserve", "default"]).to_string()
            } else {
                self.content(0, 6)
            };
            attrs.push((ans, aloc, value));
        }
        // make every name reachable under the final set of declarations
        let mut scope2: Vec<(String, String)> = scope.to_vec();
        scope2.extend(decls.iter().cloned());
        if resolve(&scope2, "xml") != Some(XML_NS) {
            // the prefix xml names something else here and no other prefix can name the XML namespace
            attrs.retain(|a| a.0 != XML_NS);
            has_xmlid = false;
        }
        if ns.is_empty() {
            if let Some(u) = resolve(&scope2, "") {
                if !u.is_empty() {
                    if let Some(d) = decls.iter_mut().find(|d| d.0.is_empty()) {
                        d.1 = String::new();
                    } else {
                        decls.push((String::new(), String::new()));
                    }
                    self.feat("xmlns-empty");
                }
            }
        } else if prefixes_for(&scope2, &ns, true).is_empty() {
            if !decls.iter().any(|d| d.0.is_empty()) && self.rng.chance(1, 3) {
                decls.push((String::new(), ns.clone()));
            } else {
                let p = self.fresh_prefix();
                decls.push((p, ns.clone()));
            }
        }
        let mut scope2: Vec<(String, String)> = scope.to_vec();
        scope2.extend(decls.iter().cloned());
        for a in &attrs {
            if !a.0.is_empty() && prefixes_for(&scope2, &a.0, false).is_empty() {
                let p = self.fresh_prefix();
                decls.push((p.clone(), a.0.clone()));
                scope2.push((p, a.0.clone()));
            }
        }
        if decls.iter().any(|d| scope.iter().any(|o| o.0 == d.0 && o.1 != d.1)) {
            self.feat("prefix-shadowing");
        }
        // start tag
        let qname = |r: &mut R, ns: &str, local: &str, is_attr: bool, scope2: &[(String, String)]| -> String {
            if ns.is_empty() {
                return local.to_string();
            }
            let ps = prefixes_for(scope2, ns, !is_attr);
            let p = &ps[r.rng.below(ps.len())];
            if ps.len() > 1 {
                r.feat("prefix-choice");
            }
            if p.is_empty() {
                local.to_string()
            } else {
                format!("{}:{}", p, local)
            }
        };
        let q = qname(self, &ns, &local, false, &scope2);
        self.out.push('<');
        let s = self.out.len();
        self.out.push_str(&q);
        let e = self.out.len();
        self.span(path, "ES", 0, s, e);
        // (no xml:id can be added where the prefix xml names something else)
        let xml_is_xml = resolve(&scope2, "xml") == Some(XML_NS);
        self.tag_points.push(TagPoint { at: e, has_xmlid: has_xmlid || !xml_is_xml, depth });
        // interleave declarations and attributes, each kind in its own order
        let nd = decls.len();
        let (mut di, mut ai) = (0, 0);
        // a declaration the parser has to reject, written in front of item number `plant_at`
        let mut plant: Option<(&'static str, &'static str)> = if self.cfg.reserved && self.rng.chance(1, 3) { Some(*self.rng.pick(PLANTED_DECLS)) } else { None };
        let plant_at = self.rng.below(decls.len() + attrs.len() + 1);
        while di < decls.len() || ai < attrs.len() || plant.is_some() {
            if let Some((text, fault)) = plant {
                if di + ai == plant_at || (di >= decls.len() && ai >= attrs.len()) {
                    self.ws1();
                    self.out.push_str(text);
                    self.plant(fault);
                    self.feat(if fault == "prefixed-undeclaration" { "planted-prefixed-undeclaration" } else { "planted-reserved-declaration" });
                    plant = None;
                    continue;
                }
            }
            let take_decl = if di >= decls.len() {
                false
            } else if ai >= attrs.len() {
                true
            } else {
                self.rng.chance(1, 2)
            };
            self.ws1();
            if take_decl {
                if ai > 0 {
                    self.feat("decl-after-use");
                }
                let (p, uri) = decls[di].clone();
                if p.is_empty() {
                    self.out.push_str("xmlns");
                } else {
                    self.out.push_str("xmlns:");
                    self.out.push_str(&p);
                }
                self.ws0();
                self.out.push('=');
                self.ws0();
                let keep = self.attr_points.len();
                self.spell_attr_value(&uri, false);
                let moved: Vec<usize> = self.attr_points.drain(keep..).collect();
                self.decl_points.extend(moved);
                di += 1;
            } else {
                let (ans, aloc, value) = attrs[ai].clone();
                let an = qname(self, &ans, &aloc, true, &scope2);
                let s = self.out.len();
                self.out.push_str(&an);
                let e = self.out.len();
                let mut apath = path.to_vec();
                apath.push(nd + ai);
                self.span(path, "AN", ai, s, e);
                self.ws0();
                self.out.push('=');
                self.ws0();
                let is_id = ans == XML_NS && aloc == "id";
                let extra = is_id && (self.cfg.xmlid_spaces || self.rng.chance(1, 3));
                if extra && self.cfg.xmlid_spaces {
                    self.feat("xml-id-many-spaces");
                }
                let plain_id = value.chars().all(|c| c == ' ' || !c.is_whitespace());
                let (vs, ve) = if is_id && !self.cfg.xmlid_spaces && plain_id {
                    // at most one space at either end, single spaces inside
                    let lead = self.rng.chance(1, 3);
                    let trail = self.rng.chance(1, 3);
                    let quote = if self.rng.chance(1, 2) { '"' } else { '\'' };
                    self.out.push(quote);
                    let vs = self.out.len();
                    if lead {
                        self.out.push(' ');
                    }
                    self.out.push_str(&value);
                    if trail {
                        self.out.push(' ');
                    }
                    let ve = self.out.len();
                    self.out.push(quote);
                    (vs, ve)
                } else {
                    let keep = self.attr_points.len();
                    let r = self.spell_attr_value(&value, extra);
                    if aloc == "xmlns" {
                        let moved: Vec<usize> = self.attr_points.drain(keep..).collect();
                        self.decl_points.extend(moved);
                    }
                    r
                };
                self.span(path, "AV", ai, vs, ve);
                ai += 1;
            }
        }
        self.ws0();
        let base = nd + attrs.len();
        let mut kids = vec![];
        let open_end;
        if depth < self.cfg.max_depth && self.rng.chance(3, 4) {
            self.out.push('>');
            open_end = true;
            kids = self.gen_content(&scope2, depth + 1, path, base, 4);
        } else if self.rng.chance(1, 2) {
            self.out.push('>');
            open_end = true;
        } else {
            let s = self.out.len();
            self.out.push_str("/>");
            self.span(path, "EE", 0, s, s + 2);
            open_end = false;
            self.feat("empty-element-tag");
        }
        if open_end {
            let s = self.out.len();
            self.out.push_str("</");
            self.out.push_str(&q);
            self.ws0();
            self.out.push('>');
            let e = self.out.len();
            self.span(path, "EE", 0, s, e);
            self.close_tags.push((s, e));
            if !ns.is_empty() {
                // the same expanded name through another prefix / the default namespace
                let others: Vec<String> = prefixes_for(&scope2, &ns, true)
                    .into_iter()
                    .map(|p| if p.is_empty() { local.clone() } else { format!("{}:{}", p, local) })
                    .filter(|o| *o != q)
                    .collect();
                if !others.is_empty() {
                    self.feat("end-tag-has-other-spelling");
                    let o = others[self.rng.below(others.len())].clone();
                    self.close_alts.push((s, e, format!("</{}>", o)));
                }
            }
        }
        AElem { ns, local, decls, attrs, kids }
    }

    /// One character of a comment body / PI data: writes a spelling, returns the value's character.
    /// A line feed is spelled LF, or (profile `comment_pi_cr`) CR / CR LF: the value is normalised.
    fn comment_pi_char(&mut self, c: char, prev_bare_cr: &mut bool, feat: &'static str) {
        if c == '\n' {
            let allow = self.cfg.comment_pi_cr;
            let w = self.lf(prev_bare_cr, allow);
            if w != "\n" {
                self.feat(feat);
            }
            self.out.push_str(w);
        } else {
            *prev_bare_cr = false;
            self.out.push(c);
        }
    }

    fn gen_comment(&mut self, path: &[usize]) -> ANode {
        let n = self.rng.below(6);
        let mut body = String::new();
        self.out.push_str("<!--");
        let s = self.out.len();
        let mut prev_bare_cr = false;
        for _ in 0..n {
            let mut c = self.content_char();
            if c == '-' {
                continue;
            }
            if c == '\r' || (self.cfg.comment_pi_cr && self.rng.chance(1, 5)) {
                c = '\n';
            }
            self.comment_pi_char(c, &mut prev_bare_cr, "comment-cr");
            body.push(c);
        }
        let e = self.out.len();
        self.out.push_str("-->");
        self.span(path, "C", 0, s, e);
        ANode::Comment(body)
    }

    fn gen_pi(&mut self, path: &[usize]) -> ANode {
        // the target xml, in any letter case, is reserved: such a PI has to be rejected (the
        // tokenizer itself refuses `<?xml` + space, so lower-case xml is followed by something else)
        let bad = self.cfg.reserved && self.rng.chance(1, 6);
        let target = if bad { self.pick(&["xml", "XML", "xMl", "Xml", "xmL"]).to_string() } else { self.pick(PI_TARGETS).to_string() };
        if bad {
            self.plant("pi-target-xml");
            self.feat("planted-pi-target-xml");
        }
        self.out.push_str("<?");
        let s = self.out.len();
        self.out.push_str(&target);
        let e = self.out.len();
        self.span(path, "PT", 0, s, e);
        let data = if self.rng.chance(1, 3) {
            if self.rng.chance(1, 2) && target != "xml" {
                self.out.push(' ');
            }
            None
        } else {
            if target == "xml" {
                let w = self.pick(&["\t", "\n", "\r\n", "\t "]);
                self.out.push_str(w);
            } else {
                self.ws1();
            }
            let mut d = String::new();
            let s = self.out.len();
            let mut prev_bare_cr = false;
            for i in 0..1 + self.rng.below(6) {
                let mut c = self.content_char();
                if c == '\r' || (i > 0 && self.cfg.comment_pi_cr && self.rng.chance(1, 5)) {
                    c = '\n';
                }
                if (c == '>' && d.ends_with('?')) || (i == 0 && c.is_whitespace()) {
                    c = 'd';
                }
                self.comment_pi_char(c, &mut prev_bare_cr, "pi-data-cr");
                d.push(c);
            }
            if d.ends_with('?') {
                d.push('.');
                self.out.push('.');
            }
            let e = self.out.len();
            self.span(path, "PC", 0, s, e);
            Some(d)
        };
        self.out.push_str("?>");
        ANode::PI(target, data)
    }

    /// A list of normal children written at the current position; `base` = number of namespace
    /// and attribute nodes in front of them.
    pub fn gen_content(&mut self, scope: &[(String, String)], depth: usize, parent: &[usize], base: usize, max: usize) -> Vec<ANode> {
        let n = self.rng.below(max + 1);
        let mut kids: Vec<ANode> = vec![];
        let mut last_text = false;
        if depth == 1 {
            self.top_points.push(self.out.len());
        }
        for _ in 0..n {
            let mut path = parent.to_vec();
            path.push(base + kids.len());
            let k = self.rng.below(20);
            if k < 9 {
                let e = self.gen_elem(scope, depth, &path);
                kids.push(ANode::Elem(e));
                last_text = false;
            } else if k < 15 {
                if last_text {
                    continue;
                }
                let v = self.content(1, 8);
                let (s, e) = self.spell_text(&v);
                self.span(&path, "T", 0, s, e);
                kids.push(ANode::Text(v));
                last_text = true;
            } else if k < 17 {
                kids.push(self.gen_comment(&path));
                last_text = false;
            } else if k < 19 {
                kids.push(self.gen_pi(&path));
                last_text = false;
            } else if self.cfg.lone_empty_cdata && !last_text {
                // denotes no character data at all
                self.out.push_str("<![CDATA[]]>");
                self.feat("lone-empty-cdata");
                // keep it lone: the next item must not be text
                let c = self.gen_comment(&{
                    let mut p = parent.to_vec();
                    p.push(base + kids.len());
                    p
                });
                kids.push(c);
                last_text = false;
            }
            if depth == 1 {
                self.top_points.push(self.out.len());
            }
        }
        kids
    }

    pub fn finish(self, fragment: bool, top: Vec<ANode>, has_decl: bool) -> Rendered {
        Rendered {
            text: self.out,
            fragment,
            top,
            spans: self.spans,
            tag_points: self.tag_points,
            close_tags: self.close_tags,
            close_alts: self.close_alts,
            planted: self.planted,
            text_points: self.text_points,
            attr_points: self.attr_points,
            decl_points: self.decl_points,
            top_points: self.top_points,
            has_decl,
            feats: self.feats,
        }
    }
}

/// A fragment: any content at top level.
pub fn render_fragment(rng: &mut Rng, cfg: RCfg) -> Rendered {
    let mut r = R::new(rng, cfg);
    let top = r.gen_content(&[], 1, &[], 0, 4);
    r.finish(true, top, false)
}

/// A document: optional BOM and XML declaration, comments / PIs / white space around one element.
pub fn render_document(rng: &mut Rng, cfg: RCfg, encoding_label: Option<&str>) -> Rendered {
    let mut r = R::new(rng, cfg);
    let mut has_decl = false;
    if encoding_label.is_none() && r.rng.chance(1, 8) {
        r.out.push('\u{feff}');
        r.feat("bom");
    }
    if encoding_label.is_some() || r.rng.chance(1, 3) {
        has_decl = true;
        r.feat("xml-decl");
        let q = if r.rng.chance(1, 2) { '"' } else { '\'' };
        let eqs = r.cfg.decl_eq_space;
        r.out.push_str("<?xml version");
        if eqs {
            r.ws0();
        }
        r.out.push('=');
        if eqs {
            r.ws0();
        }
        r.out.push(q);
        r.out.push_str("1.0");
        r.out.push(q);
        let enc = match encoding_label {
            Some(l) => Some(l.to_string()),
            None => {
                if r.rng.chance(1, 2) {
                    Some(r.pick(&["UTF-8", "utf-8"]).to_string())
                } else {
                    None
                }
            }
        };
        if let Some(l) = enc {
            r.ws1();
            r.out.push_str("encoding");
            if eqs {
                r.ws0();
            }
            r.out.push('=');
            if eqs {
                r.ws0();
            }
            r.out.push(q);
            r.out.push_str(&l);
            r.out.push(q);
        }
        if r.rng.chance(1, 3) {
            r.ws1();
            r.out.push_str("standalone=");
            r.out.push(q);
            let v = r.pick(&["yes", "no"]);
            r.out.push_str(v);
            r.out.push(q);
        }
        r.ws0();
        r.out.push_str("?>");
    }
    let mut top: Vec<ANode> = vec![];
    let misc = |r: &mut R, top: &mut Vec<ANode>| {
        for _ in 0..*r.rng.pick(&[0usize, 0, 1, 2]) {
            if r.rng.chance(1, 2) {
                let w = r.pick(&[" ", "\n", "\r\n", "\t", "\n\n  "]);
                r.out.push_str(w);
            }
            r.top_points.push(r.out.len());
            let path = vec![top.len()];
            let n = if r.rng.chance(1, 2) { r.gen_comment(&path) } else { r.gen_pi(&path) };
            top.push(n);
        }
        if r.rng.chance(1, 3) {
            let w = r.pick(&[" ", "\n", "\r\n", "\t"]);
            r.out.push_str(w);
        }
        r.top_points.push(r.out.len());
    };
    misc(&mut r, &mut top);
    let path = vec![top.len()];
    let e = r.gen_elem(&[], 1, &path);
    top.push(ANode::Elem(e));
    r.top_points.push(r.out.len());
    misc(&mut r, &mut top);
    r.finish(false, top, has_decl)
}
