//! C17, "slicing the source with a recorded span yields the spelling of exactly that item, and
//! decoding that slice gives the node's value", evaluated on the implementation from the source
//! text and the parsed tree ALONE (no token dump, no renderer bookkeeping):
//!  * element start / attribute name: the slice is `prefix:local` or `local`, `local` is the local
//!    name of the node's name, and the written prefix is bound — by the namespace nodes of the
//!    element and its ancestors, nearest first; `xml` bound at the outset; an unprefixed attribute
//!    in no namespace — to the namespace of the node's name;
//!  * attribute value: the slice stands between two equal quote characters and decodes
//!    (references, white-space normalisation; ID normalisation for xml:id) to the node's value;
//!  * text: the slice is a sequence of text pieces and CDATA sections — starting inside a section
//!    when `<![CDATA[` stands right in front of it, possibly ending inside one — and decoding it
//!    piece by piece gives the node's value exactly.
//! The decoders here are written independently of xot's `parse_content`.
use crate::build_obs::Seen;
use crate::build_oracle::{normalise_line_ends, ref_decode, trim_collapse};
use crate::tree::{GTree, GValue, Vocab};
use std::collections::BTreeSet;
use xot::SpanInfoKey;

const XML_NS: &str = "http://www.w3.org/XML/1998/namespace";

/// Decode a character-data slice: text pieces by `ref_decode`, CDATA sections literally with
/// CR LF / CR -> LF. `None` = the slice is not of that shape.
pub fn decode_run(mut in_cdata: bool, slice: &str) -> Option<(String, usize, usize, bool)> {
    let mut out = String::new();
    let mut rest = slice;
    let (mut texts, mut sections) = (0usize, 0usize);
    loop {
        if in_cdata {
            sections += 1;
            match rest.find("]]>") {
                None => {
                    out.push_str(&normalise_line_ends(rest));
                    return Some((out, texts, sections, true));
                }
                Some(i) => {
                    out.push_str(&normalise_line_ends(&rest[..i]));
                    rest = &rest[i + 3..];
                    in_cdata = false;
                }
            }
        } else {
            let i = rest.find('<').unwrap_or(rest.len());
            if i > 0 {
                texts += 1;
            }
            out.push_str(&ref_decode(&rest[..i], false)?);
            rest = &rest[i..];
            if rest.is_empty() {
                return Some((out, texts, sections, false));
            }
            rest = rest.strip_prefix("<![CDATA[")?;
            in_cdata = true;
        }
    }
}

/// The namespace URI a written prefix is bound to at the element reached by `path`.
fn resolve(vocab: &Vocab, root: &GTree, path: &[usize], prefix: &str) -> Option<String> {
    let mut frames: Vec<Vec<(String, String)>> = vec![];
    let mut t = root;
    let mut collect = |t: &GTree, frames: &mut Vec<Vec<(String, String)>>| {
        if let GValue::Element(_) = t.v {
            frames.push(
                t.kids
                    .iter()
                    .filter_map(|k| if let GValue::Namespace(p, n) = &k.v { Some((vocab.prefixes[*p].0.clone(), vocab.namespaces[*n].0.clone())) } else { None })
                    .collect(),
            );
        }
    };
    collect(t, &mut frames);
    for i in path {
        t = t.kids.get(*i)?;
        collect(t, &mut frames);
    }
    for f in frames.iter().rev() {
        // the builder searches one start tag's declarations last to first
        if let Some((_, uri)) = f.iter().rev().find(|(p, _)| p == prefix) {
            return Some(uri.clone());
        }
    }
    match prefix {
        "" => Some(String::new()),
        "xml" => Some(XML_NS.to_string()),
        _ => None,
    }
}

fn split_qname(slice: &str) -> (&str, &str) {
    match slice.find(':') {
        Some(i) => (&slice[..i], &slice[i + 1..]),
        None => ("", slice),
    }
}

fn get<'a>(src: &'a str, s: &xot::Span) -> Option<&'a str> {
    if s.start <= s.end && s.end <= src.len() && src.is_char_boundary(s.start) && src.is_char_boundary(s.end) {
        Some(&src[s.start..s.end])
    } else {
        None
    }
}

/// The slice / decode clauses of C17 on an accepted input. Failures (signatures) go to `out`,
/// what was exercised to `stats`.
pub fn slice_decode(vocab: &Vocab, seen: &Seen, src: &str, out: &mut BTreeSet<String>, stats: &mut Vec<String>) {
    for (i, n) in seen.nodes.iter().enumerate() {
        let path = &seen.paths[i];
        let g = seen.tree.at(path).unwrap();
        match &g.v {
            GValue::Element(name) => {
                if let Some(sp) = seen.span_info.get(SpanInfoKey::ElementStart(*n)) {
                    if get(src, sp).is_some() && !(sp.start > 0 && src.as_bytes()[sp.start - 1] == b'<') {
                        // the name as written starts right after '<'
                        out.insert("element-start-span-is-not-the-whole-written-name".into());
                    }
                }
                if let Some(slice) = seen.span_info.get(SpanInfoKey::ElementStart(*n)).and_then(|s| get(src, s)) {
                    let (p, l) = split_qname(slice);
                    let (local, ns, _) = &vocab.names[*name];
                    stats.push(format!("c17.slice.element-start.{}", if p.is_empty() { "unprefixed" } else { "prefixed" }));
                    if l != local {
                        out.insert("element-start-slice-local-name-differs".into());
                    } else {
                        match resolve(vocab, &seen.tree, path, p) {
                            Some(uri) if uri == vocab.namespaces[*ns].0 => {}
                            _ => {
                                out.insert("element-start-slice-prefix-resolves-differently".into());
                            }
                        }
                    }
                }
                let attr_ids: Vec<usize> = g.kids.iter().filter_map(|k| if let GValue::Attribute(a, _) = &k.v { Some(*a) } else { None }).collect();
                for k in &g.kids {
                    if let GValue::Attribute(a, v) = &k.v {
                        if attr_ids.iter().filter(|b| *b == a).count() > 1 {
                            continue;
                        }
                        let id = vocab.name(*a);
                        let (local, ns, _) = &vocab.names[*a];
                        if let Some(sp) = seen.span_info.get(SpanInfoKey::AttributeName(*n, id)) {
                            let before = if sp.start > 0 { src.as_bytes()[sp.start - 1] } else { 0 };
                            if get(src, sp).is_some() && !matches!(before, b' ' | b'\t' | b'\n' | b'\r') {
                                // an attribute name as written is preceded by white space
                                out.insert("attribute-name-span-is-not-the-whole-written-name".into());
                            }
                        }
                        if let Some(slice) = seen.span_info.get(SpanInfoKey::AttributeName(*n, id)).and_then(|s| get(src, s)) {
                            let (p, l) = split_qname(slice);
                            stats.push(format!("c17.slice.attribute-name.{}", if p.is_empty() { "unprefixed" } else { "prefixed" }));
                            let bound = if p.is_empty() { Some(String::new()) } else { resolve(vocab, &seen.tree, path, p) };
                            if l != local {
                                out.insert("attribute-name-slice-local-name-differs".into());
                            } else if bound.as_deref() != Some(vocab.namespaces[*ns].0.as_str()) {
                                out.insert("attribute-name-slice-prefix-resolves-differently".into());
                            }
                        }
                        if let Some(s) = seen.span_info.get(SpanInfoKey::AttributeValue(*n, id)) {
                            if let Some(slice) = get(src, s) {
                                let b = src.as_bytes();
                                let q = if s.start > 0 { b[s.start - 1] } else { 0 };
                                if !((q == b'"' || q == b'\'') && s.end < b.len() && b[s.end] == q) {
                                    out.insert("attribute-value-span-not-between-quotes".into());
                                }
                                let is_xml_id = local == "id" && vocab.namespaces[*ns].0 == XML_NS;
                                match ref_decode(slice, true) {
                                    None => {
                                        out.insert("attribute-value-slice-does-not-decode".into());
                                    }
                                    Some(d) => {
                                        let want = if is_xml_id { trim_collapse(&d) } else { d };
                                        stats.push(format!("c17.decode.attribute-value.{}", if is_xml_id { "xml-id" } else if slice.contains('&') { "references" } else { "plain" }));
                                        if want != *v {
                                            out.insert(if is_xml_id { "xml-id-value-slice-decodes-differently" } else { "attribute-value-slice-decodes-differently" }.into());
                                        }
                                    }
                                }
                            }
                        }
                    }
                }
            }
            GValue::Text(v) => {
                if let Some(s) = seen.span_info.get(SpanInfoKey::Text(*n)) {
                    if let Some(slice) = get(src, s) {
                        let in_cdata = src[..s.start].ends_with("<![CDATA[");
                        match decode_run(in_cdata, slice) {
                            None => {
                                out.insert("text-slice-does-not-decode".into());
                            }
                            Some((d, texts, sections, ends_in_cdata)) => {
                                stats.push(format!(
                                    "c17.decode.text.{}text-{}cdata{}{}",
                                    texts.min(3),
                                    sections.min(3),
                                    if in_cdata { ".starts-in-cdata" } else { "" },
                                    if ends_in_cdata { ".ends-in-cdata" } else { "" }
                                ));
                                if d != *v {
                                    out.insert("text-slice-decodes-differently".into());
                                }
                            }
                        }
                    }
                }
            }
            _ => {}
        }
    }
}

#[cfg(test)]
mod tests {
    use super::decode_run;
    #[test]
    fn shapes() {
        assert_eq!(decode_run(false, "a&lt;b").unwrap().0, "a<b");
        assert_eq!(decode_run(false, "a<![CDATA[&lt;]]>b").unwrap().0, "a&lt;b");
        assert_eq!(decode_run(true, "x\r\ny]]>z&amp;").unwrap().0, "x\ny]]>".replace("]]>", "") + "z&");
        assert_eq!(decode_run(true, "x").unwrap().0, "x");
        assert_eq!(decode_run(false, "a<![CDATA[b").unwrap().0, "ab");
        assert_eq!(decode_run(false, "a<![CDATA[]]><![CDATA[c").unwrap().0, "ac");
        assert!(decode_run(false, "a<b").is_none());
    }

    /// A name written `:local` (let through by xmlparser) is rejected since /repo a5fafb0, with the
    /// span of the whole name as written (formerly accepted with the span of `local` alone: the two
    /// fixed C17 findings).
    #[test]
    fn colon_first_name() {
        let mut xot = xot::Xot::new();
        match xot.parse_with_span_info("<:a/>") {
            Err(xot::ParseError::UnknownPrefix(p, s)) => {
                assert_eq!(p, "");
                assert_eq!((s.start, s.end), (1, 3));
            }
            _ => panic!("<:a/> must be rejected with UnknownPrefix"),
        }
    }
}
