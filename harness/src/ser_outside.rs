//! Oracle of the `ser` suite for trees ONE step outside the round-trip domain (`Representable`
//! of Model/SerTokens.lean), where the outcome of serialise + reparse is still determined:
//!  * a CR in a comment / in PI data is written as it is and read back as LF (line ends are
//!    normalised there too since /repo f8655b7): the reparsed content is the original with exactly
//!    these line ends normalised, so it differs from the original iff such a CR is in the output;
//!  * a namespace node that binds a non-empty prefix to the empty name (`xmlns:p=""`) or anything to
//!    the xmlns namespace name is written as it is, and the parser rejects that declaration
//!    (InvalidNamespaceDeclaration since /repo 6153ddf, a5dcf8e): the output does not parse, exactly
//!    when such a declaration is among the written tokens.
//! Neither outcome is a finding; anything else is.
use crate::common::Sink;
use crate::ser_oracle::{fail, reparse, short, CNode};
use crate::suite_ser::{Case, Ev, Observed, Params, Res, XMLNS_URI};

fn normalise_line_ends(s: &str) -> String {
    s.replace("\r\n", "\n").replace('\r', "\n")
}

/// The content with the line ends of comments and PI data normalised.
fn normalise_comment_pi(n: &CNode) -> CNode {
    match n {
        CNode::Doc(k) => CNode::Doc(k.iter().map(normalise_comment_pi).collect()),
        CNode::Elem { name, id, attrs, kids } => CNode::Elem { name: name.clone(), id: *id, attrs: attrs.clone(), kids: kids.iter().map(normalise_comment_pi).collect() },
        CNode::Comment(s) => CNode::Comment(normalise_line_ends(s)),
        CNode::PI(t, d) => CNode::PI(t.clone(), d.as_deref().map(normalise_line_ends)),
        other => other.clone(),
    }
}

pub fn check_outside(c: &mut Case, p: &Params, obs: &Observed, original: &CNode, names_ok: bool, sink: &mut Sink) {
    let (text, toks) = match (&obs.token_string, &obs.tokens) {
        (Res::Ok(s), Res::Ok(t)) if p.cdata.is_empty() && !p.gt => (s.clone(), t),
        _ => return,
    };
    // what the written tokens show
    let mut undeclaration = false;
    let mut xmlns_bound = false;
    for k in toks {
        if let Ev::PX(prefix, ns) = &k.ev {
            let uri = c.vocab.namespaces[*ns].0.as_str();
            undeclaration |= *prefix != 0 && uri.is_empty();
            xmlns_bound |= uri == XMLNS_URI;
        }
    }
    let back = match reparse(c.xot, original, &text) {
        Some(b) => b,
        None => return,
    };
    if undeclaration || xmlns_bound {
        match back {
            Err(e) if e.starts_with("InvalidNamespaceDeclaration") => sink.stat("oracle.outside.rejected-declaration-does-not-reparse"),
            Ok(_) => {
                let sig = if xmlns_bound { "C03:reserved-prefix-or-namespace-rebound-accepted" } else { "C03:prefixed-undeclaration-accepted" };
                fail(sink, "C03", sig, &format!("{:?} is accepted by the parser", short(&text)), c, p);
            }
            Err(e) if names_ok => fail(sink, "C10", "C10:reparse-differs", &format!("{:?} does not parse: {}", short(&text), short(&e)), c, p),
            Err(_) => {}
        }
        return;
    }
    let want = normalise_comment_pi(original);
    match back {
        Ok(b) if b == want => sink.stat(if want == *original { "oracle.outside.no-cr-in-output.reparse-equal" } else { "oracle.outside.cr-read-back-as-lf" }),
        Ok(b) if b == *original => fail(sink, "C02", "C02:comment-pi-line-ends-not-normalised", &format!("{:?}: a CR in a comment / PI data is read back as CR", short(&text)), c, p),
        Ok(_) if names_ok => fail(sink, "C10", "C10:reparse-differs", &format!("{:?} reparses to different content", short(&text)), c, p),
        Err(e) if names_ok => fail(sink, "C10", "C10:reparse-differs", &format!("{:?} does not parse: {}", short(&text), short(&e)), c, p),
        _ => {}
    }
}
