//! Any-order construction programs (C20, `lean/XotModel/Model/FanyorderSpec.lean`), used by suite
//! `ffixed`: one abstract document is built by a RANDOM interleaving of
//!   * node creation (any time; a text node may be delivered in several pieces),
//!   * `set_attribute` / `set_namespace` (`map_insert`) or `new_attribute_node` / `new_namespace_node`
//!     + `any_append`, before or after the element's children are attached and before or after the
//!     element itself is attached,
//!   * attachment of a created child to its created parent at its final position relative to the
//!     siblings already there, by `append` / `prepend` / `insert_after` / `insert_before` (chosen at
//!     random among the applicable ones); subtrees are attached bottom-up, top-down or mixed.
//! The pieces of one text node are attached in any order that keeps the attached pieces
//! contiguous (the first piece attached survives every merge: xot never keeps the moved node);
//! two different text children are never adjacent on the way (they would merge for good).
//! Every step is an ordinary `forest` request (replayed by the implementation model).  The whole
//! program is moreover sent as `forest prog spec …` / `forest prog impl …`, placed BEFORE its first
//! step: the specification's and the model interpreter's run from the state before the program,
//! compared with the content of the real forest after the program.
use crate::common::{enc, Rng, Sink};
use crate::suite_forest::Session;
use crate::suite_fspec::erase_labels;
use crate::tree::*;

struct PNode {
    v: GValue,
    parent: Option<usize>,
    /// position among the parent's normal children
    pos: usize,
    kids: Vec<usize>,
    ns: Vec<(usize, usize)>,
    attrs: Vec<(usize, String)>,
    ns_done: usize,
    attrs_done: usize,
    /// text pieces (one piece for every other node kind)
    pieces: Vec<String>,
    /// per piece: (create index, label)
    made: Vec<Option<(usize, usize)>>,
    /// attached pieces: [lo, hi)
    lo: usize,
    hi: usize,
    /// label / create index of the node that carries the content once attached
    resident: Option<(usize, usize)>,
}

fn flatten(t: &GTree, parent: Option<usize>, pos: usize, out: &mut Vec<PNode>) -> usize {
    let id = out.len();
    let mut ns = vec![];
    let mut attrs = vec![];
    for k in &t.kids {
        match &k.v {
            GValue::Namespace(p, n) => ns.push((*p, *n)),
            GValue::Attribute(n, v) => attrs.push((*n, v.clone())),
            _ => {}
        }
    }
    out.push(PNode { v: t.v.clone(), parent, pos, kids: vec![], ns, attrs, ns_done: 0, attrs_done: 0, pieces: vec![String::new()], made: vec![None], lo: 0, hi: 0, resident: None });
    let mut kids = vec![];
    for (i, k) in t.kids.iter().filter(|k| k.is_normal()).enumerate() {
        kids.push(flatten(k, Some(id), i, out));
    }
    out[id].kids = kids;
    id
}

#[derive(Clone, Debug)]
enum Task {
    Create(usize, usize),
    Entry(usize, bool),
    Attach(usize, usize),
}

fn is_text(n: &PNode) -> bool {
    matches!(n.v, GValue::Text(_))
}

/// Nearest attached sibling to the left / right of child `c` of `p`.
fn neighbours(ns: &[PNode], p: usize, c: usize) -> (Option<usize>, Option<usize>) {
    let pos = ns[c].pos;
    let kids = &ns[p].kids;
    let left = kids[..pos].iter().rev().copied().find(|&k| ns[k].resident.is_some());
    let right = kids[pos + 1..].iter().copied().find(|&k| ns[k].resident.is_some());
    (left, right)
}

/// Build `t` by a random program; returns the label of its root, or `None` after a refusal.
pub fn anyorder_build(s: &mut Session, sink: &mut Sink, rng: &mut Rng, t: &GTree) -> Option<usize> {
    let mut ns: Vec<PNode> = vec![];
    let root = flatten(t, None, 0, &mut ns);
    let cons = s.xot_consolidation();
    for n in ns.iter_mut() {
        if let GValue::Text(x) = &n.v {
            let chars: Vec<char> = x.chars().collect();
            let mut pieces: Vec<String> = vec![];
            if cons && chars.len() >= 2 && rng.chance(2, 3) {
                let mut start = 0;
                while start < chars.len() {
                    let len = 1 + rng.below((chars.len() - start).min(3));
                    pieces.push(chars[start..start + len].iter().collect());
                    start += len;
                }
            } else {
                pieces.push(x.clone());
            }
            n.made = vec![None; pieces.len()];
            n.pieces = pieces;
        }
    }
    let mark = sink.lines.len();
    let mut text: Vec<String> = vec![];
    let mut creates = 0usize;
    loop {
        // enabled tasks
        let mut tasks: Vec<Task> = vec![];
        for i in 0..ns.len() {
            for j in 0..ns[i].pieces.len() {
                if ns[i].made[j].is_none() {
                    tasks.push(Task::Create(i, j));
                }
            }
            if ns[i].made[0].is_some() && matches!(ns[i].v, GValue::Element(_)) {
                if ns[i].ns_done < ns[i].ns.len() {
                    tasks.push(Task::Entry(i, true));
                }
                if ns[i].attrs_done < ns[i].attrs.len() {
                    tasks.push(Task::Entry(i, false));
                }
            }
            if let Some(p) = ns[i].parent {
                if ns[p].made[0].is_none() {
                    continue;
                }
                if ns[i].resident.is_none() {
                    let (l, r) = neighbours(&ns, p, i);
                    let blocked = cons && is_text(&ns[i]) && (l.map_or(false, |k| is_text(&ns[k])) || r.map_or(false, |k| is_text(&ns[k])));
                    if !blocked {
                        for j in 0..ns[i].pieces.len() {
                            if ns[i].made[j].is_some() {
                                tasks.push(Task::Attach(i, j));
                            }
                        }
                    }
                } else {
                    if ns[i].lo > 0 && ns[i].made[ns[i].lo - 1].is_some() {
                        tasks.push(Task::Attach(i, ns[i].lo - 1));
                    }
                    if ns[i].hi < ns[i].pieces.len() && ns[i].made[ns[i].hi].is_some() {
                        tasks.push(Task::Attach(i, ns[i].hi));
                    }
                }
            }
        }
        if tasks.is_empty() {
            break;
        }
        let task = rng.pick(&tasks).clone();
        match task {
            Task::Create(i, j) => {
                let v = match &ns[i].v {
                    GValue::Text(_) => GValue::Text(ns[i].pieces[j].clone()),
                    v => v.clone(),
                };
                let w = GTree::leaf(v).wire();
                let r = s.exec(sink, &format!("new {}", w));
                let l: usize = r[3..].parse().unwrap();
                text.push(format!("new {}", w));
                ns[i].made[j] = Some((creates, l));
                creates += 1;
                if ns[i].parent.is_none() {
                    ns[i].resident = ns[i].made[0];
                    ns[i].hi = 1;
                }
                sink.stat("anyorder.create");
            }
            Task::Entry(i, is_ns) => {
                let (ei, el) = ns[i].made[0].unwrap();
                let attached_kids = ns[i].kids.iter().filter(|&&k| ns[k].resident.is_some()).count();
                sink.stat(if attached_kids > 0 { "anyorder.entry.after-children" } else { "anyorder.entry.before-children" });
                let via_node = rng.chance(1, 2);
                let resp;
                if is_ns {
                    let (p, n) = ns[i].ns[ns[i].ns_done];
                    ns[i].ns_done += 1;
                    if via_node {
                        let r = s.exec(sink, &format!("new N {} {}", p, n));
                        let l: usize = r[3..].parse().unwrap();
                        text.push(format!("new N {} {}", p, n));
                        resp = s.exec(sink, &format!("any_append {} {}", el, l));
                        text.push(format!("any_append {} {}", ei, creates));
                        creates += 1;
                        sink.stat("anyorder.ns.node");
                    } else {
                        resp = s.exec(sink, &format!("map_insert ns {} {} {}", el, p, n));
                        text.push(format!("set_ns {} {} {}", ei, p, n));
                        sink.stat("anyorder.ns.set");
                    }
                } else {
                    let (n, v) = ns[i].attrs[ns[i].attrs_done].clone();
                    ns[i].attrs_done += 1;
                    if via_node {
                        let r = s.exec(sink, &format!("new A {} {}", n, enc(&v)));
                        let l: usize = r[3..].parse().unwrap();
                        text.push(format!("new A {} {}", n, enc(&v)));
                        resp = s.exec(sink, &format!("any_append {} {}", el, l));
                        text.push(format!("any_append {} {}", ei, creates));
                        creates += 1;
                        sink.stat("anyorder.attr.node");
                    } else {
                        resp = s.exec(sink, &format!("map_insert attr {} {} {}", el, n, enc(&v)));
                        text.push(format!("set_attr {} {} {}", ei, n, enc(&v)));
                        sink.stat("anyorder.attr.set");
                    }
                }
                if !resp.starts_with("ok") {
                    sink.stat("anyorder.refused");
                    return None;
                }
            }
            Task::Attach(i, j) => {
                let p = ns[i].parent.unwrap();
                let (pi, pl) = ns[p].made[0].unwrap();
                let (ci, cl) = ns[i].made[j].unwrap();
                let (l, r) = neighbours(&ns, p, i);
                let lref = l.map(|k| ns[k].resident.unwrap());
                let rref = r.map(|k| ns[k].resident.unwrap());
                // (request on labels, program step on create indices)
                let mut options: Vec<(String, String)> = vec![];
                let piece_kind;
                match ns[i].resident {
                    None => {
                        piece_kind = "first";
                        if let Some((ai, al)) = lref {
                            options.push((format!("insert_after {} {}", al, cl), format!("insert_after {} {}", ai, ci)));
                        }
                        if let Some((bi, bl)) = rref {
                            options.push((format!("insert_before {} {}", bl, cl), format!("insert_before {} {}", bi, ci)));
                        }
                        if rref.is_none() {
                            options.push((format!("append {} {}", pl, cl), format!("append {} {}", pi, ci)));
                        }
                        if lref.is_none() {
                            options.push((format!("prepend {} {}", pl, cl), format!("prepend {} {}", pi, ci)));
                        }
                    }
                    Some((ti, tl)) => {
                        if j + 1 == ns[i].lo {
                            piece_kind = "left";
                            options.push((format!("insert_before {} {}", tl, cl), format!("insert_before {} {}", ti, ci)));
                            match lref {
                                Some((ai, al)) => options.push((format!("insert_after {} {}", al, cl), format!("insert_after {} {}", ai, ci))),
                                None => options.push((format!("prepend {} {}", pl, cl), format!("prepend {} {}", pi, ci))),
                            }
                        } else {
                            piece_kind = "right";
                            options.push((format!("insert_after {} {}", tl, cl), format!("insert_after {} {}", ti, ci)));
                            match rref {
                                Some((bi, bl)) => options.push((format!("insert_before {} {}", bl, cl), format!("insert_before {} {}", bi, ci))),
                                None => options.push((format!("append {} {}", pl, cl), format!("append {} {}", pi, ci))),
                            }
                        }
                    }
                }
                let (req, step) = rng.pick(&options).clone();
                let op = req.split(' ').next().unwrap().to_string();
                sink.stat(&format!("anyorder.attach.{}", op));
                if is_text(&ns[i]) && ns[i].pieces.len() > 1 {
                    sink.stat(&format!("anyorder.piece.{}.{}", piece_kind, op));
                }
                let parent_attached = ns[p].parent.is_none() || ns[p].resident.is_some();
                sink.stat(if parent_attached { "anyorder.attach.top-down" } else { "anyorder.attach.bottom-up" });
                let resp = s.exec(sink, &req);
                text.push(step);
                if resp != "ok" {
                    sink.stat("anyorder.refused");
                    return None;
                }
                if ns[i].resident.is_none() {
                    ns[i].resident = Some((ci, cl));
                    ns[i].lo = j;
                    ns[i].hi = j + 1;
                } else if j + 1 == ns[i].lo {
                    ns[i].lo = j;
                } else {
                    ns[i].hi = j + 1;
                }
            }
        }
    }
    // the whole program on the specification and on the model's interpreter, evaluated on the
    // state BEFORE the program; expected: the content of the real forest AFTER it
    let content = erase_labels(&s.dump());
    let program = text.join(" ; ");
    sink.lines.insert(mark, (format!("forest prog spec {}", program), content.clone()));
    sink.lines.insert(mark + 1, (format!("forest prog impl {}", program), format!("ok {}", content)));
    sink.stat("anyorder.programs");
    sink.stat(&format!("anyorder.steps.{}", match text.len() { 0..=5 => "1-5", 6..=15 => "6-15", 16..=40 => "16-40", _ => "41+" }));
    ns[root].made[0].map(|x| x.1)
}

/// A document with mixed content and longer text nodes (so that text arrives in several pieces):
/// `<a xmlns:p="urn:a" b="…" c="…">text<b d="…">text</b>text<!--c-->text…</a>` with optional
/// leading / trailing comment and PI.  No two adjacent text children.
pub fn gen_mixed_doc(rng: &mut Rng) -> GTree {
    fn text(rng: &mut Rng) -> GTree {
        let n = 2 + rng.below(5);
        let s: String = (0..n).map(|_| *rng.pick(&['x', 'y', 'z', ' ', 'a', '\n'])).collect();
        GTree::leaf(GValue::Text(s))
    }
    fn content(rng: &mut Rng, depth: usize) -> Vec<GTree> {
        let mut kids = vec![];
        let n = 1 + rng.below(5);
        let mut last_text = false;
        for _ in 0..n {
            if !last_text && rng.chance(3, 5) {
                kids.push(text(rng));
                last_text = true;
            } else if depth < 2 && rng.chance(2, 3) {
                let mut ek = vec![];
                if rng.chance(1, 3) {
                    ek.push(GTree::leaf(GValue::Namespace(3, NS_B)));
                }
                if rng.chance(1, 2) {
                    ek.push(GTree::leaf(GValue::Attribute(5, "d".into())));
                }
                ek.extend(content(rng, depth + 1));
                kids.push(GTree::new(GValue::Element(*rng.pick(&[3usize, 4])), ek));
                last_text = false;
            } else {
                kids.push(GTree::leaf(GValue::Comment("c".into())));
                last_text = false;
            }
        }
        kids
    }
    let mut ek = vec![];
    if rng.chance(1, 2) {
        ek.push(GTree::leaf(GValue::Namespace(2, NS_A)));
    }
    if rng.chance(1, 2) {
        ek.push(GTree::leaf(GValue::Namespace(4, NS_C)));
    }
    for a in [3usize, 4, 5] {
        if rng.chance(1, 2) {
            ek.push(GTree::leaf(GValue::Attribute(a, "v".into())));
        }
    }
    ek.extend(content(rng, 0));
    let mut dk = vec![];
    if rng.chance(1, 3) {
        dk.push(GTree::leaf(GValue::Comment("lead".into())));
    }
    dk.push(GTree::new(GValue::Element(2), ek));
    if rng.chance(1, 3) {
        dk.push(GTree::leaf(GValue::PI(17, None)));
    }
    GTree::new(GValue::Document, dk)
}
