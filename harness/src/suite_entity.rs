//! Suite `entity`: one escaping / decoding call on one string (entity.rs, the HTML
//! escapers, normalize_xml_id) through the `xot_verif` hooks.
use crate::common::{enc, guarded, Rng, Sink};
use crate::strings::*;
use xot::verif_hooks as h;
use xot::ParseError;

fn parse_resp(r: Option<Result<String, ParseError>>) -> String {
    match r {
        None => "panic".to_string(),
        Some(Ok(s)) => format!("ok {}", enc(&s)),
        Some(Err(ParseError::UnclosedEntity(e, pos))) => format!("err:unclosed {} {}", enc(&e), pos),
        Some(Err(ParseError::InvalidEntity(e, span))) => {
            format!("err:invalid {} {} {}", enc(&e), span.start, span.end)
        }
        Some(Err(e)) => format!("err:other {:?}", e),
    }
}

pub fn run_case(sink: &mut Sink, op: &str, base: usize, s: &str) {
    let resp = match op {
        "parse_text" => parse_resp(guarded(|| h::parse_text(s, base))),
        "parse_attr" => parse_resp(guarded(|| h::parse_attribute(s, base))),
        "ser_text0" => ok(guarded(|| h::serialize_text(s, false))),
        "ser_text1" => ok(guarded(|| h::serialize_text(s, true))),
        "ser_cdata" => ok(guarded(|| h::serialize_cdata(s))),
        "ser_attr" => ok(guarded(|| h::serialize_attribute(s))),
        "ser_text_html" => ok(guarded(|| h::serialize_text_html(s))),
        "ser_attr_html" => ok(guarded(|| h::serialize_attribute_html(s))),
        "norm_id" => ok(guarded(|| h::normalize_xml_id(s))),
        _ => unreachable!(),
    };
    sink.stat(&format!("op.{}", op));
    sink.stat(&format!("resp.{}", resp.split(' ').next().unwrap()));
    sink.stat(&format!("len.{}", match s.chars().count() { 0 => "0", 1..=3 => "1-3", 4..=10 => "4-10", _ => "11+" }));
    if op.starts_with("parse") {
        sink.emit(format!("entity {} {} {}", op, base, enc(s)), resp);
    } else {
        sink.emit(format!("entity {} {}", op, enc(s)), resp);
    }
}

fn ok(r: Option<String>) -> String {
    match r {
        None => "panic".to_string(),
        Some(s) => format!("ok {}", enc(&s)),
    }
}

/// Read a text consisting of CDATA sections back (independent of the model).
fn cdata_contents(mut t: &str) -> Option<String> {
    let mut out = String::new();
    if t.is_empty() {
        return None;
    }
    while !t.is_empty() {
        if let Some(rest) = t.strip_prefix("&#xD;") {
            // a carriage return is written as a reference between sections
            out.push('\r');
            t = rest;
            continue;
        }
        t = t.strip_prefix("<![CDATA[")?;
        let end = t.find("]]>")?;
        out.push_str(&t[..end]);
        t = &t[end + 3..];
    }
    Some(out)
}

/// The character-level clauses of C01 / C14 evaluated on the implementation.
pub fn oracle(sink: &mut Sink, s: &str) {
    let rep = [format!("string {}", enc(s))];
    let a = h::serialize_attribute(s);
    if h::parse_attribute(&a, 0).ok().as_deref() != Some(s) {
        sink.fail("C01", "C01:attribute-value-does-not-survive-escaping", &format!("serialize_attribute gives {:?}", a), &rep);
    }
    if a.contains('<') || a.contains('"') {
        sink.fail("C01", "C01:raw-lt-or-quote-in-attribute-value", &format!("serialize_attribute gives {:?}", a), &rep);
    }
    let t0 = h::serialize_text(s, false);
    if h::parse_text(&t0, 0).ok().as_deref() != Some(s) {
        sink.fail("C01", "C01:text-does-not-survive-escaping", &format!("serialize_text gives {:?}", t0), &rep);
    }
    if t0.contains('<') || t0.contains("]]>") {
        sink.fail("C01", "C01:raw-lt-or-cdata-end-in-text", &format!("serialize_text gives {:?}", t0), &rep);
    }
    let t1 = h::serialize_text(s, true);
    if h::parse_text(&t1, 0).ok().as_deref() != Some(s) {
        sink.fail("C14", "C14:unescaped-gt-text-does-not-survive", &format!("serialize_text(unescaped_gt) gives {:?}", t1), &rep);
    }
    if t1.contains('<') || t1.contains("]]>") {
        sink.fail("C14", "C14:unescaped-gt-output-contains-cdata-end-or-lt", &format!("serialize_text(unescaped_gt) gives {:?}", t1), &rep);
    }
    let c = h::serialize_cdata(s);
    if cdata_contents(&c).as_deref() != Some(s) {
        sink.fail("C14", "C14:cdata-sections-do-not-spell-the-content", &format!("serialize_cdata gives {:?}", c), &rep);
    }
}

pub const SER_OPS: &[&str] = &["ser_text0", "ser_text1", "ser_cdata", "ser_attr", "ser_text_html", "ser_attr_html"];

pub fn corpus(sink: &mut Sink) {
    for s in ["", "\t", "\n", "\r", "\r\n", "x\ty\nz\rw", "]]>", "]]]>", "]>]]>>", "a]]", "]]]]>>", "]]]>", "a[b[c[0]]]>0", "&<>'\"", "\u{a0}", "\u{1f600}"] {
        for op in SER_OPS {
            run_case(sink, op, 0, s);
        }
        oracle(sink, s);
        run_case(sink, "parse_text", 0, s);
        run_case(sink, "parse_attr", 7, s);
    }
    for s in ["&amp;", "&#65;", "&#x41;", "&#+65;", "&#x+41;", "&#0;", "&#xD800;", "&#x110000;", "&#4294967296;", "&", "&amp", "&;", "&#;", "&#x;", "é&bogus;", "é&#", "a\r\n&#13;\r", "&#x00000000000000041;"] {
        run_case(sink, "parse_text", 0, s);
        run_case(sink, "parse_attr", 3, s);
    }
    for s in ["", " ", "  ", " a ", "  a  b  ", "   x   y   ", "a", "\ta ", " \u{a0} "] {
        run_case(sink, "norm_id", 0, s);
    }
}

pub fn run(seed: u64, count: usize, tier: &str, sink: &mut Sink) {
    let mut rng = Rng::new(seed ^ 0xE171);
    corpus(sink);
    if tier == "thorough" {
        let alpha = ['&', '<', '>', '\'', '"', ']', '\t', '\n', '\r', ' ', 'a', '\u{a0}', ';', '#'];
        exhaustive(&alpha, 4, SER_OPS, sink);
        exhaustive(&[']', '>', 'a'], 8, &["ser_cdata", "ser_text1", "ser_text0"], sink);
        exhaustive(&['&', '#', 'x', ';', '1', 'a', '+', '\r', '\n'], 5, &["parse_text", "parse_attr"], sink);
    }
    for _ in 0..count {
        match rng.below(10) {
            0..=2 => {
                let s = if rng.chance(1, 2) { any_string(&mut rng, 12) } else { bracket_string(&mut rng, 12) };
                let op = *rng.pick(SER_OPS);
                run_case(sink, op, 0, &s);
                oracle(sink, &s);
            }
            3..=7 => {
                let mal = rng.chance(1, 2);
                let s = reference_string(&mut rng, 8, mal);
                let base = if rng.chance(1, 2) { 0 } else { rng.below(50) };
                let op = if rng.chance(1, 2) { "parse_text" } else { "parse_attr" };
                run_case(sink, op, base, &s);
            }
            8 => {
                // round trip spelled by the implementation itself
                let s = any_string(&mut rng, 10);
                let t = h::serialize_attribute(&s);
                run_case(sink, "parse_attr", 0, &t);
                let t = h::serialize_text(&s, rng.chance(1, 2));
                run_case(sink, "parse_text", 0, &t);
            }
            _ => {
                let n = rng.below(8);
                let s: String = (0..n).map(|_| *rng.pick(&[' ', ' ', ' ', 'a', 'b', '\t', '\u{a0}'])).collect();
                run_case(sink, "norm_id", 0, &s);
            }
        }
    }
}

/// Exhaustive: all strings up to `maxlen` over `alphabet`, through every serialiser and both parsers.
pub fn exhaustive(alphabet: &[char], maxlen: usize, ops: &[&str], sink: &mut Sink) {
    let mut idx = vec![0usize; 0];
    loop {
        let s: String = idx.iter().map(|&i| alphabet[i]).collect();
        for op in ops {
            run_case(sink, op, 0, &s);
        }
        if ops.iter().any(|o| o.starts_with("ser_")) {
            oracle(sink, &s);
        }
        // next
        let mut i = idx.len();
        loop {
            if i == 0 {
                idx.insert(0, 0);
                for j in idx.iter_mut() {
                    *j = 0;
                }
                break;
            }
            i -= 1;
            if idx[i] + 1 < alphabet.len() {
                idx[i] += 1;
                for j in idx.iter_mut().skip(i + 1) {
                    *j = 0;
                }
                break;
            }
        }
        if idx.len() > maxlen {
            break;
        }
    }
}
