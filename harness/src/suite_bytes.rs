//! Suite `bytes`: the byte path of `Xot::parse_bytes` — `encoding::xml_declaration`,
//! `encoding::encoding(..).name()` and `encoding::decode` (through the `xot_verif` hooks) on encoded
//! renderings, declarations in every layout, byte-order-mark heads, truncations, mutations and
//! arbitrary bytes.  Requests `bytes decl|enc|decode b:<hex>`.
//! Oracle (implementation only): the decoded bytes of an encoded text ARE that text (C02), no hook
//! panics (C03).
use crate::build_gen::*;
use crate::build_render::*;
use crate::common::{enc, guarded, Rng, Sink};
use crate::suite_build::snippet_string;
use xot::verif_hooks as h;

/// Encodings whose decoder the model has; for the others the `decode` request is answered
/// `unmodelled <name>` on both sides (the model knows them by name only).
const MODELLED: &[&str] = &["UTF-8", "UTF-16LE", "UTF-16BE", "windows-1252", "replacement", "x-user-defined"];

pub fn hex_bytes(b: &[u8]) -> String {
    let mut s = String::with_capacity(2 + 2 * b.len());
    s.push_str("b:");
    for x in b {
        s.push_str(&format!("{:02x}", x));
    }
    s
}

fn utf16_units(text: &str, be: bool, bom: bool) -> Vec<u8> {
    let mut out: Vec<u8> = vec![];
    if bom {
        out.extend_from_slice(if be { &[0xfe, 0xff] } else { &[0xff, 0xfe] });
    }
    for u in text.encode_utf16() {
        out.extend_from_slice(&if be { u.to_be_bytes() } else { u.to_le_bytes() });
    }
    out
}

fn cp1252_byte(c: char) -> Option<u8> {
    const HIGH: &[(char, u8)] = &[('€', 0x80), ('‚', 0x82), ('ƒ', 0x83), ('„', 0x84), ('…', 0x85), ('†', 0x86), ('‡', 0x87), ('ˆ', 0x88), ('‰', 0x89), ('Š', 0x8a), ('‹', 0x8b), ('Œ', 0x8c), ('Ž', 0x8e), ('‘', 0x91), ('’', 0x92), ('“', 0x93), ('”', 0x94), ('•', 0x95), ('–', 0x96), ('—', 0x97), ('˜', 0x98), ('™', 0x99), ('š', 0x9a), ('›', 0x9b), ('œ', 0x9c), ('ž', 0x9e), ('Ÿ', 0x9f)];
    let v = c as u32;
    if v < 0x80 || (0xa0..=0xff).contains(&v) {
        Some(v as u8)
    } else {
        HIGH.iter().find(|e| e.0 == c).map(|e| e.1)
    }
}

fn len_class(n: usize) -> &'static str {
    match n {
        0..=3 => "0-3",
        4 => "4",
        5..=20 => "5-20",
        21..=100 => "21-100",
        101..=1023 => "101-1023",
        _ => "1024+",
    }
}

/// One byte string: the three requests, statistics, the oracle (`expect` = the text the bytes encode).
fn case(sink: &mut Sink, family: &str, bytes: &[u8], expect: Option<&str>) {
    let hx = hex_bytes(bytes);
    sink.stat(&format!("family.{}", family));
    sink.stat(&format!("len.{}", len_class(bytes.len())));
    let rep = [format!("bytes {}", hx)];
    let decl = guarded(|| h::xml_declaration_encoding(bytes));
    let name = guarded(|| h::encoding_name(bytes));
    let text = guarded(|| h::decode(bytes));
    let decl_resp = match &decl {
        None => "panic".to_string(),
        Some(None) => "none".to_string(),
        Some(Some(l)) => format!("some {}", enc(l)),
    };
    let name_resp = match &name {
        None => "panic".to_string(),
        Some(None) => "none".to_string(),
        Some(Some(n)) => format!("some {}", n),
    };
    // a byte order mark overrides the label (`Encoding::decode`), so the label's decoder is not needed
    let bom = bytes.starts_with(b"\xef\xbb\xbf") || bytes.starts_with(b"\xff\xfe") || bytes.starts_with(b"\xfe\xff");
    let modelled = bom || matches!(&name, Some(Some(n)) if MODELLED.contains(n)) || matches!(&name, Some(None));
    let text_resp = match &text {
        None => "panic".to_string(),
        Some(s) if modelled => format!("ok {}", enc(s)),
        Some(_) => format!("unmodelled {}", name.clone().flatten().unwrap_or("")),
    };
    sink.stat(&format!("decl.{}", if matches!(decl, Some(Some(_))) { "some" } else { "none" }));
    sink.stat(&format!("enc.{}", name_resp.replace(' ', "-")));
    if !modelled {
        sink.stat("decode.unmodelled");
    } else if let Some(s) = &text {
        sink.stat(if s.contains('\u{fffd}') { "decode.with-replacement-char" } else { "decode.clean" });
    }
    if decl.is_none() || name.is_none() || text.is_none() {
        sink.fail("C03", "C03:parse_bytes-decode-panics", "a hook of encoding.rs panicked", &rep);
    }
    if let (Some(want), Some(got)) = (expect, &text) {
        if want != got {
            sink.fail(
                "C02",
                &format!("C02:decode-{}-differs-from-the-text", family),
                "encoding::decode of the encoded text is not the text",
                &rep,
            );
        } else {
            sink.stat("oracle.decode-equals-text");
        }
    }
    sink.emit(format!("bytes decl {}", hx), decl_resp);
    sink.emit(format!("bytes enc {}", hx), name_resp);
    sink.emit(format!("bytes decode {}", hx), text_resp);
}

/// An encoded rendering, every kind of `build_bytes::bytes_case` plus UTF-16 without declaration:
/// (family, bytes, the text they must decode to — `None` when the encoding cannot hold the text).
fn encoded_rendering(rng: &mut Rng) -> (String, Vec<u8>, Option<String>) {
    let kind = rng.below(11);
    let (label, latin): (Option<&str>, bool) = match kind {
        0 | 8 | 9 | 10 => (None, false),
        1 => (Some(*rng.pick(&["UTF-8", "utf-8", "utf8", "UTF8"])), false),
        2 | 3 => (Some(*rng.pick(&["UTF-16", "utf-16"])), false),
        4 => (Some(*rng.pick(&["ISO-8859-1", "iso-8859-1", "latin1", "l1", "iso_8859-1"])), true),
        5 => (Some(*rng.pick(&["windows-1252", "cp1252", "x-cp1252"])), true),
        6 => (Some(*rng.pick(&["x-unknown-zz", "UTF-7", "EBCDIC-9", "utf8x"])), false),
        _ => (Some(*rng.pick(&["US-ASCII", "us-ascii", "ascii"])), true),
    };
    let mut cfg = RCfg::plain();
    cfg.latin1 = latin;
    cfg.decl_eq_space = rng.chance(1, 4);
    let r = render_document(rng, cfg, label);
    let mut text = r.text.clone();
    if kind == 5 {
        text = text.replacen('é', "€", 1).replacen('ß', "œ", 1);
    }
    if kind == 7 {
        text = text.chars().map(|c| if (c as u32) < 0x80 { c } else { 'e' }).collect();
    }
    if kind == 8 {
        let lab = *rng.pick(&["ISO-8859-1", "windows-1252", "latin1", "UTF-16", "utf-16le", "koi8-r"]);
        let q = *rng.pick(&["\"", "'"]);
        text = match rng.below(4) {
            0 => format!("<!-- encoding={}{}{} -->{}<!--é€-->", q, lab, q, text),
            1 => format!("<!--charset={}{}{}-->{}<!--é€-->", q, lab, q, text),
            2 => format!("<?target encoding={}{}{} é?>{}", q, lab, q, text),
            _ => format!("<!--<?xml version='1.0' encoding={}{}{}?>-->{}", q, lab, q, text),
        };
    }
    let lookalike = (kind == 4 || kind == 5) && rng.chance(1, 3);
    if lookalike {
        let mut t = String::new();
        for c in text.chars() {
            if (c as u32) < 0x80 {
                t.push(c);
            } else {
                t.push_str(*rng.pick(&["Ã©", "Â©", "Ã¤", "Â°"]));
                if kind == 5 && rng.chance(1, 3) {
                    t.push_str("â‚¬");
                }
            }
        }
        if !t.chars().any(|c| (c as u32) >= 0x80) {
            t = t.replacen("</", "Ã©</", 1);
        }
        text = t;
    }
    // (bytes, expected text)
    let strip = |t: &str| t.strip_prefix('\u{feff}').unwrap_or(t).to_string();
    let (name, bytes, expect): (&str, Vec<u8>, Option<String>) = match kind {
        0 => ("utf8-undeclared", text.as_bytes().to_vec(), Some(strip(&text))),
        8 => ("utf8-undeclared-with-encoding-bait", text.as_bytes().to_vec(), Some(strip(&text))),
        6 => ("unknown-label", text.as_bytes().to_vec(), Some(text.clone())),
        1 => {
            if rng.chance(1, 2) {
                let mut b = vec![0xef, 0xbb, 0xbf];
                b.extend_from_slice(text.as_bytes());
                ("utf8-declared-bom", b, Some(text.clone()))
            } else {
                ("utf8-declared", text.as_bytes().to_vec(), Some(text.clone()))
            }
        }
        2 => ("utf16le-bom-declared", utf16_units(&text, false, true), Some(text.clone())),
        3 => ("utf16be-bom-declared", utf16_units(&text, true, true), Some(text.clone())),
        9 => {
            let t = strip(&text);
            ("utf16le-bom-undeclared", utf16_units(&t, false, true), Some(t))
        }
        10 => {
            let t = strip(&text);
            ("utf16be-bom-undeclared", utf16_units(&t, true, true), Some(t))
        }
        _ => {
            let all = text.chars().all(|c| cp1252_byte(c).is_some());
            let b: Vec<u8> = text.chars().map(|c| cp1252_byte(c).unwrap_or(b'?')).collect();
            let n = match (kind, lookalike) {
                (4, false) => "iso-8859-1",
                (4, true) => "iso-8859-1-utf8-lookalike",
                (5, false) => "windows-1252",
                (5, true) => "windows-1252-utf8-lookalike",
                _ => "us-ascii",
            };
            (n, b, if all { Some(text.clone()) } else { None })
        }
    };
    (name.to_string(), bytes, expect)
}

const WS: &[&str] = &["", "", " ", " ", "  ", "\t", "\n", "\r\n", "\r", "\x0b", "\x0c", " \x0b "];

pub const LABELS: &[&str] = &[
    "UTF-8", "utf-8", "utf8", "UTF8", "UTF-16", "utf-16", "UTF-16LE", "utf-16le", "UTF-16BE", "utf-16be", "ISO-8859-1", "iso-8859-1",
    "latin1", "Latin1", "l1", "us-ascii", "US-ASCII", "ascii", "ASCII", "windows-1252", "cp1252", "x-cp1252", "unicode", "ucs-2",
    "unicodefffe", "unicodefeff", "unicode20utf8", "x-unicode20utf8", "unicode11utf8", "unicode-1-1-utf-8", "replacement",
    "iso-2022-kr", "hz-gb-2312", "x-user-defined", "koi8-r", "koi8-u", "shift-jis", "shift_jis", "Shift_JIS", "sjis", "big5", "gbk",
    "gb18030", "euc-jp", "euc-kr", "iso-2022-jp", "iso-8859-2", "iso-8859-15", "iso-8859-8-i", "windows-1251", "windows-874",
    "macintosh", "x-mac-cyrillic", "ibm866", "x-unknown-zz", "UTF-7", "EBCDIC-9", "utf8x", "", " utf-8", "utf-8 ", " UTF-8\t", "utf 8",
    "utf-8\x0b", "ebcdic", "ucs-4le", "ucs-4", "cseucpkdfmtjapanese", "cseucpkdfmtjapanesex", "csiso2022kr", "us-ascii8", "xutf8",
    "us-asciiutf8", "shift-jisx", "utf-16x", "utf-16 ", "İSO-8859-1", "utf-8é", "ansi_x3.4-1968", "iso_8859-1:1987", "u\u{0}tf-8", "=",
];

/// A declaration-like head with every choice drawn independently, followed by something.
fn decl_text(rng: &mut Rng) -> String {
    let mut s = String::new();
    if rng.chance(1, 10) {
        s.push('\u{feff}');
    }
    s.push_str(*rng.pick(&["<?xml", "<?xml", "<?xml", "<?xml", "<?xml", "<?XML", "<?xm", " <?xml", "<?xml-stylesheet", "<?xmlx"]));
    s.push_str(*rng.pick(&[" ", " ", " ", "\t", "\n", "\r", "\x0c", "\x0b", "", "  "]));
    for _ in 0..rng.below(5) {
        let name = *rng.pick(&["version", "encoding", "encoding", "encoding", "standalone", "Encoding", "encoding2", "enc oding", "", "x", "xencoding", "charset"]);
        s.push_str(name);
        s.push_str(*rng.pick(WS));
        if !rng.chance(1, 14) {
            s.push('=');
        }
        s.push_str(*rng.pick(WS));
        let q = *rng.pick(&["\"", "\"", "\"", "'", "'", "'", "", "`"]);
        s.push_str(q);
        if name.contains("ncoding") || name == "charset" || rng.chance(1, 6) {
            s.push_str(*rng.pick(LABELS));
        } else {
            s.push_str(*rng.pick(&["1.0", "1.1", "yes", "no", "a=b", "x'y", "x\"y", "?>", ">"]));
        }
        s.push_str(if rng.chance(1, 12) { *rng.pick(&["\"", "'", ""]) } else { q });
        s.push_str(*rng.pick(WS));
    }
    s.push_str(*rng.pick(&["?>", "?>", "?>", "?>", "?>", ">", "?", "", "? >", "?>?>"]));
    match rng.below(5) {
        0 => s.push_str("<a/>"),
        1 => s.push_str("<a>é€\u{1f600}</a>"),
        2 => s.push_str("<a encoding='latin1'>ä</a><?xml version='1.0' encoding='utf-16'?>"),
        3 => s.push_str(&snippet_string(rng)),
        _ => {}
    }
    s
}

fn encode_some_way(rng: &mut Rng, text: &str) -> (&'static str, Vec<u8>) {
    match rng.below(12) {
        0 => ("utf16le-bom", utf16_units(text, false, true)),
        1 => ("utf16be-bom", utf16_units(text, true, true)),
        2 => ("utf16le-nobom", utf16_units(text, false, false)),
        3 => ("utf16be-nobom", utf16_units(text, true, false)),
        4 => ("single-byte", text.chars().map(|c| cp1252_byte(c).unwrap_or(b'?')).collect()),
        5 => {
            // UCS-4 style: three zero bytes per character
            let be = rng.chance(1, 2);
            let mut b = vec![];
            for c in text.chars() {
                let v = (c as u32).to_be_bytes();
                if be {
                    b.extend_from_slice(&v);
                } else {
                    b.extend_from_slice(&[v[3], v[2], v[1], v[0]]);
                }
            }
            ("ucs4", b)
        }
        _ => ("utf8", text.as_bytes().to_vec()),
    }
}

/// A declaration whose end falls near the 1024-byte limit of `xml_declaration`.
fn long_declaration(rng: &mut Rng) -> (String, Vec<u8>, Option<String>) {
    let label = *rng.pick(&["UTF-8", "ISO-8859-1", "windows-1252", "UTF-16", "us-ascii"]);
    let utf16 = label == "UTF-16";
    let be = rng.chance(1, 2);
    let bom = utf16 && rng.chance(2, 3);
    let tail = if label == "UTF-8" || utf16 { "<a>é€</a>" } else { "<a>é</a>" };
    // the declaration is `<?xml version="1.0"` + pad + ` encoding="L"?>`; choose pad so that the final
    // `>` lands at byte offset 1016..1032
    let fixed = format!("<?xml version=\"1.0\" encoding=\"{}\"?>", label).len();
    let per = if utf16 { 2 } else { 1 };
    let lead = if bom { 2 } else { 0 };
    let target = 1016 + rng.below(17);
    let pad = (target.saturating_sub(lead) / per).saturating_sub(fixed);
    let before = rng.chance(1, 2);
    let padding: String = (0..pad).map(|_| *rng.pick(&[' ', ' ', '\t', '\n'])).collect();
    let text = if before {
        format!("<?xml version=\"1.0\"{} encoding=\"{}\"?>{}", padding, label, tail)
    } else {
        format!("<?xml version=\"1.0\" encoding=\"{}\"{}?>{}", label, padding, tail)
    };
    let bytes = if utf16 {
        utf16_units(&text, be, bom)
    } else if label == "UTF-8" {
        text.as_bytes().to_vec()
    } else {
        text.chars().map(|c| cp1252_byte(c).unwrap()).collect()
    };
    // the text must come back whatever the length of the declaration (/repo c3fcdf4: no 1024-byte limit)
    let end = lead + per * (text.find("?>").unwrap() + 2);
    let expect = Some(text.clone());
    (format!("long-declaration-{}", if end <= 1024 { "within-1024" } else { "beyond-1024" }), bytes, expect)
}

const HEAD_BYTES: &[u8] = &[0x00, 0x3c, 0x3f, 0x78, 0x6d, 0xfe, 0xff, 0xef, 0xbb, 0xbf, 0x4c, 0x6f, 0xa7, 0x94, 0x41, 0x80, 0x20, 0x6c];

fn head_bytes(rng: &mut Rng) -> Vec<u8> {
    let n = rng.below(9);
    let mut b: Vec<u8> = (0..n).map(|_| if rng.chance(1, 8) { (rng.next() & 0xff) as u8 } else { *rng.pick(HEAD_BYTES) }).collect();
    if rng.chance(1, 2) {
        // one of the rows of detect_byte_order_mark in front
        let row: &[u8] = *rng.pick(&[
            &[0x00, 0x00, 0xfe, 0xff][..], &[0xff, 0xfe, 0x00, 0x00], &[0x00, 0x00, 0xff, 0xfe], &[0xfe, 0xff, 0x00, 0x00], &[0xfe, 0xff, 0x00, 0x41],
            &[0xff, 0xfe, 0x41, 0x00], &[0xef, 0xbb, 0xbf, 0x41], &[0x00, 0x00, 0x00, 0x3c], &[0x3c, 0x00, 0x00, 0x00], &[0x00, 0x00, 0x3c, 0x00],
            &[0x00, 0x3c, 0x00, 0x00], &[0x00, 0x3c, 0x00, 0x3f], &[0x3c, 0x00, 0x3f, 0x00], &[0x3c, 0x3f, 0x78, 0x6d], &[0x4c, 0x6f, 0xa7, 0x94],
        ]);
        let mut v = row.to_vec();
        v.append(&mut b);
        b = v;
    }
    b
}

/// Ill-formed UTF-8: every kind of maximal ill-formed subpart next to well-formed sequences.
fn utf8_soup(rng: &mut Rng) -> Vec<u8> {
    const UNITS: &[&[u8]] = &[
        b"a", b"<", b">", b"\x7f", b"\xc2\x80", b"\xdf\xbf", b"\xe0\xa0\x80", b"\xed\x9f\xbf", b"\xee\x80\x80", b"\xef\xbf\xbd", b"\xef\xbb\xbf",
        b"\xf0\x90\x80\x80", b"\xf4\x8f\xbf\xbf", b"\xf1\x80\x80\x80", b"\x80", b"\xbf", b"\xc0", b"\xc1", b"\xc0\xaf", b"\xc2", b"\xdf", b"\xe0",
        b"\xe0\x80", b"\xe0\x9f\x80", b"\xe0\xa0", b"\xed\xa0\x80", b"\xed\xa0", b"\xed\x9f", b"\xef", b"\xef\xbf", b"\xf0", b"\xf0\x8f", b"\xf0\x90",
        b"\xf0\x90\x80", b"\xf4\x90", b"\xf4\x8f", b"\xf4\x8f\xbf", b"\xf5", b"\xf8\x88\x80\x80\x80", b"\xfe", b"\xff", b"\xe2\x82", b"\xe2\x82\xac",
    ];
    let mut b: Vec<u8> = vec![];
    match rng.below(4) {
        0 => b.extend_from_slice(b"\xef\xbb\xbf"),
        1 => b.extend_from_slice(b"<?xml version='1.0' encoding='utf-8'?>"),
        _ => {}
    }
    for _ in 0..1 + rng.below(10) {
        b.extend_from_slice(*rng.pick(UNITS));
    }
    b
}

/// UTF-16 code units with lone / swapped surrogates and an optional odd byte at the end.
fn utf16_soup(rng: &mut Rng) -> Vec<u8> {
    const UNITS: &[u16] = &[0x41, 0x3c, 0x3e, 0xe9, 0x20ac, 0xd800, 0xdbff, 0xdc00, 0xdfff, 0xd83d, 0xde00, 0xfeff, 0xfffe, 0xffff, 0xe000, 0xd7ff, 0x0];
    let be = rng.chance(1, 2);
    let mut b: Vec<u8> = vec![];
    match rng.below(4) {
        0 => {}
        1 => b.extend_from_slice(&utf16_units("<?xml version='1.0' encoding='UTF-16'?>", be, false)),
        _ => b.extend_from_slice(if be { &[0xfe, 0xff] } else { &[0xff, 0xfe] }),
    }
    for _ in 0..rng.below(9) {
        let u = *rng.pick(UNITS);
        b.extend_from_slice(&if be { u.to_be_bytes() } else { u.to_le_bytes() });
    }
    if rng.chance(1, 3) {
        b.push(*rng.pick(&[0x41u8, 0xd8, 0xdc, 0x00, 0xff]));
    }
    b
}

fn mutate(rng: &mut Rng, bytes: &mut Vec<u8>) {
    for _ in 0..1 + rng.below(3) {
        let near = if rng.chance(1, 2) { bytes.len().min(64) } else { bytes.len() };
        let v = if rng.chance(1, 2) { *rng.pick(HEAD_BYTES) } else { (rng.next() & 0xff) as u8 };
        match rng.below(3) {
            0 if !bytes.is_empty() => {
                let i = rng.below(near);
                bytes[i] = v;
            }
            1 if !bytes.is_empty() => {
                let i = rng.below(near);
                bytes.remove(i);
            }
            _ => {
                let i = rng.below(near + 1);
                bytes.insert(i, v);
            }
        }
    }
}

fn declared_all_bytes(label: &str) -> Vec<u8> {
    let mut b = format!("<?xml version='1.0' encoding='{}'?>", label).into_bytes();
    b.extend(0u8..=255);
    b
}

fn corpus(sink: &mut Sink) {
    for b in [&b""[..], b"<", b"<a", b"<a>", b"<a/>", b"<a/> ", b"\xef\xbb\xbf", b"\xef\xbb\xbf<a/>", b"\xff\xfe", b"\xfe\xff", b"\xff\xfe<\0", b"\xff\xfe<\0a\0/\0>\0",
        b"\xfe\xff\0<\0a\0/\0>", b"\0\0\xfe\xff\0\0\0<", b"\xff\xfe\0\0<\0\0\0", b"Lo\xa7\x94\x01", b"<?xm", b"<?xml", b"<?xml?>", b"<?xml ?>", b"<?xml encoding='latin1'?>",
        b"<?xml\x0bencoding='latin1'?>", b"<?xml\x0cencoding='latin1'?>", b"<?xml encoding\x0b=\x0b'latin1'?>\xe9", b"<?xml version='1.0' encoding='utf-16'?><a/>",
        b"<\0?\0x\0m\0l\0 \0e\0n\0c\0o\0d\0i\0n\0g\0=\0'\0u\0t\0f\0-\x001\x006\0'\0?\0>\0<\0a\0/\0>\0",
        b"\0<\0?\0x\0m\0l\0 \0e\0n\0c\0o\0d\0i\0n\0g\0=\0'\0u\0t\0f\0-\x001\x006\0'\0?\0>\0<\0a\0/\0>"]
    {
        case(sink, "corpus", b, None);
    }
    // once findings, now positive cases: a leading PI whose target is not ASCII (/repo 41ece46), a
    // declaration that ends beyond byte 1024 (/repo c3fcdf4), a non-ASCII byte inside a declaration
    for t in ["<?éxml encoding=\"latin1\"?><a>é</a>", "<?xmlé encoding=\"utf-16\"?><a>é</a>", "\u{feff}<?xéml encoding='koi8-r'?><a>é</a>"] {
        case(sink, "corpus-pi-target-lookalike", t.as_bytes(), Some(t.strip_prefix('\u{feff}').unwrap_or(t)));
    }
    {
        let text = format!("<?xml version=\"1.0\"{} encoding=\"ISO-8859-1\"?><a>é</a>", " ".repeat(1100));
        let b: Vec<u8> = text.chars().map(|c| cp1252_byte(c).unwrap()).collect();
        case(sink, "corpus-long-declaration", &b, Some(&text));
        let text = format!("<?xml version=\"1.0\"{} encoding=\"UTF-16\"?><a>é€</a>", "\n".repeat(600));
        case(sink, "corpus-long-declaration", &utf16_units(&text, true, false), Some(&text));
        case(sink, "corpus-long-declaration", &utf16_units(&text, false, false), Some(&text));
    }
    for b in [&b"<?xml version='1.0' encoding='lat\xe9in1'?><a/>"[..], b"\xff\xfe\0\0<\0\0\0?\0\0\0x\0\0\0m\0\0\0l\0\0\0 \0\0\0e\0\0\0n\0\0\0c\0\0\0o\0\0\0d\0\0\0i\0\0\0n\0\0\0g\0\0\0=\0\0\0'\0\0\0x\0\0\0'\0\0\0?\0\0\0>\0\0\0",
        b"\0\0\xfe\xff\0\0\0<\0\0\0?\0\0\0x\0\0\0m\0\0\0l\0\0\0 \0\0\0e\0\0\0n\0\0\0c\0\0\0o\0\0\0d\0\0\0i\0\0\0n\0\0\0g\0\0\0=\0\0\0'\0\0\0x\0\0\0'\0\0\0?\0\0\0>",
        b"\0\0\xff\xfe<?xml encoding='x'?>", b"\xfe\xff\xef\xbb\xbf<?xml encoding='x'?>", b"\xef\xbb\xbf\xff\xfe<?xml encoding='x'?>", b"\xef\xbb<?xml encoding='x'?>", b"\0\xef\xbb\xbf<?xml encoding='x'?>"]
    {
        case(sink, "corpus-bom-and-declaration", b, None);
    }
    for l in ["windows-1252", "iso-8859-1", "x-user-defined", "replacement", "utf-8", "utf-16le", "utf-16be", "koi8-r"] {
        case(sink, "corpus-all-bytes", &declared_all_bytes(l), None);
    }
    // every label, declared in front of a short non-ASCII body
    for l in LABELS {
        let mut b = format!("<?xml version=\"1.0\" encoding=\"{}\"?><a>", l).into_bytes();
        b.extend_from_slice(b"\xc3\xa9\x80</a>");
        case(sink, "corpus-label", &b, None);
    }
}

pub fn run(seed: u64, count: usize, tier: &str, sink: &mut Sink) {
    let mut rng = Rng::new(seed ^ 0xB17E5);
    if let Ok(inp) = std::env::var("BYTES_INPUT") {
        // replay: `BYTES_INPUT=3c612f3e,fffe xotharness bytes 1 0 quick`
        for one in inp.split(',') {
            let b: Vec<u8> = (0..one.len() / 2).filter_map(|i| u8::from_str_radix(&one[2 * i..2 * i + 2], 16).ok()).collect();
            case(sink, "replay", &b, None);
        }
        return;
    }
    corpus(sink);
    if tier == "thorough" {
        // every four-byte head over the bytes the detector's table mentions, alone and with a tail
        const A: &[u8] = &[0x00, 0x3c, 0x3f, 0x78, 0x6d, 0xfe, 0xff, 0xef, 0xbb, 0xbf, 0x41];
        for a in A {
            for b in A {
                for c in A {
                    for d in A {
                        let hx4 = [*a, *b, *c, *d];
                        let hx = hex_bytes(&hx4);
                        let name = |bs: &[u8]| match guarded(|| h::encoding_name(bs)) {
                            None => "panic".to_string(),
                            Some(None) => "none".to_string(),
                            Some(Some(n)) => format!("some {}", n),
                        };
                        sink.emit(format!("bytes enc {}", hx), name(&hx4));
                        let t = [*a, *b, *c, *d, 0x3c, 0x00];
                        sink.emit(format!("bytes enc {}", hex_bytes(&t)), name(&t));
                        sink.stat("family.exhaustive-heads");
                    }
                }
            }
        }
    }
    for _ in 0..count {
        match rng.below(20) {
            0..=6 => {
                let (name, bytes, expect) = encoded_rendering(&mut rng);
                case(sink, &name, &bytes, expect.as_deref());
            }
            7 | 8 => {
                // UTF-16 without byte order mark: recognised by the `<?` pattern when there is a declaration
                let be = rng.chance(1, 2);
                let label = *rng.pick(&[Some("UTF-16"), Some("utf-16"), Some("UTF-16LE"), Some("UTF-16BE"), None]);
                let mut cfg = RCfg::plain();
                cfg.decl_eq_space = rng.chance(1, 4);
                let r = render_document(&mut rng, cfg, label);
                let text = r.text.strip_prefix('\u{feff}').unwrap_or(&r.text).to_string();
                let bytes = utf16_units(&text, be, false);
                // the declaration says UTF-16 and the `<?` pattern gives the byte order; a label with an
                // explicit byte order wins over the pattern
                let ok = match label {
                    Some("UTF-16") | Some("utf-16") => text.starts_with("<?xml"),
                    Some("UTF-16LE") => !be,
                    Some("UTF-16BE") => be,
                    _ => false,
                };
                case(sink, if label.is_some() { "utf16-nobom-declared" } else { "utf16-nobom-undeclared" }, &bytes, if ok { Some(&text) } else { None });
            }
            9 => {
                let (name, bytes, expect) = long_declaration(&mut rng);
                case(sink, &name, &bytes, expect.as_deref());
            }
            10..=13 => {
                let t = decl_text(&mut rng);
                let (how, mut bytes) = encode_some_way(&mut rng, &t);
                if rng.chance(1, 10) {
                    let i = rng.below(bytes.len() + 1);
                    bytes.insert(i, 0);
                }
                case(sink, &format!("declaration-fuzz-{}", how), &bytes, None);
            }
            14 => {
                let (_, bytes, _) = encoded_rendering(&mut rng);
                let n = if rng.chance(1, 2) { rng.below(bytes.len().min(80) + 1) } else { rng.below(bytes.len() + 1) };
                case(sink, "truncation", &bytes[..n], None);
            }
            15 if rng.chance(1, 4) => {
                // a UTF-8 document WITHOUT declaration that starts with a processing instruction whose
                // target has a non-ASCII character: the ASCII bytes alone read `<?xml encoding=…?>`; a
                // non-ASCII byte before the first `>` means "no declaration" (/repo 41ece46): UTF-8
                let target = *rng.pick(&["éxml", "xmlé", "xéml", "x\u{3b1}ml", "xml\u{b7}"]);
                let label = *rng.pick(&["latin1", "windows-1252", "utf-16", "koi8-r", "utf-8", "x-unknown-zz"]);
                let text = format!("<?{} encoding=\"{}\"?><a>é</a>", target, label);
                case(sink, "pi-target-lookalike", text.as_bytes(), Some(&text));
            }
            15 => case(sink, "head-bytes", &head_bytes(&mut rng), None),
            16 => {
                let mut bytes = if rng.chance(1, 2) { encoded_rendering(&mut rng).1 } else { let t = decl_text(&mut rng); encode_some_way(&mut rng, &t).1 };
                mutate(&mut rng, &mut bytes);
                case(sink, "mutation", &bytes, None);
            }
            17 => case(sink, "utf8-soup", &utf8_soup(&mut rng), None),
            18 => case(sink, "utf16-soup", &utf16_soup(&mut rng), None),
            _ => {
                let n = rng.below(40);
                let bytes: Vec<u8> = (0..n).map(|_| (rng.next() & 0xff) as u8).collect();
                case(sink, "random-bytes", &bytes, None);
            }
        }
    }
}
