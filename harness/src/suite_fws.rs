//! Suite `fws` (C18): whitespace stripping on generated trees, through the `forest` session
//! protocol (so the Lean model of `suite_forest` answers the same requests).
//!
//! ORACLE (implementation only, independent of the model): the expected tree is computed from the
//! generated `GTree` by the rule of the property — a text node goes iff it consists only of XML
//! whitespace (space, tab, CR, LF), has no sibling text node with other content, and the innermost
//! `xml:space` attribute (name id 0) on an ancestor element is not "preserve" — and compared with
//! the tree read back; the removed labels must be exactly the labels of the deleted nodes; a
//! bystander tree must be unchanged; a second application must change nothing. A mismatch is
//! classified by re-running the rule with one clause changed (narrow signatures).
use crate::common::{Rng, Sink};
use crate::suite_forest::{build_ops, Session};
use crate::tree::*;

const XML_SPACE: usize = 0; // name id 0 = xml:space (Vocab::standard)

// -------------------------------------------------------------------------------------------
// The rule of the property, parameterised so that a mismatch can be classified.

#[derive(Clone, Copy, PartialEq, Eq, Debug)]
enum Ws {
    Xml,     // space, tab, CR, LF (the property)
    Unicode, // char::is_whitespace
}

#[derive(Clone, Copy, PartialEq, Eq, Debug)]
enum Scope {
    Innermost,     // the innermost xml:space decides (the property)
    Ignored,       // xml:space has no effect
    AnyPreserve,   // any ancestor with preserve protects (default does not reset)
    NonDefault,    // every value other than "default" protects
}

#[derive(Clone, Copy, PartialEq, Eq, Debug)]
enum Sib {
    AllSiblings, // any sibling text with other content protects (the property)
    Adjacent,    // only the directly adjacent siblings are looked at
    Ignored,     // siblings are not looked at
}

#[derive(Clone, Copy, PartialEq, Eq, Debug)]
struct Rule {
    ws: Ws,
    scope: Scope,
    sib: Sib,
}

const PROPERTY: Rule = Rule { ws: Ws::Xml, scope: Scope::Innermost, sib: Sib::AllSiblings };

fn all_ws(rule: Rule, s: &str) -> bool {
    match rule.ws {
        Ws::Xml => s.chars().all(|c| c == ' ' || c == '\t' || c == '\r' || c == '\n'),
        Ws::Unicode => s.chars().all(|c| c.is_whitespace()),
    }
}

fn text_of(t: &GTree) -> Option<&str> {
    match &t.v {
        GValue::Text(s) => Some(s),
        _ => None,
    }
}

fn space_attr(t: &GTree) -> Option<&str> {
    t.kids.iter().find_map(|k| match &k.v {
        GValue::Attribute(n, v) if *n == XML_SPACE => Some(v.as_str()),
        _ => None,
    })
}

fn scope_in(rule: Rule, outer: bool, t: &GTree) -> bool {
    match rule.scope {
        Scope::Ignored => false,
        Scope::Innermost => match space_attr(t) {
            Some(v) => v == "preserve",
            None => outer,
        },
        Scope::AnyPreserve => outer || space_attr(t) == Some("preserve"),
        Scope::NonDefault => match space_attr(t) {
            Some(v) => v != "default",
            None => outer,
        },
    }
}

/// Is child `i` of `kids` deleted (scope of the parent: `inner`)?
fn deleted(rule: Rule, inner: bool, kids: &[GTree], i: usize) -> bool {
    let s = match text_of(&kids[i]) {
        Some(s) => s,
        None => return false,
    };
    if inner || !all_ws(rule, s) {
        return false;
    }
    let other = |k: &GTree| text_of(k).map(|s| !all_ws(rule, s)).unwrap_or(false);
    match rule.sib {
        Sib::Ignored => true,
        Sib::AllSiblings => !kids.iter().enumerate().any(|(j, k)| j != i && other(k)),
        Sib::Adjacent => !((i > 0 && other(&kids[i - 1])) || (i + 1 < kids.len() && other(&kids[i + 1]))),
    }
}

/// Strip below `t` (which sits in scope `outer`); `path` is `t`'s path, deleted paths are recorded.
fn strip(rule: Rule, outer: bool, t: &GTree, path: &mut Vec<usize>, gone: &mut Vec<Vec<usize>>) -> GTree {
    let inner = scope_in(rule, outer, t);
    let mut kids = vec![];
    for i in 0..t.kids.len() {
        path.push(i);
        if deleted(rule, inner, &t.kids, i) {
            gone.push(path.clone());
        } else {
            kids.push(strip(rule, inner, &t.kids[i], path, gone));
        }
        path.pop();
    }
    GTree::new(t.v.clone(), kids)
}

/// The whole tree after stripping at `start` (`None`: the root itself is deleted), and the
/// deleted paths.
fn expected(rule: Rule, root: &GTree, start: &[usize]) -> (Option<GTree>, Vec<Vec<usize>>) {
    fn go(rule: Rule, outer: bool, t: &GTree, rest: &[usize], path: &mut Vec<usize>, gone: &mut Vec<Vec<usize>>) -> GTree {
        // `t` is a proper ancestor of the start node
        let inner = scope_in(rule, outer, t);
        let i = rest[0];
        let mut kids = vec![];
        for (j, k) in t.kids.iter().enumerate() {
            if j != i {
                kids.push(k.clone());
                continue;
            }
            path.push(i);
            if rest.len() == 1 {
                if deleted(rule, inner, &t.kids, i) {
                    gone.push(path.clone());
                } else {
                    kids.push(strip(rule, inner, k, path, gone));
                }
            } else {
                kids.push(go(rule, inner, k, &rest[1..], path, gone));
            }
            path.pop();
        }
        GTree::new(t.v.clone(), kids)
    }
    let mut gone = vec![];
    let mut path = vec![];
    if start.is_empty() {
        // a parentless start node has no siblings and no ancestors
        let single = [root.clone()];
        if deleted(rule, false, &single, 0) {
            return (None, vec![vec![]]);
        }
        let t = strip(rule, false, root, &mut path, &mut gone);
        return (Some(t), gone);
    }
    let t = go(rule, false, root, start, &mut path, &mut gone);
    (Some(t), gone)
}

// -------------------------------------------------------------------------------------------
// Generators

/// The whitespace-like characters of the property: four XML ones, then Unicode spaces that are
/// not XML whitespace.
pub const WS_LIKE: &[char] = &[
    ' ', '\t', '\r', '\n', '\u{a0}', '\u{2003}', '\u{3000}', '\u{2028}', '\u{85}', '\u{1680}',
    // characters whose code point ENDS in the byte of an XML whitespace character (a narrowing cast or a
    // byte-wise test takes them for one: seed C18f): U+0420, U+0120, U+2020, U+0409, U+2009, U+040A,
    // U+200A, U+010D, U+200D
    '\u{420}', '\u{120}', '\u{2020}', '\u{409}', '\u{2009}', '\u{40a}', '\u{200a}', '\u{10d}', '\u{200d}',
    // ASCII / Unicode "whitespace" of Rust's char predicates that XML does not count (seed C18l:
    // `is_ascii_whitespace` accepts the form feed): U+000C, U+000B, U+001F
    '\u{c}', '\u{b}', '\u{1f}',
];

const SPACE_VALUES: &[&str] = &["preserve", "default", "other", "", "Preserve", " preserve", "preserve ", "PRESERVE"];

fn gen_ws_text(rng: &mut Rng) -> String {
    let n = 1 + rng.below(3);
    (0..n).map(|_| *rng.pick(&WS_LIKE[..4])).collect()
}

fn gen_text(rng: &mut Rng) -> String {
    match rng.below(12) {
        0..=4 => gen_ws_text(rng),
        5 | 6 => rng.pick(&["x", "ab", " x", "x ", " x ", "\n-\n", "\u{a0}x"]).to_string(),
        7 => {
            // only non-XML Unicode spaces
            let n = 1 + rng.below(2);
            (0..n).map(|_| *rng.pick(&WS_LIKE[4..])).collect()
        }
        8 => {
            // XML whitespace mixed with a non-XML space
            let mut s = gen_ws_text(rng);
            let c = *rng.pick(&WS_LIKE[4..]);
            let at = rng.below(s.chars().count() + 1);
            let mut out: String = s.chars().take(at).collect();
            out.push(c);
            out.extend(s.chars().skip(at));
            s = out;
            s
        }
        9 => String::new(),
        _ => rng.pick(&["y", "z"]).to_string(),
    }
}

struct Cfg {
    max_depth: usize,
    max_kids: usize,
    adjacent_text: bool,
}

fn gen_elem(rng: &mut Rng, cfg: &Cfg, depth: usize) -> GTree {
    let mut kids = vec![];
    if rng.chance(1, 6) {
        kids.push(GTree::leaf(GValue::Namespace(2, NS_A)));
    }
    // a decoy attribute that is not xml:space, possibly with the value "preserve"
    let decoy = rng.chance(1, 5);
    let space = rng.chance(2, 5);
    let mut attrs = vec![];
    if decoy {
        attrs.push(GTree::leaf(GValue::Attribute(*rng.pick(&[2usize, 3, 15]), rng.pick(&["preserve", "default", "v"]).to_string())));
    }
    if space {
        let v = if rng.chance(3, 4) { *rng.pick(&SPACE_VALUES[..3]) } else { *rng.pick(SPACE_VALUES) };
        let a = GTree::leaf(GValue::Attribute(XML_SPACE, v.to_string()));
        if rng.chance(1, 2) { attrs.insert(0, a) } else { attrs.push(a) }
    }
    kids.extend(attrs);
    if depth < cfg.max_depth {
        let n = rng.below(cfg.max_kids + 1);
        let mut last_text = false;
        for _ in 0..n {
            let k = match rng.below(10) {
                0..=4 => GTree::leaf(GValue::Text(gen_text(rng))),
                5..=7 => gen_elem(rng, cfg, depth + 1),
                8 => GTree::leaf(GValue::Comment("c".into())),
                _ => GTree::leaf(GValue::PI(17, None)),
            };
            let is_text = matches!(k.v, GValue::Text(_));
            if is_text && last_text && !cfg.adjacent_text {
                continue;
            }
            last_text = is_text;
            kids.push(k);
        }
    }
    GTree::new(GValue::Element(*rng.pick(&[2usize, 3, 4, 5])), kids)
}

fn gen_root(rng: &mut Rng, cfg: &Cfg) -> GTree {
    match rng.below(10) {
        0 | 1 => {
            // document / fragment
            let mut kids = vec![];
            let n = rng.below(4);
            let mut last_text = false;
            for _ in 0..n {
                let k = match rng.below(4) {
                    0 | 1 => gen_elem(rng, cfg, 1),
                    2 => GTree::leaf(GValue::Text(gen_text(rng))),
                    _ => GTree::leaf(GValue::Comment("c".into())),
                };
                let is_text = matches!(k.v, GValue::Text(_));
                if is_text && last_text && !cfg.adjacent_text {
                    continue;
                }
                last_text = is_text;
                kids.push(k);
            }
            GTree::new(GValue::Document, kids)
        }
        2 => GTree::leaf(GValue::Text(gen_text(rng))), // a parentless text node
        _ => gen_elem(rng, cfg, 0),
    }
}

// -------------------------------------------------------------------------------------------
// One case

/// Build `t` recording the label of every path (creation + `any_append`, like `build_ops`).
fn build_labelled(s: &mut Session, sink: &mut Sink, t: &GTree, path: &mut Vec<usize>, labels: &mut Vec<(Vec<usize>, usize)>) -> usize {
    let r = s.exec(sink, &format!("new {}", GTree::leaf(t.v.clone()).wire()));
    let me: usize = r[3..].parse().unwrap();
    labels.push((path.clone(), me));
    for (i, k) in t.kids.iter().enumerate() {
        path.push(i);
        let kl = build_labelled(s, sink, k, path, labels);
        path.pop();
        s.exec(sink, &format!("any_append {} {}", me, kl));
    }
    me
}

fn has_adjacent_text(t: &GTree) -> bool {
    t.kids.windows(2).any(|w| text_of(&w[0]).is_some() && text_of(&w[1]).is_some()) || t.kids.iter().any(has_adjacent_text)
}

/// The start node is a text node with a text node directly on both sides.
fn start_between_texts(root: &GTree, start: &[usize]) -> bool {
    if start.is_empty() {
        return false;
    }
    let (last, up) = start.split_last().unwrap();
    let p = root.at(up).unwrap();
    text_of(&p.kids[*last]).is_some()
        && *last > 0
        && *last + 1 < p.kids.len()
        && text_of(&p.kids[*last - 1]).is_some()
        && text_of(&p.kids[*last + 1]).is_some()
}

fn classify(root: &GTree, start: &[usize], actual: &Option<GTree>, cons_on: bool, adjacent: bool) -> String {
    let variants: &[(&str, Rule)] = &[
        ("unicode-whitespace-stripped", Rule { ws: Ws::Unicode, ..PROPERTY }),
        ("xml-space-ignored", Rule { scope: Scope::Ignored, ..PROPERTY }),
        ("xml-space-default-does-not-reset-preserve", Rule { scope: Scope::AnyPreserve, ..PROPERTY }),
        ("xml-space-other-value-treated-as-preserve", Rule { scope: Scope::NonDefault, ..PROPERTY }),
        ("sibling-look-around-only-adjacent", Rule { sib: Sib::Adjacent, ..PROPERTY }),
        ("sibling-text-ignored", Rule { sib: Sib::Ignored, ..PROPERTY }),
        ("unicode-whitespace-stripped+sibling-look-around-only-adjacent", Rule { ws: Ws::Unicode, sib: Sib::Adjacent, ..PROPERTY }),
    ];
    for (name, rule) in variants {
        if &expected(*rule, root, start).0 == actual {
            return format!("C18:{}", name);
        }
    }
    if adjacent && cons_on && start_between_texts(root, start) {
        return "C18:text-start-node-between-adjacent-text-nodes-merges-its-neighbours".into();
    }
    let count = |t: &Option<GTree>| t.as_ref().map(|t| t.size()).unwrap_or(0);
    let exp = expected(PROPERTY, root, start).0;
    let kind = if count(actual) < count(&exp) {
        "removed-too-much"
    } else if count(actual) > count(&exp) {
        "removed-too-little"
    } else {
        "same-size-different-tree"
    };
    format!("C18:result-differs:{}{}", kind, if adjacent { ":adjacent-text" } else { "" })
}

/// mode: 0 = consolidation never off; 1 = built with consolidation off, switched on again;
/// 2 = consolidation stays off.
fn one_case(sink: &mut Sink, root: &GTree, start: &[usize], bystander: Option<&GTree>, mode: usize) {
    let mut s = Session::new();
    s.exec(sink, "reset");
    if mode != 0 {
        s.exec(sink, "cons 0");
    }
    let by_label = bystander.map(|b| build_ops(&mut s, sink, b));
    let mut labels = vec![];
    let root_label = build_labelled(&mut s, sink, root, &mut vec![], &mut labels);
    if mode == 1 {
        s.exec(sink, "cons 1");
    }
    let label_of = |p: &[usize]| labels.iter().find(|(q, _)| q.as_slice() == p).map(|(_, l)| *l).unwrap();
    // the tree must have been built as generated (no consolidation happened while building)
    let built = read_tree(&s.xot, &mut s.vocab, s.nodes[root_label]);
    if &built != root {
        sink.stat("fws.build-differs-from-generated");
        return;
    }
    let adjacent = has_adjacent_text(root);
    sink.stat(if adjacent { "fws.tree.adjacent-text" } else { "fws.tree.no-adjacent-text" });
    let by_before = by_label.map(|l| read_tree(&s.xot, &mut s.vocab, s.nodes[l]));
    s.exec(sink, "dump");
    let start_label = label_of(start);
    let (exp, gone) = expected(PROPERTY, root, start);
    sink.stat(&format!("fws.start.{}", match &root.at(start).unwrap().v {
        GValue::Text(_) => "text",
        GValue::Element(_) => "element",
        GValue::Document => "document",
        GValue::Attribute(..) => "attribute",
        _ => "other",
    }));
    sink.stat(&format!("fws.deleted.{}", gone.len().min(6)));
    let resp = s.exec(sink, &format!("strip_ws {}", start_label));
    if resp != "ok" {
        sink.fail("C18", "C18:strip-panics", &format!("remove_insignificant_whitespace answered {}", resp), &s.history);
        return;
    }
    let after = s.exec(sink, "dump");
    let removed = s.exec(sink, "removed");
    s.exec(sink, "inv");
    // 1. the resulting tree
    let root_node = s.nodes[root_label];
    let actual = if s.xot.is_removed(root_node) { None } else { Some(read_tree(&s.xot, &mut s.vocab, root_node)) };
    if actual != exp {
        let sig = classify(root, start, &actual, mode != 2, adjacent);
        let show = |t: &Option<GTree>| t.as_ref().map(|t| t.wire()).unwrap_or("(deleted)".into());
        sink.fail("C18", &sig, &format!("strip at path {} of {}: got {} expected {}", path_str(start), root.wire(), show(&actual), show(&exp)), &s.history);
        return;
    }
    // 2. exactly the deleted nodes are gone (the handles of all others stay valid)
    let mut want: Vec<usize> = gone.iter().map(|p| label_of(p)).collect();
    want.sort();
    let want_s = want.iter().map(|l| l.to_string()).collect::<Vec<_>>().join(" ");
    if removed != want_s {
        sink.fail("C18", "C18:removed-handles-differ", &format!("removed labels `{}` expected `{}`", removed, want_s), &s.history);
        return;
    }
    // every surviving node is still the node at its path (identity, not just equal content)
    for (p, l) in &labels {
        if gone.contains(p) {
            continue;
        }
        if s.xot.is_removed(s.nodes[*l]) {
            sink.fail("C18", "C18:surviving-node-removed", &format!("node at path {} was removed", path_str(p)), &s.history);
            return;
        }
    }
    // 3. the bystander is untouched
    if let (Some(l), Some(before)) = (by_label, by_before) {
        let now = read_tree(&s.xot, &mut s.vocab, s.nodes[l]);
        if now != before {
            sink.fail("C18", "C18:other-tree-changed", "a tree that does not hold the start node changed", &s.history);
            return;
        }
    }
    // 4. a second application changes nothing
    if !s.xot.is_removed(s.nodes[start_label]) {
        s.exec(sink, &format!("strip_ws {}", start_label));
        let again = s.exec(sink, "dump");
        if again != after {
            sink.fail("C18", &format!("C18:second-application-changes{}", if adjacent { ":adjacent-text" } else { "" }), "the second application changed the forest", &s.history);
        }
    }
}

// -------------------------------------------------------------------------------------------
// Exhaustive small scope

#[derive(Clone, Copy, PartialEq, Eq)]
enum Kid {
    Ws,
    Other,
    Elem,
    Comment,
}

fn arrangements(max: usize, adjacent_text: bool) -> Vec<Vec<Kid>> {
    let mut out: Vec<Vec<Kid>> = vec![vec![]];
    let mut frontier: Vec<Vec<Kid>> = vec![vec![]];
    for _ in 0..max {
        let mut next = vec![];
        for a in &frontier {
            for k in [Kid::Ws, Kid::Other, Kid::Elem, Kid::Comment] {
                let is_text = |k: Kid| k == Kid::Ws || k == Kid::Other;
                if !adjacent_text && is_text(k) && a.last().map(|l| is_text(*l)).unwrap_or(false) {
                    continue;
                }
                let mut b = a.clone();
                b.push(k);
                next.push(b);
            }
        }
        out.extend(next.iter().cloned());
        frontier = next;
    }
    out
}

fn kid_tree(k: Kid, c: char) -> GTree {
    match k {
        Kid::Ws => GTree::leaf(GValue::Text(c.to_string())),
        Kid::Other => GTree::leaf(GValue::Text("x".into())),
        Kid::Elem => GTree::leaf(GValue::Element(5)),
        Kid::Comment => GTree::leaf(GValue::Comment("c".into())),
    }
}

fn with_space(name: usize, space: Option<&str>, mut kids: Vec<GTree>) -> GTree {
    if let Some(v) = space {
        kids.insert(0, GTree::leaf(GValue::Attribute(XML_SPACE, v.to_string())));
    }
    GTree::new(GValue::Element(name), kids)
}

/// `<a xs1><b xs2><c xs3>arr</c><c xs3>arr'</c>…</b></a>`: every arrangement of up to `max_kids`
/// children × 4³ xml:space settings × the whitespace-like characters, `batch` arrangements per tree.
fn exhaustive(sink: &mut Sink, max_kids: usize, chars: &[char], adjacent_text: bool, batch: usize, limit: usize) {
    let arrs = arrangements(max_kids, adjacent_text);
    let values: [Option<&str>; 4] = [None, Some("preserve"), Some("default"), Some("other")];
    let mut done = 0usize;
    for (ci, &c) in chars.iter().enumerate() {
        // arrangements without a whitespace text do not depend on the character
        let mine: Vec<&Vec<Kid>> = arrs.iter().filter(|a| ci == 0 || a.contains(&Kid::Ws)).collect();
        for xs1 in values {
            for xs2 in values {
                for xs3 in values {
                    for chunk in mine.chunks(batch) {
                        if done >= limit {
                            sink.stat("fws.exhaustive.truncated");
                            return;
                        }
                        let cs: Vec<GTree> = chunk.iter().map(|a| with_space(4, xs3, a.iter().map(|k| kid_tree(*k, c)).collect())).collect();
                        let root = with_space(2, xs1, vec![with_space(3, xs2, cs)]);
                        one_case(sink, &root, &[], None, if adjacent_text { 1 } else { 0 });
                        done += 1;
                        sink.stat_n("fws.exhaustive.arrangements", chunk.len() as u64);
                    }
                }
            }
        }
    }
    sink.stat("fws.exhaustive.complete");
}

pub fn run(seed: u64, count: usize, tier: &str, sink: &mut Sink) {
    let mut rng = Rng::new(seed ^ 0xF35);
    let by_cfg = {
        let mut c = GenCfg::default_cfg();
        c.max_depth = 2;
        c.max_kids = 2;
        c.text_max = 2;
        c
    };
    for i in 0..count {
        // one case in eight is built with consolidation switched off (adjacent text nodes exist)
        let mode = if i % 8 == 7 { 1 + rng.below(2) } else { 0 };
        let cfg = Cfg { max_depth: 1 + rng.below(3), max_kids: 1 + rng.below(5), adjacent_text: mode != 0 };
        let root = gen_root(&mut rng, &cfg);
        let paths = root.paths();
        let text_paths: Vec<Vec<usize>> = paths.iter().filter(|p| matches!(root.at(p).unwrap().v, GValue::Text(_))).cloned().collect();
        let start: Vec<usize> = if mode != 0 && !text_paths.is_empty() && rng.chance(1, 2) {
            rng.pick(&text_paths).clone()
        } else if rng.chance(1, 2) {
            vec![]
        } else {
            rng.pick(&paths).clone()
        };
        let bystander = if rng.chance(1, 3) { Some(gen_element(&mut rng, &by_cfg, 1)) } else { None };
        sink.stat(&format!("fws.mode.{}", mode));
        one_case(sink, &root, &start, bystander.as_ref(), mode);
    }
    // directed: three adjacent whitespace-only text nodes built while consolidation was off,
    // consolidation on again, stripping at the middle one (regression case of /repo 1e1d5fd:
    // the removal loop must not merge the neighbours)
    {
        let t = |s: &str| GTree::leaf(GValue::Text(s.to_string()));
        let root = GTree::new(GValue::Element(2), vec![t(" "), t("\n"), t("\t")]);
        one_case(sink, &root, &[1], None, 1);
        one_case(sink, &root, &[1], None, 2);
        one_case(sink, &root, &[], None, 1);
    }
    match tier {
        "quick" => {
            // a slice of the exhaustive space: up to 3 children, the XML characters plus U+00A0
            exhaustive(sink, 3, &[' ', '\n', '\u{a0}'], false, 16, 400);
        }
        _ => {
            // exhaustive: sibling arrangements ≤ 5 children × xml:space values at 3 levels × 6
            // whitespace-like characters (no adjacent text: consolidation never off)
            exhaustive(sink, 5, &[' ', '\t', '\r', '\n', '\u{a0}', '\u{2003}'], false, 24, usize::MAX);
            // and with adjacent text nodes (consolidation was off while building): ≤ 4 children
            exhaustive(sink, 4, &[' ', '\u{3000}'], true, 24, usize::MAX);
        }
    }
}
