//! Suite `cmp` (property C13): deep_equal / deep_equal_children / deep_equal_xpath /
//! advanced_deep_equal / shallow_equal / shallow_equal_ignore_attributes / string_value /
//! text_content* on pairs and triples of nodes of a generated forest, including one-feature
//! mutants compared in both directions and attribute / namespace nodes as compared nodes.
//!
//! Requests: `cmp <op> [params] <refA> [<refB>] <tree>+`, a node reference is
//! `<tree index>/<path>`. The oracle (`F` lines) evaluates the property on the implementation
//! against a canonical form read back through the public API (`cmp_oracle.rs`).
#[path = "cmp_mutate.rs"]
mod cmp_mutate;
#[path = "cmp_oracle.rs"]
mod oracle;
use crate::common::{guarded, Rng, Sink};
use crate::tree::*;
use xot::{Node, Value, Xot};

pub const CMPS: &[&str] = &["eq", "ci", "ws", "prefix", "true", "false"];
pub const FILTERS: &[&str] = &["all", "nocp", "elem", "xpath", "notext", "nob", "none"];

/// The menu of text comparisons (same as `Driver/Compare.lean textCmpOf`).
pub fn text_cmp(name: &str) -> fn(&str, &str) -> bool {
    match name {
        "eq" => |a, b| a == b,
        "ci" => |a, b| a.eq_ignore_ascii_case(b),
        "ws" => |a, b| {
            a.chars().filter(|c| !c.is_ascii_whitespace()).eq(b.chars().filter(|c| !c.is_ascii_whitespace()))
        },
        "prefix" => |a, b| b.starts_with(a),
        "true" => |_, _| true,
        "false" => |_, _| false,
        "trim" => |a, b| {
            a.trim_matches(|c: char| c.is_ascii_whitespace()) == b.trim_matches(|c: char| c.is_ascii_whitespace())
        },
        "num" => |a, b| num_canon(a) == num_canon(b),
        _ => unreachable!(),
    }
}

/// Comparisons that equate strings of DIFFERENT byte length (`" v "` = `"v"`, `2.50` = `2.5`), used by
/// `custom_family` only: they are not in `CMPS`, so the random stream of the generated cases is unchanged.
/// Same functions as `Driver/Compare.lean textCmpOf "trim" / "num"`.
pub const CUSTOM_CMPS: &[&str] = &["trim", "num"];

/// Normal form of a decimal numeral `-?digits(.digits)?` (ASCII digits, at least one on either side of the
/// point when there is a point): leading zeros of the integer part and trailing zeros of the fraction dropped,
/// an empty fraction dropped with its point; any other string is its own normal form.
pub fn num_canon(s: &str) -> String {
    let (neg, rest) = match s.strip_prefix('-') {
        Some(r) => (true, r),
        None => (false, s),
    };
    let (int, frac) = match rest.split_once('.') {
        Some((i, f)) => (i, Some(f)),
        None => (rest, None),
    };
    let digits = |x: &str| !x.is_empty() && x.bytes().all(|b| b.is_ascii_digit());
    if !digits(int) || frac.map_or(false, |f| !digits(f)) {
        return s.to_string();
    }
    let int = int.trim_start_matches('0');
    let frac = frac.unwrap_or("").trim_end_matches('0');
    let mut out = String::new();
    if neg {
        out.push('-');
    }
    out.push_str(if int.is_empty() { "0" } else { int });
    if !frac.is_empty() {
        out.push('.');
        out.push_str(frac);
    }
    out
}

/// The menu of node filters (same as `Driver/Compare.lean filterOf`).
pub fn node_filter(xot: &Xot, vocab: &Vocab, name: &str, n: Node) -> bool {
    match name {
        "all" => true,
        "nocp" => !xot.is_comment(n) && !xot.is_processing_instruction(n),
        "elem" => xot.is_element(n),
        "xpath" => xot.is_element(n) || xot.is_text(n),
        "notext" => !xot.is_text(n),
        "nob" => xot.element(n).map(|e| e.name() != vocab.name(3)).unwrap_or(true),
        "none" => false,
        _ => unreachable!(),
    }
}

/// A built forest: the generated trees and, per tree, the real nodes in the order of `paths()`.
pub struct Forest {
    pub trees: Vec<GTree>,
    pub paths: Vec<Vec<Vec<usize>>>,
    pub nodes: Vec<Vec<Node>>,
}

pub type Ref = (usize, usize); // (tree index, index into paths/nodes)

impl Forest {
    pub fn build(xot: &mut Xot, vocab: &Vocab, trees: Vec<GTree>) -> Forest {
        let mut paths = vec![];
        let mut nodes = vec![];
        for t in &trees {
            let root = build(xot, vocab, t, true).expect("generated tree builds");
            let ns = nodes_in_order(xot, root);
            let ps = t.paths();
            assert_eq!(ns.len(), ps.len(), "built tree has the generated shape");
            nodes.push(ns);
            paths.push(ps);
        }
        Forest { trees, paths, nodes }
    }
    pub fn wire(&self) -> String {
        self.trees.iter().map(|t| t.wire()).collect::<Vec<_>>().join(" ")
    }
    pub fn node(&self, r: Ref) -> Node {
        self.nodes[r.0][r.1]
    }
    pub fn refstr(&self, r: Ref) -> String {
        format!("{}/{}", r.0, path_str(&self.paths[r.0][r.1]))
    }
    pub fn find(&self, tree: usize, path: &[usize]) -> Option<Ref> {
        self.paths[tree].iter().position(|p| p == path).map(|i| (tree, i))
    }
    pub fn gtree(&self, r: Ref) -> &GTree {
        self.trees[r.0].at(&self.paths[r.0][r.1]).unwrap()
    }
}

pub fn kind_of(xot: &Xot, n: Node) -> &'static str {
    match xot.value(n) {
        Value::Document => "document",
        Value::Element(_) => "element",
        Value::Text(_) => "text",
        Value::Comment(_) => "comment",
        Value::ProcessingInstruction(_) => "pi",
        Value::Attribute(_) => "attribute",
        Value::Namespace(_) => "namespace",
    }
}

fn show_bool(r: Option<bool>) -> String {
    match r {
        None => "panic".to_string(),
        Some(true) => "true".to_string(),
        Some(false) => "false".to_string(),
    }
}

/// One operation of the menu.
#[derive(Clone, Debug)]
pub enum Op {
    Deep,
    Children,
    Xpath(&'static str),
    Adv(&'static str, &'static str),
    Shallow,
    ShallowIgn(Vec<usize>),
    CanonEq,
}

impl Op {
    pub fn words(&self) -> String {
        match self {
            Op::Deep => "deep".into(),
            Op::Children => "children".into(),
            Op::Xpath(c) => format!("xpath {}", c),
            Op::Adv(f, c) => format!("adv {} {}", f, c),
            Op::Shallow => "shallow".into(),
            Op::ShallowIgn(l) => {
                if l.is_empty() {
                    "shallowign -".into()
                } else {
                    format!("shallowign {}", l.iter().map(|i| i.to_string()).collect::<Vec<_>>().join(","))
                }
            }
            Op::CanonEq => "canoneq".into(),
        }
    }
    pub fn tag(&self) -> &'static str {
        match self {
            Op::Deep => "deep",
            Op::Children => "children",
            Op::Xpath(_) => "xpath",
            Op::Adv(..) => "adv",
            Op::Shallow => "shallow",
            Op::ShallowIgn(_) => "shallowign",
            Op::CanonEq => "canoneq",
        }
    }
}

/// Evaluate a binary operation on the implementation (`None` = panic).
pub fn eval(xot: &Xot, vocab: &Vocab, op: &Op, a: Node, b: Node) -> Option<bool> {
    guarded(|| match op {
        Op::Deep => xot.deep_equal(a, b),
        Op::Children => xot.deep_equal_children(a, b),
        Op::Xpath(c) => xot.deep_equal_xpath(a, b, text_cmp(c)),
        Op::Adv(f, c) => xot.advanced_deep_equal(a, b, |n| node_filter(xot, vocab, f, n), text_cmp(c)),
        Op::Shallow => xot.shallow_equal(a, b),
        Op::ShallowIgn(l) => {
            let names: Vec<xot::NameId> = l.iter().map(|&i| vocab.name(i)).collect();
            xot.shallow_equal_ignore_attributes(a, b, &names)
        }
        Op::CanonEq => oracle::canon_of(xot, a) == oracle::canon_of(xot, b),
    })
}

/// Run one binary operation: transcript line, statistics, oracle.
pub fn run_binary(sink: &mut Sink, xot: &Xot, vocab: &Vocab, f: &Forest, op: &Op, ra: Ref, rb: Ref) -> Option<bool> {
    let (a, b) = (f.node(ra), f.node(rb));
    let got = eval(xot, vocab, op, a, b);
    let req = format!("cmp {} {} {} {}", op.words(), f.refstr(ra), f.refstr(rb), f.wire());
    sink.stat(&format!("op.{}", op.tag()));
    sink.stat(&format!("result.{}.{}", op.tag(), show_bool(got)));
    if let Op::Deep = op {
        sink.stat(&format!("deep.kinds.{}-{}", kind_of(xot, a), kind_of(xot, b)));
    }
    oracle::check_binary(sink, xot, vocab, op, a, b, got, &req);
    sink.emit(req, show_bool(got));
    got
}

pub fn run_unary(sink: &mut Sink, xot: &Xot, f: &Forest, op: &str, r: Ref) {
    let n = f.node(r);
    let show_opt = |o: Option<Option<String>>| match o {
        None => "panic".to_string(),
        Some(None) => "none".to_string(),
        Some(Some(s)) => format!("some {}", crate::common::enc(&s)),
    };
    let resp = match op {
        "strval" => match guarded(|| xot.string_value(n)) {
            None => "panic".to_string(),
            Some(s) => format!("ok {}", crate::common::enc(&s)),
        },
        "textcontent" => show_opt(guarded(|| xot.text_content(n).map(|t| t.get().to_string()))),
        "textcontentstr" => show_opt(guarded(|| xot.text_content_str(n).map(|t| t.to_string()))),
        "nedges" => match guarded(|| xot.traverse(n).count()) {
            None => "panic".to_string(),
            Some(c) => c.to_string(),
        },
        _ => unreachable!(),
    };
    let req = format!("cmp {} {} {}", op, f.refstr(r), f.wire());
    sink.stat(&format!("op.{}", op));
    sink.stat(&format!("unary.kind.{}", kind_of(xot, n)));
    if op == "strval" {
        oracle::check_string_value(sink, xot, n, &resp, &req);
    }
    sink.emit(req, resp);
}

/// An ignore list: names of the attributes of a / b, absent names, repetitions.
fn gen_ignore(rng: &mut Rng, f: &Forest, ra: Ref, rb: Ref) -> Vec<usize> {
    let mut pool: Vec<usize> = vec![];
    for r in [ra, rb] {
        for k in &f.gtree(r).kids {
            if let GValue::Attribute(n, _) = k.v {
                pool.push(n);
            }
        }
    }
    pool.push(17); // never an attribute name in generated trees
    pool.push(*rng.pick(&[2usize, 3, 4, 6, 7, 9, 0, 1, 15]));
    let n = rng.below(5);
    let mut l: Vec<usize> = vec![];
    for _ in 0..n {
        if !l.is_empty() && rng.chance(1, 3) {
            let again = *rng.pick(&l); // a repeated name
            l.push(again);
        } else {
            l.push(*rng.pick(&pool));
        }
    }
    l
}

fn random_op(rng: &mut Rng, f: &Forest, ra: Ref, rb: Ref) -> Op {
    match rng.below(12) {
        0 => Op::Children,
        1 | 2 => Op::Xpath(*rng.pick(CMPS)),
        3..=5 => Op::Adv(*rng.pick(FILTERS), *rng.pick(CMPS)),
        6 => Op::Shallow,
        7..=9 => Op::ShallowIgn(gen_ignore(rng, f, ra, rb)),
        10 => Op::CanonEq,
        _ => Op::Deep,
    }
}

/// Everything that is run on one chosen pair: deep both ways (+ reflexivity / symmetry),
/// the canonical-form check, a few operations of the menu, unary operations.
fn run_pair(sink: &mut Sink, rng: &mut Rng, xot: &Xot, vocab: &Vocab, f: &Forest, ra: Ref, rb: Ref) {
    let ab = run_binary(sink, xot, vocab, f, &Op::Deep, ra, rb);
    let ba = run_binary(sink, xot, vocab, f, &Op::Deep, rb, ra);
    oracle::check_symmetric(sink, xot, f, ra, rb, ab, ba);
    if rng.chance(1, 4) {
        let aa = run_binary(sink, xot, vocab, f, &Op::Deep, ra, ra);
        oracle::check_reflexive(sink, xot, f, ra, aa);
    }
    run_binary(sink, xot, vocab, f, &Op::CanonEq, ra, rb);
    for _ in 0..(2 + rng.below(3)) {
        let op = random_op(rng, f, ra, rb);
        let (x, y) = if rng.chance(1, 2) { (ra, rb) } else { (rb, ra) };
        run_binary(sink, xot, vocab, f, &op, x, y);
    }
    let both_elements = xot.is_element(f.node(ra)) && xot.is_element(f.node(rb));
    if both_elements {
        let op = Op::ShallowIgn(gen_ignore(rng, f, ra, rb));
        run_binary(sink, xot, vocab, f, &op, ra, rb);
        run_binary(sink, xot, vocab, f, &op, rb, ra);
    }
    if rng.chance(1, 2) {
        run_unary(sink, xot, f, "strval", if rng.chance(1, 2) { ra } else { rb });
    }
    if rng.chance(1, 4) {
        run_unary(sink, xot, f, *rng.pick(&["textcontent", "textcontentstr", "nedges"]), ra);
    }
}

fn gen_base(rng: &mut Rng, cfg: &GenCfg) -> GTree {
    match rng.below(6) {
        0 | 1 => gen_document(rng, cfg),
        2 => gen_fragment(rng, cfg),
        3 => gen_normal(rng, cfg, 2),
        _ => gen_element(rng, cfg, 2),
    }
}

/// Pick a reference at random, preferring attribute / namespace nodes now and then.
fn random_ref(rng: &mut Rng, f: &Forest, want_abnormal: bool) -> Ref {
    let t = rng.below(f.trees.len());
    if want_abnormal {
        let c: Vec<usize> = (0..f.paths[t].len()).filter(|&i| !f.trees[t].at(&f.paths[t][i]).unwrap().is_normal()).collect();
        if !c.is_empty() {
            return (t, *rng.pick(&c));
        }
    }
    (t, rng.below(f.paths[t].len()))
}

pub fn run_case(sink: &mut Sink, rng: &mut Rng, cfg: &GenCfg) {
    let mut xot = Xot::new();
    let vocab = Vocab::standard(&mut xot);
    match rng.below(11) {
        // a container against its only content: a document node and its document element (in place
        // and as an equal unattached copy), an element and its only child — node kinds differ while
        // the filtered edge streams nearly coincide
        10 => {
            let e = gen_element(rng, cfg, 1);
            let mut kids = vec![];
            if rng.chance(1, 2) {
                kids.push(GTree::leaf(GValue::Comment("c".into())));
            }
            kids.push(e.clone());
            if rng.chance(1, 2) {
                kids.push(GTree::leaf(GValue::PI(17, None)));
            }
            let epos = kids.iter().position(|k| matches!(k.v, GValue::Element(_))).unwrap();
            let wrapper = GTree::new(GValue::Element(5), vec![e.clone()]);
            let f = Forest::build(&mut xot, &vocab, vec![GTree::new(GValue::Document, kids), e, wrapper]);
            let doc = f.find(0, &[]).unwrap();
            let inner = f.find(0, &[epos]).unwrap();
            let copy = f.find(1, &[]).unwrap();
            let wrap = f.find(2, &[]).unwrap();
            let wrapped = f.find(2, &[0]).unwrap();
            sink.stat("case.container-vs-content");
            for (ra, rb) in [(doc, inner), (doc, copy), (wrap, wrapped), (wrap, copy)] {
                for op in [Op::Deep, Op::Xpath(CMPS[0]), Op::Children, Op::Shallow, Op::Adv("xpath", CMPS[0]), Op::Adv("elem", CMPS[0]), Op::CanonEq] {
                    run_binary(sink, &xot, &vocab, &f, &op, ra, rb);
                    run_binary(sink, &xot, &vocab, &f, &op, rb, ra);
                }
            }
        }
        // a tree, a one-feature mutant of it, and a third tree (mutant of the mutant, or a
        // spelling-only variant): same path in all of them
        0..=5 => {
            let base = gen_base(rng, cfg);
            let (m1, kind1, site) = cmp_mutate::mutate(rng, &base);
            let (m2, kind2, _) = if rng.chance(1, 2) {
                cmp_mutate::mutate_equal(rng, &m1)
            } else {
                cmp_mutate::mutate(rng, &base)
            };
            sink.stat(&format!("mutation.{}", kind1));
            let f = Forest::build(&mut xot, &vocab, vec![base, m1, m2]);
            // compared path: the site, one of its ancestors, or the root
            let cut = match rng.below(3) {
                0 => site.len(),
                1 => rng.below(site.len() + 1),
                _ => 0,
            };
            let mut path = &site[..cut];
            while f.find(0, path).is_none() || f.find(1, path).is_none() {
                path = &path[..path.len() - 1];
            }
            let (ra, rb) = (f.find(0, path).unwrap(), f.find(1, path).unwrap());
            let before = sink.lines.len();
            run_pair(sink, rng, &xot, &vocab, &f, ra, rb);
            let deep = sink.lines[before].1.clone();
            sink.stat(&format!("mutant.{}.deep.{}", kind1, deep));
            if let Some(rc) = f.find(2, path) {
                sink.stat(&format!("mutation2.{}", kind2));
                let ab = eval(&xot, &vocab, &Op::Deep, f.node(ra), f.node(rb));
                let bc = run_binary(sink, &xot, &vocab, &f, &Op::Deep, rb, rc);
                let ac = run_binary(sink, &xot, &vocab, &f, &Op::Deep, ra, rc);
                oracle::check_transitive(sink, &xot, &f, (ra, rb, rc), (ab, bc, ac));
            }
        }
        // siblings inside one fragment: a subtree, its mutant, an unrelated subtree
        6 | 7 => {
            let s = gen_normal(rng, cfg, 2);
            let (m, kind, _) = cmp_mutate::mutate(rng, &s);
            sink.stat(&format!("mutation.{}", kind));
            let other = gen_normal(rng, cfg, 2);
            let root = if rng.chance(1, 2) { GValue::Document } else { GValue::Element(5) };
            let f = Forest::build(&mut xot, &vocab, vec![GTree::new(root, vec![s, m, other])]);
            let (ra, rb, rc) = (f.find(0, &[0]).unwrap(), f.find(0, &[1]).unwrap(), f.find(0, &[2]).unwrap());
            run_pair(sink, rng, &xot, &vocab, &f, ra, rb);
            if rng.chance(1, 2) {
                run_pair(sink, rng, &xot, &vocab, &f, ra, rc);
            }
        }
        // arbitrary pairs / triples of nodes of a random forest, attribute and namespace nodes too
        _ => {
            let n = 1 + rng.below(2);
            let trees: Vec<GTree> = (0..n).map(|_| gen_base(rng, cfg)).collect();
            let f = Forest::build(&mut xot, &vocab, trees);
            let abnormal = rng.chance(1, 2);
            let ra = random_ref(rng, &f, abnormal);
            let rb = random_ref(rng, &f, abnormal);
            let third_abnormal = abnormal && rng.chance(1, 2);
            let rc = random_ref(rng, &f, third_abnormal);
            run_pair(sink, rng, &xot, &vocab, &f, ra, rb);
            let ab = eval(&xot, &vocab, &Op::Deep, f.node(ra), f.node(rb));
            let bc = run_binary(sink, &xot, &vocab, &f, &Op::Deep, rb, rc);
            let ac = run_binary(sink, &xot, &vocab, &f, &Op::Deep, ra, rc);
            oracle::check_transitive(sink, &xot, &f, (ra, rb, rc), (ab, bc, ac));
        }
    }
}

/// Fixed corpus: the corner cases the property names, always run.
fn corpus(sink: &mut Sink) {
    let a = |n: usize, v: &str| GTree::leaf(GValue::Attribute(n, v.to_string()));
    let ns = |p: usize, n: usize| GTree::leaf(GValue::Namespace(p, n));
    let e = |n: usize, kids: Vec<GTree>| GTree::new(GValue::Element(n), kids);
    let t = |s: &str| GTree::leaf(GValue::Text(s.to_string()));
    let elems = vec![
        e(2, vec![]),
        e(2, vec![a(3, "v")]),
        e(2, vec![a(3, "w")]),
        e(2, vec![a(3, "v"), a(4, "w")]),
        e(2, vec![a(4, "w"), a(3, "v")]),
        e(2, vec![a(4, "w")]),
        e(2, vec![ns(2, 2), a(3, "v")]),
        e(2, vec![ns(3, 2), ns(0, 3), a(3, "v"), t("x")]),
        e(2, vec![a(3, "v"), t("x")]),
        e(2, vec![t("x"), e(3, vec![]), t("y")]),
        e(2, vec![t("x"), t("y")]),
        e(2, vec![t("xy")]),
        e(6, vec![a(3, "v")]),
        t("x"),
        GTree::leaf(GValue::Comment("x".into())),
        GTree::leaf(GValue::PI(18, None)),
        GTree::leaf(GValue::PI(18, Some("".into()))),
        // C13_xpath_no_text_merge: a comment splitting a text node; deep_equal_xpath against
        // `<a>xy</a>` is false, against `<a>x y</a>` (two text nodes) true: nothing is merged
        e(2, vec![t("x"), GTree::leaf(GValue::Comment("c".into())), t("y")]),
    ];
    // smallest inputs of the two defects of DESIGN.md section 8 row 15 (fixed in /repo by a361fb0
    // and 3b5a0f1) first, so that a regression reports the minimal replay
    {
        let mut xot = Xot::new();
        let vocab = Vocab::standard(&mut xot);
        let f = Forest::build(&mut xot, &vocab, vec![e(2, vec![a(3, "v"), a(4, "w")])]);
        run_binary(sink, &xot, &vocab, &f, &Op::Deep, f.find(0, &[0]).unwrap(), f.find(0, &[1]).unwrap());
        let mut xot = Xot::new();
        let vocab = Vocab::standard(&mut xot);
        let f = Forest::build(&mut xot, &vocab, vec![e(2, vec![]), e(2, vec![a(3, "v")])]);
        run_binary(sink, &xot, &vocab, &f, &Op::ShallowIgn(vec![3, 3]), (0, 0), (1, 0));
    }
    let mut xot = Xot::new();
    let vocab = Vocab::standard(&mut xot);
    let f = Forest::build(&mut xot, &vocab, vec![GTree::new(GValue::Document, elems)]);
    let n = f.paths[0].len();
    let ignores: Vec<Vec<usize>> = vec![vec![], vec![3], vec![4], vec![3, 3], vec![4, 4], vec![3, 4], vec![17], vec![4, 17, 4], vec![3, 3, 3]];
    for i in 1..n {
        for j in 1..n {
            let (ra, rb) = ((0, i), (0, j));
            run_binary(sink, &xot, &vocab, &f, &Op::Deep, ra, rb);
            if f.paths[0][i].len() == 1 && f.paths[0][j].len() == 1 {
                run_binary(sink, &xot, &vocab, &f, &Op::Shallow, ra, rb);
                run_binary(sink, &xot, &vocab, &f, &Op::Children, ra, rb);
                run_binary(sink, &xot, &vocab, &f, &Op::Xpath("eq"), ra, rb);
                run_binary(sink, &xot, &vocab, &f, &Op::CanonEq, ra, rb);
            }
        }
    }
    for i in 0..n {
        run_unary(sink, &xot, &f, "strval", (0, i));
        run_unary(sink, &xot, &f, "textcontent", (0, i));
        run_unary(sink, &xot, &f, "textcontentstr", (0, i));
        run_unary(sink, &xot, &f, "nedges", (0, i));
    }
    // every ignore list on the pairs of the first eight elements (all named `a`)
    for i in 0..8 {
        for j in 0..8 {
            for ign in &ignores {
                let (ra, rb) = (f.find(0, &[i]).unwrap(), f.find(0, &[j]).unwrap());
                run_binary(sink, &xot, &vocab, &f, &Op::ShallowIgn(ign.clone()), ra, rb);
            }
        }
    }
}

/// C13_custom_applies_everywhere: a supplied comparison that equates strings of DIFFERENT byte length is what
/// decides, on pairs of trees that differ at exactly ONE place — an attribute value (of the compared element, of
/// an element below it, of an element with a second attribute), the value of a compared attribute NODE, a text
/// node (child, grandchild), the data of a PI.  Comment data is documented to be compared with `==` whatever
/// the comparison ("Text nodes and attributes are compared using the provided comparison function"); the
/// oracle holds the implementation to that.  Deterministic (no `Rng`), both argument orders, unfiltered
/// `advanced_deep_equal` and `deep_equal_xpath`.
fn custom_family(sink: &mut Sink) {
    let a = |n: usize, v: &str| GTree::leaf(GValue::Attribute(n, v.to_string()));
    let e = |n: usize, kids: Vec<GTree>| GTree::new(GValue::Element(n), kids);
    let t = |s: &str| GTree::leaf(GValue::Text(s.to_string()));
    let pairs: &[(&'static str, &str, &str)] = &[
        ("trim", " v ", "v"),
        ("trim", "v", "v\t\n"),
        ("trim", "  v", "v  "),
        ("trim", "v w", "vw"),
        ("trim", "v", "w "),
        ("trim", " ", "   "),
        ("trim", "\u{e9} ", "\u{e9}"),
        ("num", "2.50", "2.5"),
        ("num", "02", "2"),
        ("num", "2.0", "2"),
        ("num", "-0.50", "-0.5"),
        ("num", "2.5", "2.60"),
        ("num", "1e1", "10"),
        ("num", "2.", "2"),
        ("num", "x", "x"),
    ];
    let places: &[&'static str] =
        &["attribute", "attribute-second", "attribute-below", "attribute-node", "text", "text-below", "pi", "comment"];
    for &(c, x, y) in pairs {
        for &place in places {
            let mk = |v: &str| -> GTree {
                match place {
                    "attribute" | "attribute-node" => e(2, vec![a(3, v)]),
                    "attribute-second" => e(2, vec![a(4, "k"), a(3, v), t("q")]),
                    "attribute-below" => e(2, vec![t("p"), e(3, vec![a(4, v), t("q")])]),
                    "text" => e(2, vec![a(3, "k"), t(v)]),
                    "text-below" => e(2, vec![e(3, vec![t(v)]), t("q")]),
                    "pi" => e(2, vec![GTree::leaf(GValue::PI(18, Some(v.to_string())))]),
                    "comment" => e(2, vec![GTree::leaf(GValue::Comment(v.to_string()))]),
                    _ => unreachable!(),
                }
            };
            let cmp = text_cmp(c);
            for (l, r) in [(x, y), (y, x), (x, x)] {
                let mut xot = Xot::new();
                let vocab = Vocab::standard(&mut xot);
                let f = Forest::build(&mut xot, &vocab, vec![mk(l), mk(r)]);
                let (ra, rb) = if place == "attribute-node" {
                    (f.find(0, &[0]).unwrap(), f.find(1, &[0]).unwrap())
                } else {
                    ((0, 0), (1, 0))
                };
                let op = Op::Adv("all", c);
                let got = run_binary(sink, &xot, &vocab, &f, &op, ra, rb);
                let want = if place == "comment" { l == r } else { cmp(l, r) };
                sink.stat(&format!("custom.{}.{}.{}", c, place, want));
                if l.len() != r.len() && want {
                    sink.stat(&format!("custom.equated-different-length.{}", place));
                }
                let req = format!("cmp {} {} {} {}", op.words(), f.refstr(ra), f.refstr(rb), f.wire());
                oracle::check_custom(sink, place, c, l, r, got, want, &req);
                run_binary(sink, &xot, &vocab, &f, &Op::Xpath(c), ra, rb);
                run_binary(sink, &xot, &vocab, &f, &Op::Deep, ra, rb);
            }
        }
    }
}

/// Exhaustive small scope: every pair of elements over 2 attribute names x 2 values (in both
/// orders), with every ignore list of length <= 3 over {3, 4, 17}; filters x comparisons on a
/// few structural pairs.
fn small_scope(sink: &mut Sink) {
    let a = |n: usize, v: &str| GTree::leaf(GValue::Attribute(n, v.to_string()));
    let mut elems = vec![];
    let opts: [Option<&str>; 3] = [None, Some("v"), Some("W")];
    for x in opts {
        for y in opts {
            for flip in [false, true] {
                let mut kids = vec![];
                if let Some(v) = x {
                    kids.push(a(3, v));
                }
                if let Some(v) = y {
                    kids.push(a(4, v));
                }
                if flip {
                    if kids.len() < 2 {
                        continue;
                    }
                    kids.reverse();
                }
                elems.push(GTree::new(GValue::Element(2), kids));
            }
        }
    }
    let mut xot = Xot::new();
    let vocab = Vocab::standard(&mut xot);
    let count = elems.len();
    let f = Forest::build(&mut xot, &vocab, vec![GTree::new(GValue::Document, elems)]);
    let mut ignores: Vec<Vec<usize>> = vec![vec![]];
    let names = [3usize, 4, 17];
    for len in 1..=3 {
        let mut idx = vec![0usize; len];
        loop {
            ignores.push(idx.iter().map(|&i| names[i]).collect());
            let mut k = 0;
            while k < len {
                idx[k] += 1;
                if idx[k] < names.len() {
                    break;
                }
                idx[k] = 0;
                k += 1;
            }
            if k == len {
                break;
            }
        }
    }
    for i in 0..count {
        for j in 0..count {
            let (ra, rb) = (f.find(0, &[i]).unwrap(), f.find(0, &[j]).unwrap());
            run_binary(sink, &xot, &vocab, &f, &Op::Deep, ra, rb);
            for ign in &ignores {
                run_binary(sink, &xot, &vocab, &f, &Op::ShallowIgn(ign.clone()), ra, rb);
            }
            for c in CMPS {
                run_binary(sink, &xot, &vocab, &f, &Op::Xpath(c), ra, rb);
            }
        }
    }
}

pub fn run(seed: u64, count: usize, tier: &str, sink: &mut Sink) {
    let mut rng = Rng::new(seed ^ 0xC0_13);
    let mut cfg = GenCfg::default_cfg();
    cfg.max_depth = 3;
    cfg.max_kids = 3;
    cfg.adjacent_text = true;
    {
        let mut xot = Xot::new();
        let vocab = Vocab::standard(&mut xot);
        sink.emit(vocab.wire(), "ok".to_string());
    }
    corpus(sink);
    custom_family(sink);
    if tier == "thorough" {
        small_scope(sink);
    }
    for _ in 0..count {
        run_case(sink, &mut rng, &cfg);
    }
}
