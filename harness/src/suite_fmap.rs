//! Suite `fmap` (C11): histories of map-style updates (insert / remove / clear / get_mut / the entry
//! API / set_attribute … on the mutable view) and node-style updates (new attribute / namespace
//! nodes appended with append_*_node / any_append, detached, removed, moved between elements) on
//! elements that start with any number of namespace and attribute nodes.
//!
//! Correspondence: every request goes to the model too (`forest …` requests of suite_forest's
//! session, `fmap …` requests of Driver/Fmap.lean); both views are read after every step.  Every
//! `fmap` call is answered with the value the real call RETURNS (old value of insert / remove,
//! the value behind a returned `&mut V`, …; the node of append_*_node in the `forest` requests),
//! which the model answers from `MapCall.run` and the reference map from its own state.
//! Oracle (implementation only): an independent insertion-ordered reference map (a Vec of
//! entries, `RMap`) is fed the same updates; after every step every accessor of the read-only
//! and of the mutable view must agree with it (content, order, and which node carries which
//! key), and `to_string` must write the declarations, then the attributes, in that order.
use crate::common::{dec, enc, guarded, Rng, Sink};
use crate::suite_forest::Session;
use crate::tree::*;
use std::collections::HashMap;
use xot::{Entry, Node};

#[derive(Clone, PartialEq, Eq, Debug)]
pub enum Pay {
    S(String),
    N(usize),
}

impl Pay {
    fn wire(&self) -> String {
        match self {
            Pay::S(s) => enc(s),
            Pay::N(n) => n.to_string(),
        }
    }
}

#[derive(Clone, Debug, PartialEq)]
struct REntry {
    key: usize,
    val: Pay,
    node: usize,
}

/// The reference: an insertion-ordered map as a Vec of entries.
#[derive(Clone, Default, Debug)]
struct RMap(Vec<REntry>);

impl RMap {
    fn pos(&self, key: usize) -> Option<usize> {
        self.0.iter().position(|e| e.key == key)
    }
    /// Existing key: value replaced in place (same node). New key: appended, carried by `fresh`.
    /// Returns the carrying node and whether the key existed.
    fn insert(&mut self, key: usize, val: Pay, fresh: usize) -> (usize, bool) {
        match self.pos(key) {
            Some(i) => {
                self.0[i].val = val;
                (self.0[i].node, true)
            }
            None => {
                self.0.push(REntry { key, val, node: fresh });
                (fresh, false)
            }
        }
    }
    fn remove(&mut self, key: usize) -> Option<REntry> {
        self.pos(key).map(|i| self.0.remove(i))
    }
    fn remove_node(&mut self, node: usize) -> Option<REntry> {
        self.0.iter().position(|e| e.node == node).map(|i| self.0.remove(i))
    }
    fn get(&self, key: usize) -> Option<&REntry> {
        self.pos(key).map(|i| &self.0[i])
    }
}

struct RElem {
    label: usize,
    /// [attributes, namespaces]
    views: [RMap; 2],
}

#[derive(Clone, Debug)]
enum Loc {
    Detached { attr: bool, key: usize, val: Pay },
    In { elem: usize, attr: bool },
}

pub struct Fm {
    pub s: Session,
    elems: Vec<RElem>,
    /// entry nodes the reference knows (label -> where); a removed node is dropped
    entries: HashMap<usize, Loc>,
    pub dead: bool,
}

fn vi(attr: bool) -> usize {
    if attr {
        0
    } else {
        1
    }
}
fn kind(attr: bool) -> &'static str {
    if attr {
        "attr"
    } else {
        "ns"
    }
}

pub const ATTR_KEYS: [usize; 3] = [2, 3, 0];
pub const NS_KEYS: [usize; 3] = [0, 2, 3];
const ATTR_VALS: [&str; 6] = ["x", "y", "", " z", "a&b<\"c\">", "\u{e9}\t"];
const NS_VALS: [usize; 3] = [2, 3, 4];

impl Fm {
    pub fn new(sink: &mut Sink) -> Fm {
        let mut s = Session::new();
        s.exec(sink, "reset");
        Fm { s, elems: vec![], entries: HashMap::new(), dead: false }
    }

    fn node(&self, l: usize) -> Node {
        self.s.nodes[l]
    }

    fn new_label(&mut self, sink: &mut Sink, value_wire: &str) -> usize {
        let r = self.s.exec(sink, &format!("new {}", value_wire));
        r[3..].parse().unwrap()
    }

    fn entry_wire(attr: bool, key: usize, val: &Pay) -> String {
        if attr {
            format!("A {} {}", key, val.wire())
        } else {
            format!("N {} {}", key, val.wire())
        }
    }

    /// A new element (optionally under a new document) with the given initial entries, created
    /// node by node and attached with `any_append`; the reference is fed the same insertions.
    pub fn add_element(&mut self, sink: &mut Sink, name: usize, under_doc: bool, ns: &[(usize, usize)], attrs: &[(usize, &str)], normal: usize) -> usize {
        let e = self.new_label(sink, &format!("E {}", name));
        self.elems.push(RElem { label: e, views: [RMap::default(), RMap::default()] });
        let idx = self.elems.len() - 1;
        if under_doc {
            let d = self.new_label(sink, "D");
            self.s.exec(sink, &format!("append {} {}", d, e));
        }
        for (p, n) in ns {
            self.step_new_and_append(sink, idx, false, *p, Pay::N(*n), "any_append");
        }
        for (k, v) in attrs {
            self.step_new_and_append(sink, idx, true, *k, Pay::S(v.to_string()), "any_append");
        }
        for i in 0..normal {
            let t = if i % 2 == 0 { self.new_label(sink, &format!("T {}", enc("t"))) } else { self.new_label(sink, "E 4") };
            self.s.exec(sink, &format!("append {} {}", e, t));
        }
        idx
    }

    fn fresh(&self) -> usize {
        self.s.nodes.len()
    }

    fn expect(&mut self, sink: &mut Sink, op: &str, req: &str, resp: &str, want: &str) {
        if resp == "panic" && want != "panic" {
            sink.fail("C11", &format!("C11:{}:panics", op), &format!("{} panicked", req), &self.s.history);
            self.dead = true;
        } else if resp != want {
            sink.fail("C11", &format!("C11:{}:outcome", op), &format!("{} answered `{}`, the reference map says `{}`", req, resp, want), &self.s.history);
        }
    }

    // ------------------------------------------------------------------------------------
    // map-style updates through the `forest` requests

    /// `insert` (or `set_attribute` / `set_namespace` when `via_xot`).  The map call itself is the
    /// `fmap insert` request, answered with the `Option<V>` it returns; the Xot methods return `()`.
    pub fn step_insert(&mut self, sink: &mut Sink, ei: usize, attr: bool, key: usize, val: Pay, via_xot: bool) {
        if !via_xot {
            let arg = val.clone();
            self.step_entry(sink, ei, attr, "insert", key, val, arg);
            return;
        }
        let e = self.elems[ei].label;
        let req = format!("map_insert {} {} {} {}", kind(attr), e, key, val.wire());
        let fresh = self.fresh();
        let resp = self.exec_as_xot_call(sink, &req);
        let (node, existed) = self.elems[ei].views[vi(attr)].insert(key, val, fresh);
        if !existed {
            self.entries.insert(node, Loc::In { elem: ei, attr });
        }
        let ctor = if attr { "setAttribute" } else { "setNamespace" };
        sink.stat(&format!("mapop2.{}.{}", ctor, if existed { "existing-key" } else { "new-key" }));
        self.expect(sink, "insert", &req, &resp, "ok");
    }

    pub fn step_remove(&mut self, sink: &mut Sink, ei: usize, attr: bool, key: usize, via_xot: bool) {
        if !via_xot {
            let val = if attr { Pay::S(String::new()) } else { Pay::N(0) };
            self.step_entry(sink, ei, attr, "remove", key, val.clone(), val);
            return;
        }
        let e = self.elems[ei].label;
        let req = format!("map_remove {} {} {}", kind(attr), e, key);
        let resp = self.exec_as_xot_call(sink, &req);
        let ctor = if attr { "removeAttribute" } else { "removeNamespace" };
        let mut present = false;
        if let Some(en) = self.elems[ei].views[vi(attr)].remove(key) {
            self.entries.remove(&en.node);
            present = true;
        }
        sink.stat(&format!("mapop2.{}.{}", ctor, if present { "present" } else { "absent" }));
        self.expect(sink, "remove", &req, &resp, "ok");
    }

    pub fn step_clear(&mut self, sink: &mut Sink, ei: usize, attr: bool) {
        let e = self.elems[ei].label;
        let req = format!("map_clear {} {}", kind(attr), e);
        let resp = self.s.exec(sink, &req);
        let old = std::mem::take(&mut self.elems[ei].views[vi(attr)].0);
        sink.stat(&format!("mapop2.clear.{}", if old.is_empty() { "empty" } else { "non-empty" }));
        for en in old {
            self.entries.remove(&en.node);
        }
        self.expect(sink, "clear", &req, &resp, "ok");
    }

    /// The same request line, executed through `Xot::set_attribute` / `remove_attribute` /
    /// `set_namespace` / `remove_namespace` (the model's step is the same `mapInsert` / `mapRemove`).
    fn exec_as_xot_call(&mut self, sink: &mut Sink, req: &str) -> String {
        let w: Vec<&str> = req.split(' ').collect();
        let a = self.node(w[2].parse().unwrap());
        let k: usize = w[3].parse().unwrap();
        let xot = &mut self.s.xot;
        let vocab = &self.s.vocab;
        let r = match (w[0], w[1]) {
            ("map_insert", "attr") => {
                let v = dec(w[4]).unwrap();
                guarded(|| xot.set_attribute(a, vocab.name(k), v))
            }
            ("map_insert", _) => {
                let ns = vocab.ns(w[4].parse().unwrap());
                guarded(|| xot.set_namespace(a, vocab.prefix(k), ns))
            }
            ("map_remove", "attr") => guarded(|| xot.remove_attribute(a, vocab.name(k))),
            _ => guarded(|| xot.remove_namespace(a, vocab.prefix(k))),
        };
        let resp = if r.is_some() { "ok".to_string() } else { "panic".to_string() };
        self.s.relabel(None);
        self.s.history.push(format!("{} [through the Xot method] -> {}", req, resp));
        sink.emit(format!("forest {}", req), resp.clone());
        resp
    }

    // ------------------------------------------------------------------------------------
    // node-style updates

    /// `new_attribute_node` / `new_namespace_node`.
    pub fn step_new_entry(&mut self, sink: &mut Sink, attr: bool, key: usize, val: Pay) -> usize {
        let l = self.new_label(sink, &Self::entry_wire(attr, key, &val));
        self.entries.insert(l, Loc::Detached { attr, key, val });
        l
    }

    fn entry_kv(&self, n: usize) -> Option<(bool, usize, Pay)> {
        match self.entries.get(&n)? {
            Loc::Detached { attr, key, val } => Some((*attr, *key, val.clone())),
            Loc::In { elem, attr } => {
                let en = self.elems[*elem].views[vi(*attr)].0.iter().find(|x| x.node == n)?;
                Some((*attr, en.key, en.val.clone()))
            }
        }
    }

    /// `append_attribute_node` / `append_namespace_node` / `any_append` of the entry node `n`
    /// (detached, or attached to this or another element).
    pub fn step_append_node(&mut self, sink: &mut Sink, ei: usize, n: usize, call: &str) {
        self.step_append_node_x(sink, ei, n, call, false)
    }

    fn step_append_node_x(&mut self, sink: &mut Sink, ei: usize, n: usize, call: &str, fresh_node: bool) {
        let e = self.elems[ei].label;
        let (attr, key, val) = self.entry_kv(n).expect("known entry node");
        let req = format!("{} {} {}", call, e, n);
        let resp = self.s.exec(sink, &req);
        let fits = match call {
            "append_attr_node" => attr,
            "append_ns_node" => !attr,
            _ => true,
        };
        if !fits {
            sink.stat("outside-mapop2.append-node-of-the-other-kind");
            self.expect(sink, call, &req, &resp, "err:InvalidOperation");
            return;
        }
        let whose = match self.entries.get(&n) {
            Some(Loc::Detached { .. }) => if fresh_node { "new" } else { "detached" },
            Some(Loc::In { elem, .. }) if *elem == ei => "own",
            _ => "attached",
        };
        let (carrier, existed) = self.elems[ei].views[vi(attr)].insert(key, val, n);
        let case = match (whose, existed) {
            ("own", _) => "identity",
            ("attached", false) => "moves",
            ("attached", true) => "key-present-node-stays",
            (_, false) => "new-key",
            (_, true) => "existing-key",
        };
        if call == "any_append" {
            sink.stat(&format!("mapop2.anyAppend.{}.{}", if whose == "own" || whose == "attached" { "entry" } else { whose }, if whose == "own" { "own-identity" } else { case }));
        } else {
            let ctor = match whose { "new" => "appendNewNode", "detached" => "appendDetachedNode", "own" => "appendOwnNode", _ => "appendAttachedNode" };
            sink.stat(&format!("mapop2.{}.{}", ctor, case));
        }
        if !existed {
            // the node itself moved here
            if let Some(Loc::In { elem, attr: a2 }) = self.entries.get(&n).cloned() {
                self.elems[elem].views[vi(a2)].remove_node(n);
                // re-insert: remove_node may have removed the entry just pushed when elem == ei
                if elem == ei {
                    unreachable!("a node of this element carries its own key");
                }
            }
            self.entries.insert(n, Loc::In { elem: ei, attr });
        }
        let want = format!("ok {}", carrier);
        if resp == "panic" {
            self.expect(sink, call, &req, &resp, &want);
        } else if resp != want {
            sink.fail("C11", &format!("C11:{}:returned-node", call), &format!("{} answered `{}`; the node carrying the key is {}", req, resp, carrier), &self.s.history);
        }
    }

    fn step_new_and_append(&mut self, sink: &mut Sink, ei: usize, attr: bool, key: usize, val: Pay, call: &str) {
        let n = self.step_new_entry(sink, attr, key, val);
        self.step_append_node_x(sink, ei, n, call, true);
    }

    /// `detach` / `remove` of an entry node.
    pub fn step_unlink(&mut self, sink: &mut Sink, n: usize, remove: bool) {
        let (attr, key, val) = self.entry_kv(n).expect("known entry node");
        let req = format!("{} {}", if remove { "remove" } else { "detach" }, n);
        let resp = self.s.exec(sink, &req);
        let was_attached = matches!(self.entries.get(&n), Some(Loc::In { .. }));
        if let Some(Loc::In { elem, attr: a2 }) = self.entries.get(&n).cloned() {
            self.elems[elem].views[vi(a2)].remove_node(n);
        }
        if was_attached {
            sink.stat(if remove { "mapop2.removeEntryNode" } else { "mapop2.detachEntryNode" });
        } else {
            sink.stat(if remove { "outside-mapop2.remove-of-a-parentless-entry-node" } else { "outside-mapop2.detach-of-a-parentless-entry-node" });
        }
        if remove {
            self.entries.remove(&n);
        } else {
            self.entries.insert(n, Loc::Detached { attr, key, val });
        }
        self.expect(sink, if remove { "remove-node" } else { "detach-node" }, &req, &resp, "ok");
    }

    // ------------------------------------------------------------------------------------
    // `fmap` requests: entry API and get_mut on the real mutable view

    fn emit_fmap(&mut self, sink: &mut Sink, req: &str, resp: String) -> String {
        self.s.relabel(None);
        self.s.history.push(format!("fmap {} -> {}", req, resp));
        sink.emit(format!("fmap {}", req), resp.clone());
        resp
    }

    /// `arg` of and_modify: attributes push a suffix, namespaces overwrite.
    fn modified(attr: bool, old: &Pay, arg: &Pay) -> Pay {
        match (attr, old, arg) {
            (true, Pay::S(o), Pay::S(a)) => Pay::S(format!("{}{}", o, a)),
            (_, _, a) => a.clone(),
        }
    }

    /// One call on the real mutable view (`insert`, `remove`, `get_mut`, every call of the entry
    /// API).  The response is `ok` followed by the value the call RETURNS: the `Option<V>` of
    /// `insert` / `remove` / `OccupiedEntry::insert` / `remove` (`-` = `None`), the value behind the
    /// `&mut V` of `or_insert` / `or_default` / `or_insert_with` / `VacantEntry::insert`, whether
    /// `and_modify` hands back an occupied entry, the value `get_mut` / `into_mut` / `get_mut` of
    /// the occupied entry pointed to before it was overwritten.  The model answers the same line
    /// (`MapCall.run`), and the reference map says what it must be.
    pub fn step_entry(&mut self, sink: &mut Sink, ei: usize, attr: bool, op: &str, key: usize, val: Pay, arg: Pay) {
        let e = self.elems[ei].label;
        let a = self.node(e);
        let req = match op {
            "insert" | "entry_or_insert" | "entry_insert" | "occupied_insert" | "vacant_insert" | "get_mut_set" | "entry_or_insert_with" | "occupied_into_mut" | "occupied_get_mut" => format!("{} {} {} {} {}", op, kind(attr), e, key, val.wire()),
            "entry_or_default" => format!("{} {} {}", op, e, key),
            "entry_and_modify" => format!("{} {} {} {} {}", op, kind(attr), e, key, arg.wire()),
            "entry_and_modify_or_insert" => format!("{} {} {} {} {} {}", op, kind(attr), e, key, arg.wire(), val.wire()),
            "remove" | "entry_remove" => format!("{} {} {} {}", op, kind(attr), e, key),
            _ => unreachable!(),
        };
        let fresh = self.fresh();
        let xot = &mut self.s.xot;
        let vocab = &self.s.vocab;
        fn opt<T>(o: Option<T>, w: impl Fn(&T) -> String) -> String {
            match o {
                Some(x) => w(&x),
                None => "-".to_string(),
            }
        }
        // the returned value on the wire ("" = `()`)
        let r: Option<String> = if attr {
            let name = vocab.name(key);
            let v = match &val { Pay::S(s) => s.clone(), _ => String::new() };
            let sfx = match &arg { Pay::S(s) => s.clone(), _ => String::new() };
            let w = |x: &String| enc(x);
            match op {
                "insert" => guarded(|| { let mut m = xot.attributes_mut(a); let r = m.insert(name, v); opt(r, w) }),
                "remove" => guarded(|| { let mut m = xot.attributes_mut(a); let r = m.remove(name); opt(r, w) }),
                "entry_or_insert" => guarded(|| { let mut m = xot.attributes_mut(a); let r = m.entry(name).or_insert(v).clone(); w(&r) }),
                "entry_or_default" => guarded(|| { let mut m = xot.attributes_mut(a); let r = m.entry(name).or_default().clone(); w(&r) }),
                "entry_and_modify" => guarded(|| { let mut m = xot.attributes_mut(a); let r = matches!(m.entry(name).and_modify(|x| x.push_str(&sfx)), Entry::Occupied(_)); (if r { "1" } else { "0" }).to_string() }),
                "entry_and_modify_or_insert" => guarded(|| { let mut m = xot.attributes_mut(a); let r = m.entry(name).and_modify(|x| x.push_str(&sfx)).or_insert(v).clone(); w(&r) }),
                "entry_insert" => guarded(|| { let mut m = xot.attributes_mut(a); let r = match m.entry(name) { Entry::Occupied(mut o) => Some(o.insert(v)), Entry::Vacant(va) => { va.insert(v); None } }; opt(r, w) }),
                "occupied_insert" => guarded(|| { let mut m = xot.attributes_mut(a); let r = if let Entry::Occupied(mut o) = m.entry(name) { Some(o.insert(v)) } else { None }; opt(r, w) }),
                "vacant_insert" => guarded(|| { let mut m = xot.attributes_mut(a); let r = if let Entry::Vacant(va) = m.entry(name) { Some(va.insert(v).clone()) } else { None }; opt(r, w) }),
                "entry_remove" => guarded(|| { let mut m = xot.attributes_mut(a); let r = if let Entry::Occupied(o) = m.entry(name) { Some(o.remove()) } else { None }; opt(r, w) }),
                "entry_or_insert_with" => guarded(|| { let mut m = xot.attributes_mut(a); let mut called = false; let seen = m.entry(name).or_insert_with(|| { called = true; v }).clone(); format!("{} {}", if called { 1 } else { 0 }, w(&seen)) }),
                "occupied_into_mut" => guarded(|| { let mut m = xot.attributes_mut(a); let r = match m.entry(name) { Entry::Occupied(o) => Some(std::mem::replace(o.into_mut(), v)), Entry::Vacant(_) => None }; opt(r, w) }),
                "occupied_get_mut" => guarded(|| { let mut m = xot.attributes_mut(a); let r = match m.entry(name) { Entry::Occupied(mut o) => Some(std::mem::replace(o.get_mut(), v)), Entry::Vacant(_) => None }; opt(r, w) }),
                _ => guarded(|| { let mut m = xot.attributes_mut(a); let r = m.get_mut(name).map(|x| std::mem::replace(x, v)); opt(r, w) }),
            }
        } else {
            let p = vocab.prefix(key);
            let v = match &val { Pay::N(n) => vocab.ns(*n), _ => vocab.ns(0) };
            let nv = match &arg { Pay::N(n) => vocab.ns(*n), _ => vocab.ns(0) };
            let w = |x: &xot::NamespaceId| ns_num(*x).to_string();
            match op {
                "insert" => guarded(|| { let mut m = xot.namespaces_mut(a); let r = m.insert(p, v); opt(r, w) }),
                "remove" => guarded(|| { let mut m = xot.namespaces_mut(a); let r = m.remove(p); opt(r, w) }),
                "entry_or_insert" => guarded(|| { let mut m = xot.namespaces_mut(a); let r = *m.entry(p).or_insert(v); w(&r) }),
                "entry_and_modify" => guarded(|| { let mut m = xot.namespaces_mut(a); let r = matches!(m.entry(p).and_modify(|x| *x = nv), Entry::Occupied(_)); (if r { "1" } else { "0" }).to_string() }),
                "entry_and_modify_or_insert" => guarded(|| { let mut m = xot.namespaces_mut(a); let r = *m.entry(p).and_modify(|x| *x = nv).or_insert(v); w(&r) }),
                "entry_insert" => guarded(|| { let mut m = xot.namespaces_mut(a); let r = match m.entry(p) { Entry::Occupied(mut o) => Some(o.insert(v)), Entry::Vacant(va) => { va.insert(v); None } }; opt(r, w) }),
                "occupied_insert" => guarded(|| { let mut m = xot.namespaces_mut(a); let r = if let Entry::Occupied(mut o) = m.entry(p) { Some(o.insert(v)) } else { None }; opt(r, w) }),
                "vacant_insert" => guarded(|| { let mut m = xot.namespaces_mut(a); let r = if let Entry::Vacant(va) = m.entry(p) { Some(*va.insert(v)) } else { None }; opt(r, w) }),
                "entry_remove" => guarded(|| { let mut m = xot.namespaces_mut(a); let r = if let Entry::Occupied(o) = m.entry(p) { Some(o.remove()) } else { None }; opt(r, w) }),
                "entry_or_insert_with" => guarded(|| { let mut m = xot.namespaces_mut(a); let mut called = false; let seen = *m.entry(p).or_insert_with(|| { called = true; v }); format!("{} {}", if called { 1 } else { 0 }, w(&seen)) }),
                "occupied_into_mut" => guarded(|| { let mut m = xot.namespaces_mut(a); let r = match m.entry(p) { Entry::Occupied(o) => Some(std::mem::replace(o.into_mut(), v)), Entry::Vacant(_) => None }; opt(r, w) }),
                "occupied_get_mut" => guarded(|| { let mut m = xot.namespaces_mut(a); let r = match m.entry(p) { Entry::Occupied(mut o) => Some(std::mem::replace(o.get_mut(), v)), Entry::Vacant(_) => None }; opt(r, w) }),
                _ => guarded(|| { let mut m = xot.namespaces_mut(a); let r = m.get_mut(p).map(|x| std::mem::replace(x, v)); opt(r, w) }),
            }
        };
        let resp = match r {
            None => "panic".to_string(),
            Some(s) if s.is_empty() => "ok".to_string(),
            Some(s) => format!("ok {}", s),
        };
        let resp = self.emit_fmap(sink, &req, resp);
        // the reference
        let view = &mut self.elems[ei].views[vi(attr)];
        let ctor = match op {
            "insert" => "insert",
            "remove" => "remove",
            "entry_or_insert" => "entryOrInsert",
            "entry_or_default" => "entryOrDefault",
            "entry_and_modify" => "entryAndModify",
            "entry_and_modify_or_insert" => "entryAndModifyOrInsert",
            "entry_insert" => "entryInsert",
            "occupied_insert" => "occupiedInsert",
            "vacant_insert" => "vacantInsert",
            "entry_remove" => "entryRemove",
            "entry_or_insert_with" => "entryOrInsertWith",
            "occupied_into_mut" => "occupiedIntoMutSet",
            "occupied_get_mut" => "occupiedGetMutSet",
            _ => "getMutSet",
        };
        // the three calls below are no MapOp2 constructors: they are constructors of MapCall
        let family = if matches!(op, "entry_or_insert_with" | "occupied_into_mut" | "occupied_get_mut") { "mapcall" } else { "mapop2" };
        let was = view.get(key).map(|x| x.val.wire());
        let occupied = was.is_some();
        match op {
            "insert" => sink.stat(&format!("mapop2.insert.{}", if occupied { "existing-key" } else { "new-key" })),
            "remove" => sink.stat(&format!("mapop2.remove.{}", if occupied { "present" } else { "absent" })),
            _ => sink.stat(&format!("{}.{}.{}", family, ctor, if occupied { "occupied" } else { "vacant" })),
        }
        let old_or_none = was.clone().unwrap_or_else(|| "-".to_string());
        // what the reference map returns
        let want: String;
        match op {
            "insert" | "entry_insert" => {
                let (n, existed) = view.insert(key, val, fresh);
                if !existed {
                    self.entries.insert(n, Loc::In { elem: ei, attr });
                }
                want = format!("ok {}", old_or_none);
            }
            "remove" | "entry_remove" => {
                if let Some(en) = view.remove(key) {
                    self.entries.remove(&en.node);
                }
                want = format!("ok {}", old_or_none);
            }
            "entry_or_insert" | "entry_or_default" | "entry_or_insert_with" => {
                // the closure of or_insert_with runs exactly for a vacant entry; the reference handed
                // back is to the stored value (the old one when occupied, the default when vacant)
                let d = if op == "entry_or_default" { Pay::S(String::new()) } else { val };
                if !occupied {
                    view.insert(key, d, fresh);
                    self.entries.insert(fresh, Loc::In { elem: ei, attr });
                }
                let view = &self.elems[ei].views[vi(attr)];
                let stored = view.get(key).map(|x| x.val.wire()).unwrap_or_else(|| "?".to_string());
                want = if op == "entry_or_insert_with" { format!("ok {} {}", if occupied { 0 } else { 1 }, stored) } else { format!("ok {}", stored) };
            }
            "entry_and_modify" => {
                if let Some(i) = view.pos(key) {
                    view.0[i].val = Self::modified(attr, &view.0[i].val, &arg);
                }
                want = format!("ok {}", if occupied { 1 } else { 0 });
            }
            "entry_and_modify_or_insert" => {
                if let Some(i) = view.pos(key) {
                    view.0[i].val = Self::modified(attr, &view.0[i].val, &arg);
                } else {
                    view.insert(key, val, fresh);
                    self.entries.insert(fresh, Loc::In { elem: ei, attr });
                }
                let view = &self.elems[ei].views[vi(attr)];
                want = format!("ok {}", view.get(key).map(|x| x.val.wire()).unwrap_or_else(|| "?".to_string()));
            }
            "occupied_insert" => {
                if let Some(i) = view.pos(key) {
                    view.0[i].val = val;
                }
                want = format!("ok {}", old_or_none);
            }
            "vacant_insert" => {
                if !occupied {
                    want = format!("ok {}", val.wire());
                    view.insert(key, val, fresh);
                    self.entries.insert(fresh, Loc::In { elem: ei, attr });
                } else {
                    want = "ok -".to_string();
                }
            }
            _ => {
                // get_mut / OccupiedEntry::into_mut / get_mut, written through
                if let Some(i) = view.pos(key) {
                    view.0[i].val = val;
                }
                want = format!("ok {}", old_or_none);
            }
        }
        self.expect(sink, op, &req, &resp, &want);
    }

    /// The mutable accessors panic on a non-element (documented); the read-only ones see an
    /// empty map there.
    pub fn step_non_element(&mut self, sink: &mut Sink, l: usize, attr: bool, key: usize, val: Pay) {
        let a = self.node(l);
        let req = format!("entry_or_insert {} {} {} {}", kind(attr), l, key, val.wire());
        let xot = &mut self.s.xot;
        let vocab = &self.s.vocab;
        let r = if attr {
            let v = match &val { Pay::S(s) => s.clone(), _ => String::new() };
            guarded(|| { let mut m = xot.attributes_mut(a); let _ = m.entry(vocab.name(key)).or_insert(v); })
        } else {
            let v = match &val { Pay::N(n) => vocab.ns(*n), _ => vocab.ns(0) };
            guarded(|| { let mut m = xot.namespaces_mut(a); let _ = m.entry(vocab.prefix(key)).or_insert(v); })
        };
        let resp = if r.is_some() { "ok".to_string() } else { "panic".to_string() };
        let resp = self.emit_fmap(sink, &req, resp);
        if resp != "panic" {
            sink.fail("C11", "C11:mutable-view-of-non-element:no-panic", &format!("{} answered {}", req, resp), &self.s.history);
        }
        // read-only views of a non-element: empty
        let (n, e) = if attr { let m = self.s.xot.attributes(a); (m.len(), m.is_empty()) } else { let m = self.s.xot.namespaces(a); (m.len(), m.is_empty()) };
        if n != 0 || !e {
            sink.fail("C11", "C11:read-only-view-of-non-element:not-empty", &format!("node {}: len {} is_empty {}", l, n, e), &self.s.history);
        }
        let req = format!("map_full {} {}", kind(attr), l);
        self.emit_fmap(sink, &req, format!("n={} e={} ", n, if e { 1 } else { 0 }));
    }

    // ------------------------------------------------------------------------------------
    // reads

    /// `forest map_read` of both views (model-compared; suite_forest's views-agree oracle).
    pub fn read_both(&mut self, sink: &mut Sink, ei: usize) {
        let e = self.elems[ei].label;
        self.s.exec(sink, &format!("map_read attr {}", e));
        self.s.exec(sink, &format!("map_read ns {}", e));
    }

    /// `fmap map_full` (model-compared) and the reference-map oracle on every accessor of the
    /// read-only and the mutable view.
    pub fn check_view(&mut self, sink: &mut Sink, ei: usize, attr: bool, op: &str, emit: bool) {
        let e = self.elems[ei].label;
        let a = self.node(e);
        let rm = self.elems[ei].views[vi(attr)].clone();
        let want_pairs: Vec<(usize, Pay)> = rm.0.iter().map(|x| (x.key, x.val.clone())).collect();
        let want_nodes: Vec<usize> = rm.0.iter().map(|x| x.node).collect();
        let keys_pool: Vec<usize> = if attr { ATTR_KEYS.to_vec() } else { NS_KEYS.to_vec() };
        // (view name, len, is_empty, iter, keys, values, to_vec, hashmap(sorted), nodes, per-key (get, contains, get_node))
        type Snap = (usize, bool, Vec<(usize, Pay)>, Vec<usize>, Vec<Pay>, Vec<(usize, Pay)>, Vec<(usize, Pay)>, Vec<Option<usize>>, Vec<(Option<Pay>, bool, Option<Option<usize>>)>);
        let label = &self.s.label;
        let lab = |n: Node| label.get(&n).copied();
        let xot = &mut self.s.xot;
        let vocab = &self.s.vocab;
        let snaps: Vec<(&str, Snap)> = if attr {
            let cv = |k: xot::NameId, v: &String| (name_num(k), Pay::S(v.clone()));
            let ro = {
                let m = xot.attributes(a);
                let mut hm: Vec<(usize, Pay)> = m.to_hashmap().iter().map(|(k, v)| cv(*k, v)).collect();
                hm.sort_by_key(|x| x.0);
                let per = keys_pool.iter().map(|&k| { let n = vocab.name(k); (m.get(n).map(|v| Pay::S(v.clone())), m.contains_key(n), Some(m.get_node(n).map(|x| lab(x).unwrap_or(usize::MAX)))) }).collect();
                (m.len(), m.is_empty(), m.iter().map(|(k, v)| cv(k, v)).collect(), m.keys().map(name_num).collect(), m.values().map(|v| Pay::S(v.clone())).collect(),
                 m.to_vec().iter().map(|(k, v)| cv(*k, v)).collect(), hm, m.nodes().map(lab).collect(), per)
            };
            let mu = {
                let m = xot.attributes_mut(a);
                let mut hm: Vec<(usize, Pay)> = m.to_hashmap().iter().map(|(k, v)| cv(*k, v)).collect();
                hm.sort_by_key(|x| x.0);
                let per = keys_pool.iter().map(|&k| { let n = vocab.name(k); (m.get(n).map(|v| Pay::S(v.clone())), m.contains_key(n), Some(m.get_node(n).map(|x| lab(x).unwrap_or(usize::MAX)))) }).collect();
                let it: Vec<(usize, Pay)> = m.iter().map(|(k, v)| cv(k, v)).collect();
                let ks: Vec<usize> = m.keys().map(name_num).collect();
                let vs: Vec<Pay> = m.values().map(|v| Pay::S(v.clone())).collect();
                (m.len(), m.is_empty(), it, ks, vs, m.to_vec().iter().map(|(k, v)| cv(*k, v)).collect(), hm, m.nodes().map(lab).collect(), per)
            };
            vec![("read-only", ro), ("mutable", mu)]
        } else {
            let cv = |k: xot::PrefixId, v: &xot::NamespaceId| (prefix_num(k), Pay::N(ns_num(*v)));
            let ro = {
                let m = xot.namespaces(a);
                let mut hm: Vec<(usize, Pay)> = m.to_hashmap().iter().map(|(k, v)| cv(*k, v)).collect();
                hm.sort_by_key(|x| x.0);
                let per = keys_pool.iter().map(|&k| { let n = vocab.prefix(k); (m.get(n).map(|v| Pay::N(ns_num(*v))), m.contains_key(n), Some(m.get_node(n).map(|x| lab(x).unwrap_or(usize::MAX)))) }).collect();
                (m.len(), m.is_empty(), m.iter().map(|(k, v)| cv(k, v)).collect(), m.keys().map(prefix_num).collect(), m.values().map(|v| Pay::N(ns_num(*v))).collect(),
                 m.to_vec().iter().map(|(k, v)| cv(*k, v)).collect(), hm, m.nodes().map(lab).collect(), per)
            };
            let mu = {
                let m = xot.namespaces_mut(a);
                let mut hm: Vec<(usize, Pay)> = m.to_hashmap().iter().map(|(k, v)| cv(*k, v)).collect();
                hm.sort_by_key(|x| x.0);
                let per = keys_pool.iter().map(|&k| { let n = vocab.prefix(k); (m.get(n).map(|v| Pay::N(ns_num(*v))), m.contains_key(n), Some(m.get_node(n).map(|x| lab(x).unwrap_or(usize::MAX)))) }).collect();
                let it: Vec<(usize, Pay)> = m.iter().map(|(k, v)| cv(k, v)).collect();
                let ks: Vec<usize> = m.keys().map(prefix_num).collect();
                let vs: Vec<Pay> = m.values().map(|v| Pay::N(ns_num(*v))).collect();
                (m.len(), m.is_empty(), it, ks, vs, m.to_vec().iter().map(|(k, v)| cv(*k, v)).collect(), hm, m.nodes().map(lab).collect(), per)
            };
            vec![("read-only", ro), ("mutable", mu)]
        };
        let mut want_hm = want_pairs.clone();
        want_hm.sort_by_key(|x| x.0);
        let mut bad: Vec<(String, String)> = vec![];
        for (vn, s) in &snaps {
            let mut chk = |aspect: &str, ok: bool, got: String| {
                if !ok {
                    bad.push((format!("C11:{}:{}-{}-view:{}", op, kind(attr), vn, aspect), got));
                }
            };
            chk("len", s.0 == want_pairs.len(), format!("{}", s.0));
            chk("is_empty", s.1 == want_pairs.is_empty(), format!("{}", s.1));
            chk("iter", s.2 == want_pairs, format!("{:?}", s.2));
            chk("keys", s.3 == want_pairs.iter().map(|x| x.0).collect::<Vec<_>>(), format!("{:?}", s.3));
            chk("values", s.4 == want_pairs.iter().map(|x| x.1.clone()).collect::<Vec<_>>(), format!("{:?}", s.4));
            chk("to_vec", s.5 == want_pairs, format!("{:?}", s.5));
            chk("to_hashmap", s.6 == want_hm, format!("{:?}", s.6));
            chk("nodes", s.7 == want_nodes.iter().map(|n| Some(*n)).collect::<Vec<_>>(), format!("{:?}", s.7));
            for (i, &k) in keys_pool.iter().enumerate() {
                let w = rm.get(k);
                chk("get", s.8[i].0 == w.map(|x| x.val.clone()), format!("key {} -> {:?}", k, s.8[i].0));
                chk("contains_key", s.8[i].1 == w.is_some(), format!("key {} -> {}", k, s.8[i].1));
                chk("get_node", s.8[i].2 == Some(w.map(|x| x.node)), format!("key {} -> {:?}", k, s.8[i].2));
            }
        }
        for (sig, got) in bad {
            sink.fail("C11", &sig, &format!("element {}: got {}, the reference map is {:?} carried by nodes {:?}", e, got, want_pairs, want_nodes), &self.s.history);
        }
        if emit {
            // model-compared full read, with the labels of the entry nodes
            let ro = &snaps[0].1;
            let items: Vec<String> = ro.2.iter().zip(ro.7.iter()).map(|((k, v), n)| format!("{}:{}@{}", k, v.wire(), n.map(|x| x.to_string()).unwrap_or("?".into()))).collect();
            let resp = format!("n={} e={} {}", ro.0, if ro.1 { 1 } else { 0 }, items.join(" "));
            let req = format!("map_full {} {}", kind(attr), e);
            self.emit_fmap(sink, &req, resp);
            // `iter()`, `to_vec()`, `to_hashmap()` (key-sorted) of the read-only and of the mutable view
            let pairs = |l: &Vec<(usize, Pay)>| l.iter().map(|(k, v)| format!("{}:{}", k, v.wire())).collect::<Vec<_>>().join(",");
            for (i, name) in ["map_iter_ro", "map_iter_mut"].iter().enumerate() {
                let sn = &snaps[i].1;
                let resp = format!("iter={} vec={} hm={}", pairs(&sn.2), pairs(&sn.5), pairs(&sn.6));
                let req = format!("{} {} {}", name, kind(attr), e);
                self.emit_fmap(sink, &req, resp);
            }
        }
    }

    /// `fmap get`: `get_node`, `get` and `contains_key` of the read-only view (the calls
    /// `MapCall.getNode` / `get` / `containsKey` return), model-compared and judged against the
    /// reference map.
    pub fn read_get(&mut self, sink: &mut Sink, ei: usize, attr: bool, key: usize) {
        let e = self.elems[ei].label;
        let a = self.node(e);
        let lab = |s: &Session, x: Option<Node>| match x {
            Some(x) => s.label.get(&x).map(|l| l.to_string()).unwrap_or("?".into()),
            None => "-".to_string(),
        };
        let resp = if attr {
            let m = self.s.xot.attributes(a);
            let n = self.s.vocab.name(key);
            format!("{} {} {}", lab(&self.s, m.get_node(n)), m.get(n).map(|v| enc(v)).unwrap_or("-".into()), if m.contains_key(n) { 1 } else { 0 })
        } else {
            let m = self.s.xot.namespaces(a);
            let n = self.s.vocab.prefix(key);
            format!("{} {} {}", lab(&self.s, m.get_node(n)), m.get(n).map(|v| ns_num(*v).to_string()).unwrap_or("-".into()), if m.contains_key(n) { 1 } else { 0 })
        };
        let req = format!("get {} {} {}", kind(attr), e, key);
        let resp = self.emit_fmap(sink, &req, resp);
        let view = &self.elems[ei].views[vi(attr)];
        let want = match view.get(key) {
            Some(x) => format!("{} {} 1", x.node, x.val.wire()),
            None => "- - 0".to_string(),
        };
        sink.stat(&format!("mapcall.get.{}", if view.get(key).is_some() { "present" } else { "absent" }));
        self.expect(sink, "get", &req, &resp, &want);
    }

    /// `fmap entry_peek`: the read accessors of the entry API — `Entry::key`, then
    /// `OccupiedEntry::key` / `get` / `get_mut` resp. `VacantEntry::key` — without any update;
    /// model-compared, and judged against the reference map.
    pub fn read_entry_peek(&mut self, sink: &mut Sink, ei: usize, attr: bool, key: usize) {
        let e = self.elems[ei].label;
        let a = self.node(e);
        let xot = &mut self.s.xot;
        let vocab = &self.s.vocab;
        let r: Option<String> = if attr {
            let name = vocab.name(key);
            guarded(|| {
                let mut m = xot.attributes_mut(a);
                let en = m.entry(name);
                let k0 = name_num(*en.key());
                match en {
                    Entry::Occupied(mut o) => {
                        let k1 = name_num(*o.key());
                        let g = o.get().clone();
                        let gm = o.get_mut().clone();
                        format!("occ {} {} {} {}", k0, k1, enc(&g), enc(&gm))
                    }
                    Entry::Vacant(v) => format!("vac {} {}", k0, name_num(*v.key())),
                }
            })
        } else {
            let p = vocab.prefix(key);
            guarded(|| {
                let mut m = xot.namespaces_mut(a);
                let en = m.entry(p);
                let k0 = prefix_num(*en.key());
                match en {
                    Entry::Occupied(mut o) => {
                        let k1 = prefix_num(*o.key());
                        let g = ns_num(*o.get());
                        let gm = ns_num(*o.get_mut());
                        format!("occ {} {} {} {}", k0, k1, g, gm)
                    }
                    Entry::Vacant(v) => format!("vac {} {}", k0, prefix_num(*v.key())),
                }
            })
        };
        let resp = r.unwrap_or_else(|| "panic".to_string());
        let req = format!("entry_peek {} {} {}", kind(attr), e, key);
        let resp = self.emit_fmap(sink, &req, resp);
        let view = &self.elems[ei].views[vi(attr)];
        let want = match view.get(key) {
            Some(x) => format!("occ {} {} {} {}", key, key, x.val.wire(), x.val.wire()),
            None => format!("vac {} {}", key, key),
        };
        sink.stat(&format!("entryapi.peek.{}", if view.get(key).is_some() { "occupied" } else { "vacant" }));
        self.expect(sink, "entry_peek", &req, &resp, &want);
    }

    /// `to_string(e)` writes the declarations, then the attributes, each in map order.
    pub fn check_to_string(&mut self, sink: &mut Sink, ei: usize) {
        let e = self.elems[ei].label;
        let a = self.node(e);
        let out = match guarded(|| self.s.xot.to_string(a)) {
            Some(Ok(s)) => s,
            Some(Err(_)) => {
                sink.stat("to_string.err");
                return;
            }
            None => {
                sink.fail("C11", "C11:to_string:panics", &format!("to_string of element {} panicked", e), &self.s.history);
                return;
            }
        };
        sink.stat("to_string.ok");
        let items = match start_tag_items(&out) {
            Some(i) => i,
            None => {
                sink.fail("C11", "C11:to_string:start-tag-unreadable", &out, &self.s.history);
                return;
            }
        };
        let own_prefixes: Vec<String> = self.elems[ei].views[1].0.iter().map(|x| self.s.vocab.prefixes[x.key].0.clone()).collect();
        let mut seen_attr = false;
        let mut decls: Vec<(String, String)> = vec![];
        let mut attrs: Vec<(String, String)> = vec![];
        let mut order_ok = true;
        for (k, v) in &items {
            if k == "xmlns" || k.starts_with("xmlns:") {
                if seen_attr {
                    order_ok = false;
                }
                let p = if k == "xmlns" { String::new() } else { k[6..].to_string() };
                if own_prefixes.contains(&p) {
                    decls.push((p, v.clone()));
                }
            } else {
                seen_attr = true;
                attrs.push((k.clone(), v.clone()));
            }
        }
        let want_decls: Vec<(String, String)> = self.elems[ei].views[1].0.iter().map(|x| {
            (self.s.vocab.prefixes[x.key].0.clone(), match &x.val { Pay::N(n) => self.s.vocab.namespaces[*n].0.clone(), _ => String::new() })
        }).collect();
        let want_attrs: Vec<(String, String)> = self.elems[ei].views[0].0.iter().map(|x| {
            let (local, ns, _) = &self.s.vocab.names[x.key];
            let q = if *ns == 1 { format!("xml:{}", local) } else { local.clone() };
            (q, match &x.val { Pay::S(s) => s.clone(), _ => String::new() })
        }).collect();
        if !order_ok {
            sink.fail("C11", "C11:to_string:attribute-before-declaration", &out, &self.s.history);
        }
        if decls != want_decls {
            sink.fail("C11", "C11:to_string:declarations-differ-from-reference", &format!("`{}`: declarations {:?}, reference {:?}", out, decls, want_decls), &self.s.history);
        }
        if attrs != want_attrs {
            sink.fail("C11", "C11:to_string:attributes-differ-from-reference", &format!("`{}`: attributes {:?}, reference {:?}", out, attrs, want_attrs), &self.s.history);
        }
    }
}

fn unescape(s: &str) -> Option<String> {
    let mut out = String::new();
    let mut rest = s;
    while let Some(i) = rest.find('&') {
        out.push_str(&rest[..i]);
        let j = rest[i..].find(';')? + i;
        let ent = &rest[i + 1..j];
        match ent {
            "amp" => out.push('&'),
            "lt" => out.push('<'),
            "gt" => out.push('>'),
            "quot" => out.push('"'),
            "apos" => out.push('\''),
            _ => {
                let v = if let Some(h) = ent.strip_prefix("#x") { u32::from_str_radix(h, 16).ok()? } else { ent.strip_prefix('#')?.parse().ok()? };
                out.push(char::from_u32(v)?);
            }
        }
        rest = &rest[j + 1..];
    }
    out.push_str(rest);
    Some(out)
}

/// The `name="value"` items of the first start tag, values unescaped.
fn start_tag_items(s: &str) -> Option<Vec<(String, String)>> {
    let cs: Vec<char> = s.chars().collect();
    if cs.first() != Some(&'<') {
        return None;
    }
    let mut i = 1;
    while i < cs.len() && !cs[i].is_whitespace() && cs[i] != '>' && cs[i] != '/' {
        i += 1;
    }
    let mut out = vec![];
    loop {
        while i < cs.len() && cs[i].is_whitespace() {
            i += 1;
        }
        if i >= cs.len() {
            return None;
        }
        if cs[i] == '>' || cs[i] == '/' {
            return Some(out);
        }
        let k0 = i;
        while i < cs.len() && cs[i] != '=' {
            i += 1;
        }
        let key: String = cs[k0..i].iter().collect();
        if i + 1 >= cs.len() || cs[i + 1] != '"' {
            return None;
        }
        i += 2;
        let v0 = i;
        while i < cs.len() && cs[i] != '"' {
            i += 1;
        }
        if i >= cs.len() {
            return None;
        }
        let raw: String = cs[v0..i].iter().collect();
        out.push((key, unescape(&raw)?));
        i += 1;
    }
}

// ----------------------------------------------------------------------------------------------
// generation

fn attr_val(rng: &mut Rng) -> Pay {
    Pay::S(rng.pick(&ATTR_VALS).to_string())
}
fn ns_val(rng: &mut Rng) -> Pay {
    Pay::N(*rng.pick(&NS_VALS))
}
fn any_key(rng: &mut Rng, attr: bool) -> usize {
    if attr {
        *rng.pick(&ATTR_KEYS)
    } else {
        *rng.pick(&NS_KEYS)
    }
}
fn any_val(rng: &mut Rng, attr: bool) -> Pay {
    if attr {
        attr_val(rng)
    } else {
        ns_val(rng)
    }
}

const OPS: &[(&str, usize)] = &[
    ("insert", 10), ("set", 4), ("remove", 6), ("unset", 3), ("clear", 1), ("new_append", 8), ("new_only", 3), ("append_known", 8),
    ("detach", 4), ("remove_node", 3), ("entry_or_insert", 4), ("entry_or_default", 2), ("entry_and_modify", 4),
    ("entry_and_modify_or_insert", 4), ("entry_insert", 3), ("occupied_insert", 3), ("vacant_insert", 3), ("entry_remove", 3), ("get_mut_set", 4), ("entry_or_insert_with", 4), ("occupied_into_mut", 4), ("occupied_get_mut", 3), ("move", 6), ("noise", 3), ("non_element", 1),
];

fn pick_op(rng: &mut Rng) -> &'static str {
    let total: usize = OPS.iter().map(|o| o.1).sum();
    let mut x = rng.below(total);
    for (n, w) in OPS {
        if x < *w {
            return n;
        }
        x -= w;
    }
    unreachable!()
}

/// After a step: both views of the element through `map_read` and through the oracle.
fn after_step(fm: &mut Fm, sink: &mut Sink, ei: usize, op: &str, full: bool) {
    fm.read_both(sink, ei);
    fm.check_view(sink, ei, true, op, full);
    fm.check_view(sink, ei, false, op, full);
}

pub fn one_history(rng: &mut Rng, sink: &mut Sink, n_ops: usize) {
    let mut fm = Fm::new(sink);
    // elements that start with any number of namespace and attribute nodes
    for i in 0..2 {
        let n_ns = rng.below(4);
        let n_at = rng.below(4);
        let ns: Vec<(usize, usize)> = (0..n_ns).map(|_| (any_key(rng, false), *rng.pick(&NS_VALS))).collect();
        let at: Vec<(usize, &str)> = (0..n_at).map(|_| (any_key(rng, true), *rng.pick(&ATTR_VALS))).collect();
        let idx = fm.add_element(sink, 2 + i, rng.chance(1, 2), &ns, &at, rng.below(3));
        after_step(&mut fm, sink, idx, "build", true);
    }
    for _ in 0..n_ops {
        if fm.dead {
            return;
        }
        let op = pick_op(rng);
        let ei = if rng.chance(3, 4) { 0 } else { 1 };
        let attr = rng.chance(1, 2);
        let key = any_key(rng, attr);
        let val = any_val(rng, attr);
        let mut known: Vec<usize> = fm.entries.keys().copied().collect();
        known.sort();
        let attached: Vec<usize> = known.iter().copied().filter(|n| matches!(fm.entries[n], Loc::In { .. })).collect();
        sink.stat(&format!("op.{}", op));
        match op {
            "insert" => fm.step_insert(sink, ei, attr, key, val, false),
            "set" => fm.step_insert(sink, ei, attr, key, val, true),
            "remove" => fm.step_remove(sink, ei, attr, key, false),
            "unset" => fm.step_remove(sink, ei, attr, key, true),
            "clear" => fm.step_clear(sink, ei, attr),
            "new_append" => {
                let call = *rng.pick(&["any_append", "any_append", if attr { "append_attr_node" } else { "append_ns_node" }, if attr { "append_ns_node" } else { "append_attr_node" }]);
                let had = fm.elems[ei].views[vi(attr)].pos(key).is_some();
                sink.stat(if had { "append.key-exists" } else { "append.key-new" });
                fm.step_new_and_append(sink, ei, attr, key, val, call);
            }
            "new_only" => {
                fm.step_new_entry(sink, attr, key, val);
            }
            "append_known" => {
                if known.is_empty() {
                    continue;
                }
                let n = *rng.pick(&known);
                let call = *rng.pick(&["any_append", "any_append", "append_attr_node", "append_ns_node"]);
                match &fm.entries[&n] {
                    Loc::Detached { .. } => sink.stat("append.detached-node"),
                    Loc::In { elem, .. } if *elem == ei => sink.stat("append.node-of-this-element"),
                    _ => sink.stat("append.node-of-other-element"),
                }
                fm.step_append_node(sink, ei, n, call);
            }
            "move" => {
                let from_other: Vec<usize> = attached.iter().copied().filter(|n| matches!(fm.entries[n], Loc::In { elem, .. } if elem != ei)).collect();
                if from_other.is_empty() {
                    continue;
                }
                let n = *rng.pick(&from_other);
                let is_attr = matches!(fm.entries[&n], Loc::In { attr: true, .. });
                let call = *rng.pick(&["any_append", if is_attr { "append_attr_node" } else { "append_ns_node" }]);
                sink.stat("append.node-of-other-element");
                fm.step_append_node(sink, ei, n, call);
            }
            "detach" | "remove_node" => {
                let pool = if rng.chance(3, 4) && !attached.is_empty() { &attached } else { &known };
                if pool.is_empty() {
                    continue;
                }
                let n = *rng.pick(pool);
                fm.step_unlink(sink, n, op == "remove_node");
            }
            "non_element" => {
                let live = fm.s.live();
                let cand: Vec<usize> = live.into_iter().filter(|&l| !fm.s.xot.is_element(fm.s.nodes[l])).collect();
                if cand.is_empty() {
                    continue;
                }
                let l = *rng.pick(&cand);
                fm.step_non_element(sink, l, attr, key, val);
                continue;
            }
            "noise" => {
                // a normal child comes or goes: the views must not notice
                let e = fm.elems[ei].label;
                let t = fm.new_label(sink, &format!("T {}", enc("n")));
                fm.s.exec(sink, &format!("{} {} {}", if rng.chance(1, 2) { "append" } else { "prepend" }, e, t));
            }
            "entry_or_default" => fm.step_entry(sink, ei, true, op, any_key(rng, true), Pay::S(String::new()), Pay::S(String::new())),
            _ => {
                let arg = any_val(rng, attr);
                fm.step_entry(sink, ei, attr, op, key, val, arg);
            }
        }
        if fm.dead {
            return;
        }
        after_step(&mut fm, sink, ei, op, true);
        let other = 1 - ei;
        if matches!(op, "append_known" | "move" | "detach" | "remove_node") || rng.chance(1, 4) {
            after_step(&mut fm, sink, other, op, true);
        }
        if rng.chance(1, 3) {
            let a2 = rng.chance(1, 2);
            fm.read_get(sink, ei, a2, any_key(rng, a2));
        }
        if rng.chance(1, 3) {
            let a2 = rng.chance(1, 2);
            fm.read_entry_peek(sink, ei, a2, any_key(rng, a2));
            if fm.dead {
                return;
            }
        }
        if rng.chance(1, 3) {
            fm.check_to_string(sink, ei);
        }
        if rng.chance(1, 5) {
            fm.s.exec(sink, "dump");
            fm.s.exec(sink, "inv");
            if let Some(why) = fm.s.validate() {
                sink.fail("C04", &format!("C04:fmap-{}:{}", op, why), &format!("after {}: {}", op, why), &fm.s.history);
                return;
            }
        }
    }
    fm.s.exec(sink, "dump");
    fm.s.exec(sink, "inv");
}

// ----------------------------------------------------------------------------------------------
// exhaustive small scope: every history of `depth` steps over 3 keys of one view (shorter
// histories are its prefixes: both views are read after every step)

#[derive(Clone, Copy, Debug)]
enum XOp {
    Insert(usize),
    Remove(usize),
    Clear,
    Node(usize),
    OrInsert(usize),
    Modify(usize),
    GetMut(usize),
    OccInsert(usize),
    VacInsert(usize),
    OrInsertWith(usize),
    IntoMut(usize),
    OccGetMut(usize),
}

fn alphabet(with_entry: bool) -> Vec<XOp> {
    let mut v = vec![];
    for k in 0..3 {
        v.push(XOp::Insert(k));
        v.push(XOp::Remove(k));
        v.push(XOp::Node(k));
    }
    v.push(XOp::Clear);
    if with_entry {
        for k in 0..3 {
            v.push(XOp::OrInsert(k));
            v.push(XOp::Modify(k));
            v.push(XOp::GetMut(k));
            v.push(XOp::OccInsert(k));
            v.push(XOp::VacInsert(k));
            v.push(XOp::OrInsertWith(k));
            v.push(XOp::IntoMut(k));
            v.push(XOp::OccGetMut(k));
        }
    }
    v
}

const INITIAL: &[(&[(usize, usize)], &[(usize, &str)], usize)] = &[
    (&[], &[], 0),
    (&[(2, 2)], &[], 1),
    (&[], &[(3, "i"), (2, "j")], 0),
    (&[(3, 3), (0, 2)], &[(0, "k")], 2),
];

fn exhaustive(sink: &mut Sink, attr: bool, depth: usize, with_entry: bool) {
    let alpha = alphabet(with_entry);
    let n = alpha.len();
    let total = n.pow(depth as u32);
    let keys = if attr { ATTR_KEYS } else { NS_KEYS };
    for h in 0..total {
        let mut fm = Fm::new(sink);
        let (ns, at, normal) = INITIAL[h % INITIAL.len()];
        let ei = fm.add_element(sink, 2, h % 2 == 1, ns, at, normal);
        let mut x = h;
        for step in 0..depth {
            let op = alpha[x % n];
            x /= n;
            let val = if attr { Pay::S(format!("v{}", step)) } else { Pay::N(2 + step % 3) };
            let name = match op {
                XOp::Insert(k) => { fm.step_insert(sink, ei, attr, keys[k], val, step % 2 == 1); "insert" }
                XOp::Remove(k) => { fm.step_remove(sink, ei, attr, keys[k], step % 2 == 1); "remove" }
                XOp::Clear => { fm.step_clear(sink, ei, attr); "clear" }
                XOp::Node(k) => { fm.step_new_and_append(sink, ei, attr, keys[k], val, if step % 2 == 0 { "any_append" } else if attr { "append_attr_node" } else { "append_ns_node" }); "new_append" }
                XOp::OrInsert(k) => { fm.step_entry(sink, ei, attr, "entry_or_insert", keys[k], val.clone(), val); "entry_or_insert" }
                XOp::Modify(k) => { fm.step_entry(sink, ei, attr, "entry_and_modify", keys[k], val.clone(), val); "entry_and_modify" }
                XOp::GetMut(k) => { fm.step_entry(sink, ei, attr, "get_mut_set", keys[k], val.clone(), val); "get_mut_set" }
                XOp::OccInsert(k) => { fm.step_entry(sink, ei, attr, "occupied_insert", keys[k], val.clone(), val); "occupied_insert" }
                XOp::VacInsert(k) => { fm.step_entry(sink, ei, attr, "vacant_insert", keys[k], val.clone(), val); "vacant_insert" }
                XOp::OrInsertWith(k) => { fm.step_entry(sink, ei, attr, "entry_or_insert_with", keys[k], val.clone(), val); "entry_or_insert_with" }
                XOp::IntoMut(k) => { fm.step_entry(sink, ei, attr, "occupied_into_mut", keys[k], val.clone(), val); "occupied_into_mut" }
                XOp::OccGetMut(k) => { fm.step_entry(sink, ei, attr, "occupied_get_mut", keys[k], val.clone(), val); "occupied_get_mut" }
            };
            if fm.dead {
                break;
            }
            fm.read_both(sink, ei);
            fm.check_view(sink, ei, attr, name, true);
            fm.check_view(sink, ei, !attr, name, false);
        }
        if !fm.dead && h % 7 == 0 {
            fm.check_to_string(sink, ei);
        }
        sink.stat("exhaustive.histories");
    }
}

// ----------------------------------------------------------------------------------------------
// exhaustive small scope on TWO elements: every history of `depth` steps over 3 keys of one view
// with insertions into either element, moves of an entry node from one element to the other,
// detachment / removal of entry nodes and re-appending of a parentless entry node

#[derive(Clone, Copy, Debug)]
enum YOp {
    /// insert(key) at the element
    Ins(usize, usize),
    /// append to the element the entry node of the OTHER element found under the key
    Move(usize, usize),
    /// detach / remove the entry node of the element found under the key
    Det(usize, usize),
    Rem(usize, usize),
    /// append to the element the oldest parentless entry node
    Reappend(usize),
}

fn alphabet2() -> Vec<YOp> {
    let mut v = vec![];
    for e in 0..2 {
        for k in 0..3 {
            v.push(YOp::Ins(e, k));
            v.push(YOp::Move(e, k));
        }
        v.push(YOp::Reappend(e));
    }
    for k in 0..3 {
        v.push(YOp::Det(0, k));
        v.push(YOp::Rem(1, k));
    }
    v
}

fn exhaustive2(sink: &mut Sink, attr: bool, depth: usize) {
    let alpha = alphabet2();
    let n = alpha.len();
    let total = n.pow(depth as u32);
    let keys = if attr { ATTR_KEYS } else { NS_KEYS };
    for h in 0..total {
        let mut fm = Fm::new(sink);
        let (ns0, at0, normal0) = INITIAL[h % INITIAL.len()];
        let (ns1, at1, normal1) = INITIAL[(h / INITIAL.len() + 1) % INITIAL.len()];
        fm.add_element(sink, 2, h % 2 == 1, ns0, at0, normal0);
        fm.add_element(sink, 3, h % 3 == 1, ns1, at1, normal1);
        let mut x = h;
        for step in 0..depth {
            let op = alpha[x % n];
            x /= n;
            let val = if attr { Pay::S(format!("w{}", step)) } else { Pay::N(2 + step % 3) };
            let call = if step % 2 == 0 { "any_append" } else if attr { "append_attr_node" } else { "append_ns_node" };
            let name = match op {
                YOp::Ins(e, k) => { fm.step_insert(sink, e, attr, keys[k], val, false); "insert" }
                YOp::Move(e, k) => {
                    match fm.elems[1 - e].views[vi(attr)].get(keys[k]).map(|x| x.node) {
                        Some(nd) => fm.step_append_node(sink, e, nd, call),
                        None => sink.stat("exhaustive2.move-of-absent-key"),
                    }
                    "move"
                }
                YOp::Det(e, k) | YOp::Rem(e, k) => {
                    let remove = matches!(op, YOp::Rem(..));
                    match fm.elems[e].views[vi(attr)].get(keys[k]).map(|x| x.node) {
                        Some(nd) => fm.step_unlink(sink, nd, remove),
                        None => sink.stat("exhaustive2.unlink-of-absent-key"),
                    }
                    if remove { "remove_node" } else { "detach" }
                }
                YOp::Reappend(e) => {
                    let mut det: Vec<usize> = fm.entries.iter().filter(|(_, l)| matches!(l, Loc::Detached { .. })).map(|(n, _)| *n).collect();
                    det.sort();
                    match det.first() {
                        Some(&nd) => fm.step_append_node(sink, e, nd, call),
                        None => sink.stat("exhaustive2.no-parentless-node"),
                    }
                    "append_known"
                }
            };
            if fm.dead {
                break;
            }
            for ei in 0..2 {
                fm.read_both(sink, ei);
                fm.check_view(sink, ei, attr, name, true);
                fm.check_view(sink, ei, !attr, name, false);
            }
        }
        if !fm.dead && h % 7 == 0 {
            fm.check_to_string(sink, 0);
            fm.check_to_string(sink, 1);
        }
        sink.stat("exhaustive2.histories");
    }
}

pub fn run(seed: u64, count: usize, tier: &str, sink: &mut Sink) {
    let mut rng = Rng::new(seed ^ 0xF3A9);
    let n_ops = if tier == "quick" { 30 } else { 60 };
    for _ in 0..count {
        one_history(&mut rng, sink, n_ops);
    }
    match tier {
        "thorough" | "search" => {
            // every history of 5 steps over 3 keys (insert / remove / node-style insert of each
            // key, clear: 10 operations per step) on the attribute view, 4 steps on the namespace
            // view; 3 steps with the entry API added (34 operations per step), both views
            exhaustive(sink, true, 5, false);
            exhaustive(sink, false, 4, false);
            exhaustive(sink, true, 3, true);
            exhaustive(sink, false, 3, true);
            // two elements, 3 steps out of 20 operations (insertions, moves between the elements,
            // detach / remove of entry nodes, re-append of a parentless node), both views
            exhaustive2(sink, true, 3);
            exhaustive2(sink, false, 3);
        }
        _ => {
            exhaustive(sink, true, 2, true);
            exhaustive(sink, false, 2, true);
            exhaustive2(sink, true, 2);
        }
    }
}
